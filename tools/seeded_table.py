#!/venv/bin/python
# -*- coding: utf-8 -*-
"""seeded_table.py: the tables of DESIGN.md section 4a (rounds 2 and 3) from seeded/*/meta.json and seeded/HARDENING.json.
Rewrites the text between the markers <!-- SEEDED-TABLES-BEGIN --> and <!-- SEEDED-TABLES-END --> in DESIGN.md."""
import glob
import json
import os
import re

VERIF = os.path.dirname(os.path.dirname(os.path.abspath(__file__)))


def cut(s, n):
    s = ' '.join(str(s).split()).replace('|', '\\|')
    return s if len(s) <= n else s[:n - 2].rsplit(' ', 1)[0] + ' …'


def rows(lo, hi):
    hard = json.load(open(os.path.join(VERIF, 'seeded', 'HARDENING.json')))
    out = []
    stats = {'n': 0, 'first': 0, 'after': 0, 'nfi': 0, 'missed': 0}
    for d in sorted(glob.glob(os.path.join(VERIF, 'seeded', 'c??_?'))):
        sid = os.path.basename(d)
        k = sid.split('_')[1]
        k = int(k) if k.isdigit() else 9 + ord(k) - ord('a')       # rounds beyond the fourth are labelled a, b, ...
        if not (lo <= k <= hi):
            continue
        m = json.load(open(os.path.join(d, 'meta.json')))
        cr = m.get('check_result', {})
        tail = ' '.join(cr.get('tail') or [])
        stats['n'] += 1
        if cr.get('detected'):
            if 'no-failing-input-found' in tail:
                res = 'reported (`no-failing-input-found`)'
                stats['nfi'] += 1
            elif sid in hard:
                res = 'detected, with a failing input, after the check was strengthened: ' + hard[sid]
                stats['after'] += 1
            else:
                res = 'detected as first written, with a failing input'
                stats['first'] += 1
        else:
            res = 'NOT detected (quick exit %s)' % cr.get('quick_rc')
            stats['missed'] += 1
        out.append('| %s | %s | %s | %s |' % (sid, cut(m.get('summary', ''), 330), cut(m.get('needs_to_manifest', ''), 260), res))
    return out, stats


def main():
    text = []
    for title, lo, hi in (('Second round', 3, 4), ('Third round', 5, 6), ('Fourth round', 7, 8), ('Fifth round', 9, 10)):
        r, st = rows(lo, hi)
        if not r:
            continue
        text.append('**%s: %d changes** — %d detected by the check as it stood, %d after it was strengthened, %d reported without a '
                    'failing input, %d not detected.\n' % (title, st['n'], st['first'], st['after'], st['nfi'], st['missed']))
        text.append('| id | change | needs | result (quick tier, from `seeded/<id>/meta.json`) |')
        text.append('|---|---|---|---|')
        text += r
        text.append('')
    block = '\n'.join(text)
    p = os.path.join(VERIF, 'DESIGN.md')
    s = open(p, encoding='utf-8').read()
    a, b = '<!-- SEEDED-TABLES-BEGIN -->', '<!-- SEEDED-TABLES-END -->'
    if a in s and b in s:
        s = s[:s.index(a) + len(a)] + '\n' + block + '\n' + s[s.index(b):]
        open(p, 'w', encoding='utf-8').write(s)
        print('DESIGN.md tables rewritten')
    else:
        print(block)


if __name__ == '__main__':
    main()
