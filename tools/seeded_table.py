#!/venv/bin/python
# -*- coding: utf-8 -*-
"""seeded_table.py: the tables of DESIGN.md section 4a (rounds 2, 3, 4 and any later one) from seeded/*/meta.json and seeded/HARDENING.json.
Rewrites the text between the markers <!-- SEEDED-TABLES-BEGIN --> and <!-- SEEDED-TABLES-END --> in DESIGN.md.
Same layout as the hand-written first-round table: id | change | route | detected by the check as first written?
(the property sections of DESIGN.md say what each change needs to manifest; the full text is in seeded/<id>/meta.json)."""
import glob
import json
import os
import re

VERIF = os.path.dirname(os.path.dirname(os.path.abspath(__file__)))

CHANGE_MAX = 170      # characters of the `summary` shown
ADDED_MAX = 230       # characters of the HARDENING.json entry shown


def clean(s):
    return ' '.join(str(s).split()).replace('|', '\\|')


def cut(s, n):
    """at most n characters, cut at a word boundary"""
    s = clean(s)
    if len(s) <= n:
        return s
    return s[:n - 2].rsplit(' ', 1)[0].rstrip(' ,;:(-') + ' …'


def first_sentence(s, n):
    """the first sentence of s if that is a reasonable cell, else s cut at n characters"""
    s = clean(s)
    m = re.search(r'[.;](?= [A-Z(\'"`])', s)
    if m and 40 <= m.start() <= n:
        return s[:m.start()]
    return cut(s.rstrip('.'), n)


def route(tail):
    """P = a proof obligation stopped checking, C = model/implementation disagreements, O = oracle failures"""
    r = []
    m = re.search(r'theorems (\d+)/(\d+)', tail)
    if m and m.group(1) != m.group(2):
        r.append('P')
    m = re.search(r'(\d+) disagreements', tail)
    if m and int(m.group(1)) > 0:
        r.append('C')
    m = re.search(r'(\d+) oracle failures', tail)
    if m and int(m.group(1)) > 0:
        r.append('O')
    return ', '.join(r) or '–'


def rows(lo, hi):
    hard = json.load(open(os.path.join(VERIF, 'seeded', 'HARDENING.json')))
    out = []
    stats = {'n': 0, 'first': 0, 'after': 0, 'nfi': 0, 'missed': 0}
    for d in sorted(glob.glob(os.path.join(VERIF, 'seeded', 'c??_?'))):
        sid = os.path.basename(d)
        k = sid.split('_')[1]
        k = int(k) if k.isdigit() else 9 + ord(k) - ord('a')       # rounds beyond the fourth are labelled 9, a, b, ...
        if not (lo <= k <= hi):
            continue
        m = json.load(open(os.path.join(d, 'meta.json')))
        cr = m.get('check_result', {})
        tail = ' '.join(cr.get('tail') or [])
        stats['n'] += 1
        if cr.get('detected'):
            if 'no-failing-input-found' in tail or 'failing input:' not in tail:
                res = 'reported, but without a failing input in the recorded run (`no-failing-input-found`)'
                if sid in hard:
                    res += ' — added first: ' + cut(re.sub(r'^see h\d+: ', '', hard[sid]), ADDED_MAX)
                stats['nfi'] += 1
            elif sid in hard:
                res = 'no — added first: ' + cut(re.sub(r'^see h\d+: ', '', hard[sid]), ADDED_MAX)
                stats['after'] += 1
            else:
                res = 'yes'
                stats['first'] += 1
        else:
            res = '**NOT detected** (quick exit %s)' % cr.get('quick_rc')
            stats['missed'] += 1
        out.append('| %s | %s | %s | %s |' % (sid, first_sentence(m.get('summary', ''), CHANGE_MAX), route(tail), res))
    return out, stats


def main():
    text = []
    total = {'n': 0, 'first': 0, 'after': 0, 'nfi': 0, 'missed': 0}
    for title, lo, hi in (('Second round', 3, 4), ('Third round', 5, 6), ('Fourth round', 7, 8), ('Fifth round', 9, 10), ('Sixth round', 11, 12), ('Seventh round', 13, 14), ('Eighth round', 15, 16), ('Ninth round', 17, 18), ('Tenth round', 19, 20), ('Eleventh round', 21, 22), ('Twelfth round', 23, 24)):
        r, st = rows(lo, hi)
        if not r:
            continue
        for k in total:
            total[k] += st[k]
        lab = lambda k: str(k) if k <= 8 else chr(ord('a') + k - 9)
        line = '**%s (`_%s`, `_%s`): %d changes** — %d detected with a failing input by the check as it stood, %d after it was strengthened' % (
            title, lab(lo), lab(hi), st['n'], st['first'], st['after'])
        if st['nfi'] or st['missed']:
            line += ', %d reported without a failing input, %d not detected' % (st['nfi'], st['missed'])
        text.append(line + '.\n')
        text.append('| id | change (beginning of `seeded/<id>/meta.json` `summary`) | route | detected by the check as first written? |')
        text.append('|---|---|---|---|')
        text += r
        text.append('')
    block = '\n'.join(text)
    p = os.path.join(VERIF, 'DESIGN.md')
    s = open(p, encoding='utf-8').read()
    a, b = '<!-- SEEDED-TABLES-BEGIN -->', '<!-- SEEDED-TABLES-END -->'
    if a in s and b in s:
        s = s[:s.index(a) + len(a)] + '\n' + block + '\n' + s[s.index(b):]
        open(p, 'w', encoding='utf-8').write(s)
        print('DESIGN.md tables rewritten')
    else:
        print(block)
    print('rounds 2 and later: %(n)d changes, %(first)d as first written, %(after)d after strengthening, %(nfi)d without failing input, '
          '%(missed)d not detected' % total)


if __name__ == '__main__':
    main()
