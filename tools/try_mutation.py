#!/venv/bin/python
# -*- coding: utf-8 -*-
"""try_mutation.py <dir with patch.diff, demo.py, meta.json> <Cxx> [--keep name]
Confirms a seeded change in a scratch worktree (tests pass, demo passes clean / fails patched), then applies it to /repo,
runs the property's quick check, and ALWAYS restores /repo.  With --keep, stores it under /verif/seeded/<name>/."""
import json
import os
import shutil
import subprocess
import sys
import tempfile

VERIF = os.path.dirname(os.path.dirname(os.path.abspath(__file__)))
REPO = '/repo'


def sh(cmd, cwd=None, timeout=1800):
    p = subprocess.run(cmd, cwd=cwd, shell=True, stdout=subprocess.PIPE, stderr=subprocess.STDOUT, universal_newlines=True, timeout=timeout)
    return p.returncode, p.stdout


def main():
    d = os.path.abspath(sys.argv[1])
    prop = sys.argv[2].upper()
    keep = sys.argv[sys.argv.index('--keep') + 1] if '--keep' in sys.argv else None
    patch = os.path.join(d, 'patch.diff')
    demo = os.path.join(d, 'demo.py')
    res = {'property': prop, 'dir': d}
    wt = tempfile.mkdtemp(prefix='mutcheck_', dir='/tmp')
    os.rmdir(wt)
    try:
        rc, out = sh('git -C %s worktree add -q --detach %s HEAD' % (REPO, wt))
        assert rc == 0, out
        # the git-ignored PLY table file, as the authors of the seeded changes had it in their clones (parsers start without PLY's
        # table-construction warnings, which some demos' child-process protocols trip over)
        tab = os.path.join(REPO, 'hotxlfp', 'grammarparser', 'parser_FormulaParser_parsetab.py')
        if os.path.exists(tab):
            shutil.copy(tab, os.path.join(wt, 'hotxlfp', 'grammarparser', 'parser_FormulaParser_parsetab.py'))
        rc, out = sh('/venv/bin/python %s %s' % (demo, wt))
        res['demo_clean_rc'] = rc
        rc, out = sh('git apply %s' % patch, cwd=wt)
        res['applies'] = rc == 0
        if rc != 0:
            res['apply_error'] = out[-500:]
        else:
            rc, out = sh('/venv/bin/python -m pytest -q -p no:cacheprovider 2>&1 | tail -1', cwd=wt)
            res['pytest'] = out.strip()
            rc, out = sh('/venv/bin/python %s %s' % (demo, wt))
            res['demo_patched_rc'] = rc
            res['demo_patched_out'] = out[-400:]
    finally:
        sh('git -C %s worktree remove --force %s' % (REPO, wt))
        shutil.rmtree(wt, ignore_errors=True)
    confirmed = res.get('applies') and res.get('demo_clean_rc') == 0 and res.get('demo_patched_rc') not in (0, None) and '165 passed' in res.get('pytest', '')
    res['confirmed'] = bool(confirmed)
    if confirmed:
        # run the property's quick check against a scratch copy of /repo with the patch applied
        # (HOTXLFP_REPO), so that agents working against /repo are not disturbed; --in-repo applies it
        # to /repo itself and restores it afterwards
        in_repo = '--in-repo' in sys.argv
        wt2 = tempfile.mkdtemp(prefix='mutrun_', dir='/tmp')
        os.rmdir(wt2)
        try:
            if in_repo:
                assert sh('git -C %s status --porcelain' % REPO)[1].strip() == '', '/repo not clean'
                rc, out = sh('git -C %s apply %s' % (REPO, patch))
                assert rc == 0, out
                env = ''
            else:
                rc, out = sh('git -C %s worktree add -q --detach %s HEAD' % (REPO, wt2))
                assert rc == 0, out
                rc, out = sh('git apply %s' % patch, cwd=wt2)
                assert rc == 0, out
                env = 'HOTXLFP_REPO=%s ' % wt2
            rc, out = sh(env + '/venv/bin/python harness/check.py %s --tier quick' % prop, cwd=VERIF)
            res['check_rc'] = rc
            res['check_tail'] = [l[:300] for l in out.strip().split('\n')[-4:]]
        finally:
            if in_repo:
                sh('git -C %s checkout -- .' % REPO)
            else:
                sh('git -C %s worktree remove --force %s' % (REPO, wt2))
                shutil.rmtree(wt2, ignore_errors=True)
                # bring the generated tables back to /repo's own
                sh('/venv/bin/python -m harness.extract', cwd=VERIF)
        res['detected'] = res.get('check_rc') == 1
    print(json.dumps(res, indent=1))
    if keep and confirmed:
        dst = os.path.join(VERIF, 'seeded', keep)
        os.makedirs(dst, exist_ok=True)
        for f in ('patch.diff', 'demo.py'):
            if os.path.abspath(d) != os.path.abspath(dst):
                shutil.copy(os.path.join(d, f), dst)
        meta = {}
        try:
            meta = json.load(open(os.path.join(d, 'meta.json')))
        except Exception:
            pass
        meta['confirmed_by_main_session'] = {k: res.get(k) for k in ('pytest', 'demo_clean_rc', 'demo_patched_rc')}
        meta['check_result'] = {'property': prop, 'quick_rc': res.get('check_rc'), 'detected': res.get('detected'), 'tail': res.get('check_tail')}
        json.dump(meta, open(os.path.join(dst, 'meta.json'), 'w'), indent=1)


if __name__ == '__main__':
    main()
