# -*- coding: utf-8 -*-
"""pin the ast fingerprints of every modelled function (run after validating the model against the code)"""
import glob
import importlib
import json
import os
import sys
sys.dont_write_bytecode = True
sys.path.insert(0, os.path.dirname(os.path.dirname(os.path.abspath(__file__))))
from harness import common  # noqa

if __name__ == '__main__':
    res = {}
    for f in sorted(glob.glob(os.path.join(common.VERIF, 'harness', 'props', 'c*.py'))):
        mod = importlib.import_module('harness.props.' + os.path.basename(f)[:-3])
        res.update(common.fingerprint(getattr(mod, 'FUNCTIONS', [])))
    from harness import routes
    res.update(common.fingerprint(routes.FRONT_END))      # the front end every route passes through (harness/routes.py)
    with open(os.path.join(common.VERIF, 'harness', 'fingerprints.json'), 'w') as f:
        json.dump(res, f, indent=1, sort_keys=True)
    print('%d fingerprints pinned' % len(res))
