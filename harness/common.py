# -*- coding: utf-8 -*-
"""
Shared machinery of the hotxlfp verification harness.

  extract tables from /repo  ->  lake build (kernel re-checks the theorems against the
  regenerated tables)  ->  axiom / forbidden-token audit  ->  correspondence (real
  implementation vs. the Lean model's driver, same inputs)  ->  oracle (the property's own
  statement evaluated on the real implementation only)  ->  decision (DESIGN.md 1.5).

Exit codes of a check: 0 = property held on everything explored, 1 = VIOLATION,
2 = the harness itself failed (timeout, crash) - never a verdict.
"""
import fcntl
import hashlib
import json
import os
import random
import re
import shutil
import subprocess
import sys
import time
import traceback

VERIF = os.path.dirname(os.path.dirname(os.path.abspath(__file__)))
REPO = os.environ.get('HOTXLFP_REPO', '/repo')
LEAN = os.path.join(VERIF, 'lean')
RUN_DIR = os.path.join(VERIF, '.run')
REPLAYS = os.path.join(VERIF, 'replays')
EVIDENCE = os.path.join(VERIF, 'evidence')
KNOWN = os.path.join(VERIF, 'known_findings.json')
TABLES = os.path.join(LEAN, 'HotXL', 'Generated', 'Tables.lean')
DRIVER_EXE = os.path.join(LEAN, '.lake', 'build', 'bin', 'driver')
ALLOWED_AXIOMS = {'propext', 'Classical.choice', 'Quot.sound'}
FORBIDDEN = ['sorry', 'admit', 'native_decide', 'bv_decide', 'implemented_by',
             'unsafe ', 'maxHeartbeats 0', 'ofReduceBool']
GUARD = 'HOTXLFP_VERIF'

os.environ.setdefault(GUARD, '1')


# --------------------------------------------------------------------------- repo loading

_repo_loaded = False


def load_repo():
    """import the *current working tree* of /repo, without letting ply rewrite its
    parsetab inside /repo and without leaving .pyc files there"""
    global _repo_loaded
    if _repo_loaded:
        return
    sys.dont_write_bytecode = True
    if REPO not in sys.path:
        sys.path.insert(0, REPO)
    import ply.yacc as _yacc
    if not getattr(_yacc.yacc, '_verif_wrapped', False):
        _orig = _yacc.yacc
        _tab_cache = {}

        def yacc_no_write(*a, **kw):
            """never let ply rewrite the parsetab inside /repo.  When the grammar under test differs from the
            cached table (signature mismatch) ply regenerates the LALR tables on EVERY construction; to keep
            checks that build many parsers fast, the first regeneration is written to a scratch directory
            and handed back to ply as a module object afterwards."""
            kw.setdefault('debug', False)
            kw['errorlog'] = _yacc.NullLogger()
            key = (type(kw.get('module')), str(kw.get('tabmodule')))
            mod = _tab_cache.get(key)
            if mod is None:
                import importlib.util
                import tempfile
                os.makedirs(RUN_DIR, exist_ok=True)
                d = tempfile.mkdtemp(prefix='parsetab_', dir=RUN_DIR)
                try:
                    parser = _orig(*a, **dict(kw, write_tables=True, outputdir=d))
                    fn = os.path.join(d, str(kw.get('tabmodule', 'parsetab')).split('.')[-1] + '.py')
                    if os.path.exists(fn):
                        spec = importlib.util.spec_from_file_location('verif_scratch_parsetab_%d' % len(_tab_cache), fn)
                        m = importlib.util.module_from_spec(spec)
                        spec.loader.exec_module(m)
                        _tab_cache[key] = m
                    else:
                        _tab_cache[key] = 'package'      # the table cached in the package was valid and was used
                finally:
                    shutil.rmtree(d, ignore_errors=True)
                return parser
            if mod == 'package':
                return _orig(*a, **dict(kw, write_tables=False))
            return _orig(*a, **dict(kw, tabmodule=mod, write_tables=False))
        yacc_no_write._verif_wrapped = True
        _yacc.yacc = yacc_no_write
    import hotxlfp  # noqa: F401
    assert os.path.realpath(os.path.dirname(hotxlfp.__file__)).startswith(os.path.realpath(REPO)), \
        'hotxlfp imported from %s, not from %s' % (hotxlfp.__file__, REPO)
    _repo_loaded = True


# --------------------------------------------------------------------------- locking / build

class BuildLock(object):
    def __enter__(self):
        os.makedirs(RUN_DIR, exist_ok=True)
        self.f = open(os.path.join(RUN_DIR, 'build.lock'), 'w')
        fcntl.flock(self.f, fcntl.LOCK_EX)
        return self

    def __exit__(self, *a):
        fcntl.flock(self.f, fcntl.LOCK_UN)
        self.f.close()


def write_if_changed(path, content):
    try:
        with open(path, 'r', encoding='utf-8') as f:
            if f.read() == content:
                return False
    except IOError:
        pass
    os.makedirs(os.path.dirname(path), exist_ok=True)
    tmp = path + '.tmp%d' % os.getpid()
    with open(tmp, 'w', encoding='utf-8') as f:
        f.write(content)
    os.replace(tmp, path)
    return True


def run_cmd(cmd, cwd=None, timeout=3600, input=None):
    t0 = time.time()
    p = subprocess.run(cmd, cwd=cwd, stdout=subprocess.PIPE, stderr=subprocess.STDOUT,
                       timeout=timeout, input=input, universal_newlines=True)
    return p.returncode, p.stdout, time.time() - t0


def lake_build(targets, timeout=3000):
    """returns (ok, output).  Kernel-checks every theorem in the targets' import closure."""
    rc, out, dt = run_cmd(['lake', 'build'] + list(targets), cwd=LEAN, timeout=timeout)
    return rc == 0, out, dt


ERR_RE = re.compile(r'^error: (HotXL/[A-Za-z0-9_/]+\.lean):(\d+):(\d+): (.*)$', re.M)
DECL_RE = re.compile(r'^(?:private\s+|protected\s+)?(?:theorem|lemma|def|example|instance|abbrev)\s+([^\s:({\[]+)?', re.M)
THEOREM_RE = re.compile(r'^theorem\s+([A-Za-z0-9_.\']+)', re.M)


def strip_comments(src):
    """remove Lean block comments (nested) and line comments"""
    out = []
    i = 0
    depth = 0
    n = len(src)
    while i < n:
        if src.startswith('/-', i):
            depth += 1
            i += 2
        elif depth and src.startswith('-/', i):
            depth -= 1
            i += 2
        elif depth:
            if src[i] == '\n':
                out.append('\n')
            i += 1
        elif src.startswith('--', i):
            while i < n and src[i] != '\n':
                i += 1
        else:
            out.append(src[i])
            i += 1
    return ''.join(out)


def failing_declarations(build_output):
    """map `error: file:line` of a failed build to the enclosing declaration names"""
    res = []
    for m in ERR_RE.finditer(build_output):
        path, line, msg = m.group(1), int(m.group(2)), m.group(4)
        name = '?'
        try:
            with open(os.path.join(LEAN, path), encoding='utf-8') as f:
                lines = f.read().split('\n')
            for k in range(min(line, len(lines)) - 1, -1, -1):
                mm = re.match(r'^(?:private\s+|protected\s+)?(theorem|lemma|def|example|instance|abbrev)\s*([^\s:({\[]*)', lines[k])
                if mm:
                    name = (mm.group(2) or mm.group(1))
                    break
        except IOError:
            pass
        res.append({'file': path, 'line': line, 'declaration': name, 'message': msg[:300]})
    return res


def lean_sources(mods):
    files = []
    for mod in mods:
        files.append(os.path.join(LEAN, mod.replace('.', '/') + '.lean'))
    return files


def import_closure(mods):
    """project-local import closure of the given modules (files under lean/HotXL)"""
    seen = []
    todo = list(mods)
    while todo:
        m = todo.pop()
        if m in seen:
            continue
        path = os.path.join(LEAN, m.replace('.', '/') + '.lean')
        if not os.path.exists(path):
            continue
        seen.append(m)
        with open(path, encoding='utf-8') as f:
            for line in f:
                mm = re.match(r'^\s*(?:public\s+)?import\s+(HotXL[A-Za-z0-9_.]*)', line)
                if mm:
                    todo.append(mm.group(1))
    return seen


def token_audit(mods):
    """forbidden tokens (outside comments) and `axiom`/`partial` declarations in the import
    closure of the property's modules.  `partial` is allowed only in Driver/ and Basic's
    wire-format helpers (never in what theorems are about)."""
    hits = []
    for m in import_closure(mods):
        path = os.path.join(LEAN, m.replace('.', '/') + '.lean')
        src = strip_comments(open(path, encoding='utf-8').read())
        for tok in FORBIDDEN:
            for mm in re.finditer(re.escape(tok), src):
                line = src.count('\n', 0, mm.start()) + 1
                hits.append('%s:%d: %s' % (m, line, tok.strip()))
        for mm in re.finditer(r'^\s*axiom\s', src, re.M):
            hits.append('%s:%d: axiom' % (m, src.count('\n', 0, mm.start()) + 1))
        if '.Model.' in m and m != 'HotXL.Model.Basic':
            for mm in re.finditer(r'^\s*partial\s+def', src, re.M):
                hits.append('%s:%d: partial def in model' % (m, src.count('\n', 0, mm.start()) + 1))
    return hits


def theorems_of(mod):
    path = os.path.join(LEAN, mod.replace('.', '/') + '.lean')
    src = strip_comments(open(path, encoding='utf-8').read())
    ns = []
    names = []
    for line in src.split('\n'):
        m = re.match(r'^namespace\s+(\S+)', line)
        if m:
            ns.append(m.group(1))
            continue
        m = re.match(r'^end\s+(\S+)', line)
        if m and ns and ns[-1] == m.group(1):
            ns.pop()
            continue
        m = re.match(r'^theorem\s+([^\s:({\[]+)', line)
        if m:
            names.append('.'.join(ns + [m.group(1)]))
    return names


def axiom_audit(prop_mods, tag):
    """`#print axioms` on every theorem of the Props modules; returns
    (dict name -> sorted axiom list, raw output, ok)"""
    names = []
    for m in prop_mods:
        names += theorems_of(m)
    src = ''.join('import %s\n' % m for m in prop_mods)
    src += ''.join('#print axioms %s\n' % n for n in names)
    os.makedirs(RUN_DIR, exist_ok=True)
    path = os.path.join(RUN_DIR, 'Audit_%s_%d.lean' % (tag, os.getpid()))
    with open(path, 'w') as f:
        f.write(src)
    try:
        rc, out, dt = run_cmd(['lake', 'env', 'lean', path], cwd=LEAN, timeout=1800)
    finally:
        try:
            os.unlink(path)
        except OSError:
            pass
    res = {}
    # "'Name' depends on axioms: [a, b]"  or  "'Name' does not depend on any axioms"
    for m in re.finditer(r"'([^']+)' depends on axioms: \[([^\]]*)\]", out.replace('\n ', ' ').replace('\n', ' ')):
        res[m.group(1)] = sorted(a.strip() for a in m.group(2).split(',') if a.strip())
    for m in re.finditer(r"'([^']+)' does not depend on any axioms", out):
        res[m.group(1)] = []
    ok = rc == 0 and all(n in res for n in names) and \
        all(set(v) <= ALLOWED_AXIOMS for v in res.values())
    return names, res, out, ok


# --------------------------------------------------------------------------- driver

class Driver(object):
    """batch access to the compiled Lean model"""

    def __init__(self):
        os.makedirs(RUN_DIR, exist_ok=True)
        self.exe = os.path.join(RUN_DIR, 'driver.%d' % os.getpid())
        shutil.copy2(DRIVER_EXE, self.exe)

    def close(self):
        try:
            os.unlink(self.exe)
        except OSError:
            pass

    def query(self, lines, timeout=3000):
        if not lines:
            return []
        data = '\n'.join(lines) + '\n'
        p = subprocess.run([self.exe], input=data.encode('utf-8'), stdout=subprocess.PIPE,
                           stderr=subprocess.PIPE, timeout=timeout)
        out = p.stdout.decode('utf-8', 'replace').split('\n')
        if out and out[-1] == '':
            out.pop()
        if p.returncode != 0 or len(out) != len(lines):
            raise RuntimeError('driver failed: rc=%s, %d answers for %d requests; stderr=%s' % (
                p.returncode, len(out), len(lines), p.stderr.decode('utf-8', 'replace')[:500]))
        return out


# --------------------------------------------------------------------------- wire format

def enc_str(s):
    """string -> `-`-separated decimal code points (`_` for the empty string)"""
    if s == '':
        return '_'
    return '-'.join(str(ord(c)) for c in s)


def dec_str(t):
    if t == '_':
        return ''
    return ''.join(chr(int(x)) for x in t.split('-'))


# --------------------------------------------------------------------------- known findings

def load_known():
    try:
        with open(KNOWN) as f:
            return json.load(f)
    except IOError:
        return {'findings': [], 'fixed': []}


def known_match(prop_id, case, known):
    for k in known.get('findings', []):
        if k.get('property') == prop_id and k.get('case') == case:
            return k
    return None


# --------------------------------------------------------------------------- fingerprints

def fingerprint(qualnames):
    """sha256 of ast.dump of each modelled function of the current /repo tree"""
    import ast
    import importlib
    import inspect
    import textwrap
    load_repo()
    res = {}
    for qn in qualnames:
        modname, _, attr = qn.rpartition(':')
        try:
            obj = importlib.import_module(modname)
            for part in attr.split('.'):
                obj = getattr(obj, part)
            obj = getattr(obj, '__wrapped__', obj)
            src = textwrap.dedent(inspect.getsource(obj))
            res[qn] = hashlib.sha256(ast.dump(ast.parse(src)).encode()).hexdigest()[:16]
        except Exception as e:  # a vanished function is itself a change
            res[qn] = 'missing:%s' % type(e).__name__
    return res


def pinned_fingerprints():
    try:
        with open(os.path.join(VERIF, 'harness', 'fingerprints.json')) as f:
            return json.load(f)
    except IOError:
        return {}


# --------------------------------------------------------------------------- the check

def _fresh_run(pid, cases, model):
    """impl of `cases` in order in a fresh interpreter; -> (agree of the last one with `model`, str(impl))"""
    env = dict(os.environ)
    p = subprocess.run([sys.executable, '-m', 'harness.fresh', pid], cwd=VERIF, env=env, timeout=600,
                       input=json.dumps({'cases': cases, 'model': model}).encode('utf-8'),
                       stdout=subprocess.PIPE, stderr=subprocess.PIPE)
    for line in p.stdout.decode('utf-8', 'replace').split('\n'):
        if line.startswith('FRESH-RESULT '):
            r = json.loads(line[len('FRESH-RESULT '):])
            return r['agree'], r['impl']
    raise RuntimeError('fresh interpreter gave no result: rc=%s %s' % (p.returncode, p.stderr.decode('utf-8', 'replace')[-300:]))


def _fresh_oracle(pid, cases):
    """impl of `cases` in order in a fresh interpreter; -> the oracle's message on the last one (None = it holds there)"""
    p = subprocess.run([sys.executable, '-m', 'harness.fresh', pid], cwd=VERIF, env=dict(os.environ), timeout=600,
                       input=json.dumps({'cases': cases, 'model': None, 'oracle': True}).encode('utf-8'),
                       stdout=subprocess.PIPE, stderr=subprocess.PIPE)
    for line in p.stdout.decode('utf-8', 'replace').split('\n'):
        if line.startswith('FRESH-RESULT '):
            return json.loads(line[len('FRESH-RESULT '):]).get('oracle')
    raise RuntimeError('fresh interpreter gave no result: rc=%s %s' % (p.returncode, p.stderr.decode('utf-8', 'replace')[-300:]))


def standalone_failure(pid, cases, failures, max_probe=4, budget=26):
    """among the first oracle failures of a run, one that fails ALONE in a fresh interpreter (the replay of that input then
    reproduces it); when none does, the first failure together with the shortest prefix of the run found to make it fail.
    -> (index into failures, history | None)"""
    index = {}
    for i, c in enumerate(cases):
        index.setdefault(json.dumps(c, sort_keys=True), i)
    probed = []
    t_end = time.time() + 900          # the probe is an aid to the report, not part of the verdict: fifteen minutes at most
    # the first failure of every kind of case first, then the others in the order of the run
    firsts, rest, seen_kinds = [], [], set()
    for j, (c, _m) in enumerate(failures):
        k = c.get('kind') if isinstance(c, dict) else None
        (rest if k in seen_kinds else firsts).append(j)
        seen_kinds.add(k)
    for j in (firsts + rest)[:max_probe]:
        if time.time() > t_end:
            break
        c = failures[j][0]
        try:
            json.dumps(c)
        except (TypeError, ValueError):
            continue
        budget -= 1
        if _fresh_oracle(pid, [c]):
            return j, None
        probed.append(j)
    if not probed:
        return 0, None
    j = probed[0]
    c = failures[j][0]
    i = index.get(json.dumps(c, sort_keys=True))
    if i is None or i == 0:
        return j, None
    lo, hi = 0, i
    while hi - lo > 1 and budget > 0 and time.time() < t_end:
        mid = (lo + hi) // 2
        budget -= 1
        if _fresh_oracle(pid, cases[:mid] + [c]):
            hi = mid
        else:
            lo = mid
    history = cases[:hi]
    if hi - lo == 1 and budget > 0 and time.time() < t_end and _fresh_oracle(pid, [cases[hi - 1], c]):
        history = [cases[hi - 1]]
    return j, history


def fresh_process_probe(pid, cases, model_ans, disagreements, max_probe=4, budget=14):
    """-> None | (case, history (list of earlier cases), message)"""
    index = {}
    for i, c in enumerate(cases):
        index.setdefault(json.dumps(c, sort_keys=True), i)
    for c, impl, model in disagreements[:max_probe]:
        try:
            json.dumps(c)
        except (TypeError, ValueError):
            continue
        agree, fresh_impl = _fresh_run(pid, [c], model)
        budget -= 1
        if not agree:
            continue          # it disagrees on its own: the input's matter, not the history's
        # the answer depends on what this process did before: shortest prefix of the run that still changes it
        i = index.get(json.dumps(c, sort_keys=True))
        history = None
        if i is not None and i > 0:
            lo, hi = 0, i          # prefix cases[:hi] changes the answer (the run showed it); cases[:lo] does not
            while hi - lo > 1 and budget > 0:
                mid = (lo + hi) // 2
                a, _ = _fresh_run(pid, cases[:mid] + [c], model)
                budget -= 1
                if a:
                    lo = mid
                else:
                    hi = mid
            if hi - lo == 1 and budget > 0:
                a, _ = _fresh_run(pid, [cases[hi - 1], c], model)
                budget -= 1
                history = [cases[hi - 1]] if not a else cases[:hi]
            else:
                history = cases[:hi]
        msg = ('the answer to this input depends on what was evaluated before it in the same process: here (after %s) the '
               'implementation gives %s, in a fresh process it gives %s, which is what the model says' % (
                   ('%d earlier case(s) of this run' % len(history)) if history is not None else 'the earlier cases of this run',
                   str(impl)[:200], fresh_impl[:200]))
        if history is not None and len(history) > 50:
            history = history[-50:]          # the replay keeps the tail; the message says how long the prefix was
        return c, history or [], msg
    return None


class Outcome(object):
    def __init__(self):
        self.build_ok = True
        self.build_failures = []
        self.audit_ok = True
        self.audit_notes = []
        self.theorems = []
        self.axioms = {}
        self.disagreements = []      # (case, impl, model)
        self.oracle_failures = []    # (case, message)
        self.evaluations = 0
        self.nontrivial = set()
        self.kinds = {}
        self.samples = []
        self.known_lines = []
        self.notes = []
        self.bulk_nontrivial = 0     # inputs covered by sweep cases (plugin.weight)
        self.bulk_model = 0


def run_check(plugin, tier, seed, replay=None):
    t0 = time.time()
    pid = plugin.ID
    rng = random.Random(seed)
    out = Outcome()
    known = load_known()
    prop_mods = list(plugin.LEAN_MODULES)

    # 1. tables from the current tree, 2. build (= re-check every theorem), 3. audits
    from . import extract
    with BuildLock():
        load_repo()
        tables_changed = extract.write_tables()
        ok_drv, log_drv, dt_drv = lake_build(['driver'])
        if not ok_drv:
            raise RuntimeError('model/driver does not build:\n' + log_drv[-3000:])
        ok, log, dt_build = lake_build(prop_mods)
        out.build_ok = ok
        if not ok:
            out.build_failures = failing_declarations(log) or [{'file': '?', 'line': 0, 'declaration': '?', 'message': log[-800:]}]
        hits = token_audit(prop_mods)
        if hits:
            out.audit_ok = False
            out.audit_notes += hits
        if ok:
            names, axioms, raw, aok = axiom_audit(prop_mods, pid)
            out.theorems = names
            out.axioms = axioms
            if not aok:
                out.audit_ok = False
                out.audit_notes.append('axiom audit failed: ' + raw[-500:])
        else:
            for m in prop_mods:
                try:
                    out.theorems += theorems_of(m)
                except IOError:
                    pass
        leanchecker = None
        if tier == 'thorough' and ok and replay is None:
            rc, lc_out, lc_dt = run_cmd(['lake', 'env', 'leanchecker'] + prop_mods, cwd=LEAN, timeout=3000)
            leanchecker = {'rc': rc, 'wall_s': round(lc_dt, 1), 'tail': lc_out[-300:]}
            if rc != 0:
                out.audit_ok = False
                out.audit_notes.append('leanchecker rejected: ' + lc_out[-500:])
        driver = Driver()

    try:
        # fingerprints of the modelled functions: a changed one enlarges the quick sweep
        fps = fingerprint(getattr(plugin, 'FUNCTIONS', []))
        pinned = pinned_fingerprints()
        changed_fps = sorted(q for q, h in fps.items() if pinned.get(q) not in (None, h))
        scale = 1
        if tier == 'quick' and (changed_fps or not out.build_ok):
            scale = 5
        ctx = {'tier': tier, 'scale': scale, 'seed': seed, 'changed': changed_fps,
               'build_failures': out.build_failures, 'tables_changed': tables_changed}

        # 4. cases: corpus first, then generated
        if replay is not None:
            with open(replay) as f:
                rp = json.load(f)
            cases = [rp['case']] if 'case' in rp and rp['case'] is not None else []
            cases += rp.get('cases', [])
        else:
            cases = []
            corpus = os.path.join(VERIF, 'corpus', pid + '.jsonl')
            if os.path.exists(corpus):
                with open(corpus) as f:
                    for line in f:
                        line = line.strip()
                        if line:
                            cases.append(json.loads(line))
            cases += list(plugin.cases(rng, ctx))

        # 5. correspondence: model answers in one batch, implementation in process
        reqs = []
        idx = []
        for i, c in enumerate(cases):
            r = plugin.request(c)
            if r is not None:
                idx.append(i)
                reqs.append(r)
        answers = driver.query(reqs) if reqs else []
        model_ans = {i: a for i, a in zip(idx, answers)}

        for i, c in enumerate(cases):
            out.evaluations += 1
            kind = c.get('kind', '?')
            out.kinds[kind] = out.kinds.get(kind, 0) + 1
            try:
                impl = plugin.impl(c)
            except Exception as e:  # the harness's own fault, not a verdict
                raise RuntimeError('impl runner crashed on %r: %s' % (c, traceback.format_exc()))
            if i in model_ans and impl is not None:
                if not plugin.agree(c, impl, model_ans[i]):
                    out.disagreements.append((c, impl, model_ans[i]))
            msg = plugin.oracle(c, impl)
            if msg:
                out.oracle_failures.append((c, msg))
            if plugin.nontrivial(c, impl):
                out.nontrivial.add(json.dumps(c, sort_keys=True))
            # a case that stands for a whole chunk of a sweep says how many inputs it covered:
            # plugin.weight(case, impl) -> None | (evaluations, distinct non-trivial, model comparisons)
            w = plugin.weight(c, impl) if hasattr(plugin, 'weight') else None
            if w:
                out.evaluations += w[0] - 1
                out.bulk_nontrivial += w[1]
                out.bulk_model += w[2]
            if len(out.samples) < 8 and (i % max(1, len(cases) // 8) == 0):
                out.samples.append({'case': c, 'impl': impl if impl is None else str(impl)[:200],
                                    'model': model_ans.get(i)})

        # 5b. when a proof obligation or the correspondence broke, look harder for a
        #     failing input on the real code (the plugin's search family)
        if (not out.build_ok or out.disagreements) and not out.oracle_failures and replay is None \
                and hasattr(plugin, 'search'):
            for c in plugin.search(rng, ctx, [d[0] for d in out.disagreements]):
                out.evaluations += 1
                impl = plugin.impl(c)
                msg = plugin.oracle(c, impl)
                if msg:
                    out.oracle_failures.append((c, msg))
                    break
        # 5c. disagreements without an oracle failure: does the answer belong to the INPUT or to the HISTORY of this process?
        #     The same case is evaluated in a fresh interpreter; if implementation and model agree there, state left behind
        #     by earlier evaluations of this run changed the answer - a concrete failing history (the shortest prefix of the
        #     run that still changes it is searched for with a few more fresh interpreters)
        if out.disagreements and not out.oracle_failures and replay is None and getattr(plugin, 'FRESH_REPLAY', True):
            try:
                found = fresh_process_probe(plugin.ID, cases, model_ans, out.disagreements)
            except Exception as e:
                out.notes.append('fresh-process probe failed: %r' % (e,))
                found = None
            if found is not None:
                c, history, msg = found
                out.history_failure = {'case': c, 'history': history, 'oracle': msg}
    finally:
        driver.close()

    # 6. decision
    new_failures = []
    for c, msg in out.oracle_failures:
        k = known_match(pid, c, known)
        if k is not None:
            line = 'KNOWN-FINDING: property=%s %s' % (pid, k.get('what', json.dumps(c)))
            if line not in out.known_lines:
                out.known_lines.append(line)
        else:
            new_failures.append((c, msg))
    # listed findings are replayed on the implementation on every run
    if replay is None:
        for k in known.get('findings', []):
            if k.get('property') != pid:
                continue
            line = 'KNOWN-FINDING: property=%s %s' % (pid, k.get('what', ''))
            if line in out.known_lines:
                continue
            try:
                impl = plugin.impl(k['case'])
                msg = plugin.oracle(k['case'], impl)
            except Exception as e:
                msg = 'replay crashed: %r' % e
            if msg:
                out.known_lines.append(line)
            else:
                out.notes.append('stale known finding (no longer fails): %s' % k.get('id'))

    violation = None
    hf = getattr(out, 'history_failure', None)
    if not new_failures and hf is not None:
        violation = {'property': pid, 'kind': 'failing-input', 'case': hf['case'], 'cases': hf['history'] + [hf['case']],
                     'oracle': hf['oracle'], 'seed': seed, 'tier': tier, 'build_failures': out.build_failures,
                     'disagreements': [{'case': d[0], 'impl': str(d[1])[:300], 'model': d[2][:300]} for d in out.disagreements[:5]]}
    elif new_failures:
        # the failure reported is one that fails ALONE in a fresh interpreter, so that its replay reproduces it; a failure that
        # needs what the process evaluated before it is reported together with that history
        history = None
        if replay is None and getattr(plugin, 'FRESH_REPLAY', True):
            try:
                j, history = standalone_failure(pid, cases, new_failures)
                if j:
                    new_failures.insert(0, new_failures.pop(j))
            except Exception as e:
                out.notes.append('standalone probe of the oracle failures failed: %r' % (e,))
        if hasattr(plugin, 'shrink') and not history:
            try:
                new_failures[0] = plugin.shrink(new_failures[0][0], new_failures[0][1])
            except Exception:
                pass
        c, msg = new_failures[0]
        if history:
            msg += ' [this input fails after the %d earlier case(s) of the run listed under "cases"; alone in a fresh process it does not]' % len(history)
        violation = {'property': pid, 'kind': 'failing-input', 'case': c, 'oracle': msg,
                     'cases': (history[-5000:] + [c]) if history else [],
                     'more': [{'case': cc, 'oracle': mm} for cc, mm in new_failures[1:6]],
                     'build_failures': out.build_failures,
                     'disagreements': [{'case': d[0], 'impl': str(d[1])[:300], 'model': d[2][:300]} for d in out.disagreements[:5]]}
    elif not out.build_ok or not out.audit_ok or out.disagreements:
        what = []
        if not out.build_ok:
            what.append('proof obligations no longer check: ' + ', '.join(
                sorted(set('%s (%s:%d)' % (b['declaration'], b['file'], b['line']) for b in out.build_failures))))
        if not out.audit_ok:
            what.append('audit: ' + '; '.join(out.audit_notes)[:500])
        if out.disagreements:
            what.append('correspondence %s no longer holds: %d disagreement(s) between model and implementation' % (
                pid, len(out.disagreements)))
        violation = {'property': pid, 'kind': 'no-failing-input-found', 'broken': what,
                     'case': out.disagreements[0][0] if out.disagreements else None,
                     'build_failures': out.build_failures, 'audit': out.audit_notes,
                     'disagreements': [{'case': d[0], 'impl': str(d[1])[:300], 'model': d[2][:300]} for d in out.disagreements[:10]]}

    wall = time.time() - t0
    discharged = len([n for n in out.theorems if n in out.axioms and set(out.axioms[n]) <= ALLOWED_AXIOMS]) if out.build_ok else 0
    axiom_set = sorted(set(a for v in out.axioms.values() for a in v))
    evidence = {
        'property_id': pid, 'tier': tier, 'seed': seed, 'level': 'proof',
        'coverage': {
            'obligations': max(1, len(out.theorems)),
            'discharged': discharged,
            'checker_cmd': 'cd lean && lake build %s  (Lean 4.33.0 kernel; then `#print axioms` on each theorem%s)' % (
                ' '.join(prop_mods), '; lake env leanchecker ' + ' '.join(prop_mods) if tier == 'thorough' else ''),
            'trusted_base': ['Lean 4.33.0 kernel', 'axioms used: ' + (', '.join(axiom_set) or 'none'),
                             'harness/extract.py (tables regenerated from /repo)',
                             'correspondence check (harness/check.py + lean/Driver.lean)'] + list(getattr(plugin, 'TRUSTED', [])),
            'theorems': out.theorems,
            'axioms_per_theorem': out.axioms,
            'evaluations': out.evaluations,
            'distinct_nontrivial': len(out.nontrivial) + out.bulk_nontrivial,
            'rule': getattr(plugin, 'RULE', ''),
            'samples': out.samples or [{'note': 'no cases'}],
            'case_kinds': out.kinds,
            'traces_validated_against_impl': len(model_ans) + out.bulk_model,
            'disagreements_checked': len(out.disagreements),
            'oracle_failures': len(out.oracle_failures),
            'fingerprints_changed': changed_fps,
            'tables_changed_this_run': bool(tables_changed),
            'known_findings_replayed': len(out.known_lines),
            'build_ok': out.build_ok, 'audit_ok': out.audit_ok,
            'exhaustive': bool(getattr(plugin, 'EXHAUSTIVE', {}).get(tier, False)),
            'notes': out.notes,
        },
        'assumptions': list(getattr(plugin, 'ASSUMPTIONS', [])),
        'wall_s': round(wall, 2),
        'violations': 1 if violation else 0,
    }
    if tier == 'thorough' and replay is None:
        evidence['coverage']['leanchecker'] = leanchecker
    return violation, evidence, out


def main(plugin_loader, argv=None):
    import argparse
    ap = argparse.ArgumentParser()
    ap.add_argument('prop')
    ap.add_argument('--tier', default=os.environ.get('VERIF_TIER', 'quick'), choices=['quick', 'thorough'])
    ap.add_argument('--replay', default=None)
    ap.add_argument('--seed', type=int, default=None)
    args = ap.parse_args(argv)
    seed = args.seed if args.seed is not None else int(os.environ.get('VERIF_SEED', '0') or 0)
    pid = args.prop.upper()
    try:
        plugin = plugin_loader(pid)
        violation, evidence, out = run_check(plugin, args.tier, seed, args.replay)
    except subprocess.TimeoutExpired as e:
        print('HARNESS-TIMEOUT: %s' % e)
        return 2
    except Exception:
        traceback.print_exc()
        print('HARNESS-ERROR (no verdict)')
        return 2
    if args.replay is None:
        os.makedirs(EVIDENCE, exist_ok=True)
        with open(os.path.join(EVIDENCE, pid + '.json'), 'w') as f:
            json.dump(evidence, f, indent=1, sort_keys=True, default=str)
    for line in out.known_lines:
        print(line)
    cov = evidence['coverage']
    print('%s tier=%s seed=%d: theorems %d/%d checked, axioms {%s}; %d cases (%d distinct non-trivial), '
          '%d model/impl comparisons, %d disagreements, %d oracle failures; %.1fs' % (
              pid, args.tier, seed, cov['discharged'], cov['obligations'],
              ', '.join(sorted(set(a for v in out.axioms.values() for a in v))),
              cov['evaluations'], cov['distinct_nontrivial'], cov['traces_validated_against_impl'],
              cov['disagreements_checked'], cov['oracle_failures'], evidence['wall_s']))
    if violation:
        os.makedirs(REPLAYS, exist_ok=True)
        path = os.path.join(REPLAYS, '%s-%s-%d.json' % (pid, args.tier, seed))
        if args.replay is not None:
            path = os.path.join(REPLAYS, '%s-replayed.json' % pid)
        with open(path, 'w') as f:
            json.dump(violation, f, indent=1, sort_keys=True, default=str)
        tail = ' no-failing-input-found' if violation['kind'] == 'no-failing-input-found' else ''
        if violation['kind'] == 'failing-input':
            print('failing input: %s -> %s' % (json.dumps(violation['case'])[:400], violation['oracle'][:400]))
        else:
            print('broken: ' + ' | '.join(violation['broken'])[:800])
        print('VIOLATION property=%s replay=%s%s' % (pid, path, tail))
        return 1
    return 0
