# -*- coding: utf-8 -*-
"""fresh.py <Cxx>: evaluates, in THIS fresh interpreter, a list of cases of a plugin in order and reports for the last one
whether implementation and model agree.  stdin: JSON {"cases": [...], "model": "<model answer of the last case>"}.
stdout: one JSON line {"agree": bool, "impl": "<str(impl)[:400]>"}.  Used by common.run_check to tell a disagreement that
belongs to the input from one that belongs to the history of the process (state left behind by earlier evaluations)."""
import json
import sys


def main():
    from . import check
    pid = sys.argv[1].upper()
    plugin = check.loader(pid)
    job = json.loads(sys.stdin.read())
    impl = None
    for c in job['cases']:
        impl = plugin.impl(c)
    ok = bool(plugin.agree(job['cases'][-1], impl, job['model']))
    sys.stdout.write('\nFRESH-RESULT ' + json.dumps({'agree': ok, 'impl': str(impl)[:400]}) + '\n')


if __name__ == '__main__':
    main()
