# -*- coding: utf-8 -*-
"""fresh.py <Cxx>: evaluates, in THIS fresh interpreter, a list of cases of a plugin in order and reports for the last one
whether implementation and model agree.  stdin: JSON {"cases": [...], "model": "<model answer of the last case>" | null, "oracle": bool}.
stdout: one JSON line {"agree": bool, "impl": "<str(impl)[:400]>", "oracle": <oracle message of the last case> | null}.  Used by common.run_check to tell a disagreement that
belongs to the input from one that belongs to the history of the process (state left behind by earlier evaluations)."""
import json
import sys


def main():
    from . import check
    pid = sys.argv[1].upper()
    plugin = check.loader(pid)
    job = json.loads(sys.stdin.read())
    impl = None
    for c in job['cases']:
        impl = plugin.impl(c)
    last = job['cases'][-1]
    ok = bool(plugin.agree(last, impl, job['model'])) if job.get('model') is not None else True
    msg = None
    if job.get('oracle'):
        # the plugin's oracle on the last case (the statement evaluated on the implementation only)
        msg = plugin.oracle(last, impl)
    sys.stdout.write('\nFRESH-RESULT ' + json.dumps({'agree': ok, 'impl': str(impl)[:400], 'oracle': msg}) + '\n')


if __name__ == '__main__':
    main()
