# -*- coding: utf-8 -*-
"""utils.REGEX_CRITERIA and utils.OPERATOR_DICT as Lean constants (pinned by HotXL.Props.C11)"""
import operator

NAME = 'Criteria'


def tables():
    from harness.extract import lean_str, lean_list
    from hotxlfp.formulas import utils
    names = {operator.add: 'add', operator.sub: 'sub', operator.mul: 'mul', operator.truediv: 'truediv', operator.gt: 'gt',
             operator.lt: 'lt', operator.ne: 'ne', operator.eq: 'eq', operator.ge: 'ge', operator.le: 'le'}
    rows = ['(%s, %s)' % (lean_str(k), lean_str(names.get(v, getattr(v, '__name__', 'unknown'))))
            for k, v in sorted(utils.OPERATOR_DICT.items())]
    return ['def criteriaRegex : String := %s' % lean_str(utils.REGEX_CRITERIA.pattern),
            '/-- `re` flags of REGEX_CRITERIA (32 = re.UNICODE; 16 = DOTALL, 2 = IGNORECASE, 8 = MULTILINE would change the model) -/',
            'def criteriaRegexFlags : Nat := %d' % int(utils.REGEX_CRITERIA.flags),
            'def criteriaOperators : List (String × String) := %s' % lean_list(rows)]
