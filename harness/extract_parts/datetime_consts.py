# -*- coding: utf-8 -*-
"""
Constants of the date/time builtins (C14), read with `ast` from the function sources of the
*current* /repo tree:  -> lean/HotXL/Generated/DateTime.lean

Per function: every integer literal in source order, every comparison operator in source order,
and every string literal in source order.  The model (HotXL/Model/Fn/DateTime.lean) reads its magic
numbers (the 1900 year offset of DATE, EDATE's 12-entry month-length list and its own leap rule, the
year limits, WEEKDAY's numbering constants, DATEDIF's borrow terms and unit names) from these lists,
so an edited literal or comparison in /repo changes the generated file and the `decide`d pin lemmas
of HotXL/Lemmas/DateTime.lean stop checking.
"""
import ast
import inspect
import textwrap

from harness.extract import lean_str, lean_int, lean_list

NAME = 'DateTime'

FUNCS = ['DATE', 'TIME', 'EDATE', 'WEEKDAY', 'DATEDIF', 'DAYS', 'TIMEVALUE']


def _tree(fn):
    fn = getattr(fn, '__wrapped__', fn)
    t = ast.parse(textwrap.dedent(inspect.getsource(fn)))
    for n in ast.walk(t):
        if isinstance(n, (ast.FunctionDef, ast.AsyncFunctionDef)):
            n.decorator_list = []          # `@dispatcher.register_for('NAME')` is covered by Generated.registry
    return t


def _ints(tree):
    """integer literals in source order; a literal under a unary minus is negative"""
    neg = set()
    for n in ast.walk(tree):
        if isinstance(n, ast.UnaryOp) and isinstance(n.op, ast.USub) and isinstance(n.operand, ast.Constant):
            neg.add(id(n.operand))
    nodes = [n for n in ast.walk(tree) if isinstance(n, ast.Constant) and type(n.value) is int]
    nodes.sort(key=lambda n: (n.lineno, n.col_offset))
    return [-n.value if id(n) in neg else n.value for n in nodes]


def _strs(tree):
    nodes = [n for n in ast.walk(tree) if isinstance(n, ast.Constant) and isinstance(n.value, str)]
    nodes.sort(key=lambda n: (n.lineno, n.col_offset))
    return [n.value for n in nodes]


def _cmps(tree):
    """comparison / boolean / arithmetic operator class names in source order"""
    res = []
    for n in ast.walk(tree):
        if isinstance(n, ast.Compare):
            res.append((n.lineno, n.col_offset, '/'.join(type(o).__name__ for o in n.ops)))
    return [v for _, _, v in sorted(res)]


def _binops(tree):
    res = []
    for n in ast.walk(tree):
        if isinstance(n, ast.BinOp):
            res.append((n.lineno, n.col_offset, type(n.op).__name__))
        elif isinstance(n, ast.AugAssign):
            res.append((n.lineno, n.col_offset, 'Aug' + type(n.op).__name__))
        elif isinstance(n, ast.BoolOp):
            res.append((n.lineno, n.col_offset, type(n.op).__name__))
        elif isinstance(n, ast.UnaryOp):
            res.append((n.lineno, n.col_offset, type(n.op).__name__))
    return [v for _, _, v in sorted(res)]


def tables():
    from hotxlfp.formulas import dateandtime
    lines = []
    for name in FUNCS:
        fn = getattr(dateandtime, name, None)
        low = name.lower()
        if fn is None:
            ints, strs, cmps, ops = [], [], [], []
        else:
            t = _tree(fn)
            ints, strs, cmps, ops = _ints(t), _strs(t), _cmps(t), _binops(t)
        lines.append('def %sInts : List Int := %s' % (low, lean_list([lean_int(x) for x in ints])))
        lines.append('def %sStrs : List String := %s' % (low, lean_list([lean_str(x) for x in strs])))
        lines.append('def %sCompares : List String := %s' % (low, lean_list([lean_str(x) for x in cmps])))
        lines.append('def %sOps : List String := %s' % (low, lean_list([lean_str(x) for x in ops])))
    return lines
