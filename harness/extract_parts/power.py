# -*- coding: utf-8 -*-
"""
Constants of the integer-overflow guards of POWER (mathtrig.py) and PV (financial.py), read with
`ast` from the function sources of the *current* /repo tree:  -> lean/HotXL/Generated/Power.lean

`abs(number) > 1 and power > 0 and (abs(number).bit_length() - 1) * power >= 1024`: every integer
literal of the two functions in source order (`intsPower`, `intsPv`) and the named guard constants
the model (`HotXL/Model/Fn/Math.lean: intPowGuard`, `Model/Fn/Fin.lean`) is written with.  A changed
guard changes the generated file and `source_constants_power` of Props/C16.lean stops checking.
"""
from harness.extract_parts.round import _tree, _ints, _int_list, _named

NAME = 'Power'


def tables():
    from hotxlfp.formulas import mathtrig, financial
    lines = []
    xs = _ints(_tree(mathtrig.POWER))
    lines.append(_int_list('intsPower', xs))
    # abs(number) > MINABS and power > MINPOW and (abs(number).bit_length() - LESS) * power >= BITS
    _named(lines, xs, ['powerGuardMinAbs', 'powerGuardMinPow', 'powerGuardLess', 'powerGuardBits'])
    xs = _ints(_tree(financial.PV))
    lines.append(_int_list('intsPv', xs))
    # future = 0; type = 0; rate == 0; growth = ONE + rate; abs(growth) > MINABS and periods > MINPOW and
    # (abs(growth).bit_length() - LESS) * periods >= BITS; (1 - R); (1 + rate * type)
    _named(lines, xs, [None, None, None, 'pvGrowthOne', 'pvGuardMinAbs', 'pvGuardMinPow', 'pvGuardLess', 'pvGuardBits',
                       None, None])
    return lines
