# -*- coding: utf-8 -*-
"""
Constants of the rounding / radix / roman-numeral builtins (C17), read with `ast` from the
function sources of the *current* /repo tree:  -> lean/HotXL/Generated/Round.lean

Every integer literal is reported in source order per function, so a changed guard
(e.g. `base > 36` -> `base > 35`, the 40-bit limits, the 171 / 301 range ends of FACT / FACTDOUBLE, the 1074 / 1024
place guards of ROUND*) changes the generated file and the
`decide`d pin lemmas of HotXL/Lemmas/Round.lean stop checking.
"""
import ast
import inspect
import textwrap

from harness.extract import lean_str, lean_int, lean_list

NAME = 'Round'


def _tree(fn):
    fn = getattr(fn, '__wrapped__', fn)
    return ast.parse(textwrap.dedent(inspect.getsource(fn)))


def _ints(tree):
    """integer literals in source order; a literal under a unary minus is negative"""
    out = []
    neg = set()
    for n in ast.walk(tree):
        if isinstance(n, ast.UnaryOp) and isinstance(n.op, ast.USub) and isinstance(n.operand, ast.Constant):
            neg.add(id(n.operand))
    nodes = [n for n in ast.walk(tree) if isinstance(n, ast.Constant) and type(n.value) is int]
    nodes.sort(key=lambda n: (n.lineno, n.col_offset))
    for n in nodes:
        out.append(-n.value if id(n) in neg else n.value)
    return out


def _strs(tree):
    nodes = [n for n in ast.walk(tree) if isinstance(n, ast.Constant) and isinstance(n.value, str)]
    nodes.sort(key=lambda n: (n.lineno, n.col_offset))
    return [n.value for n in nodes]


def _int_list(name, xs):
    return 'def %s : List Int := %s' % (name, lean_list([lean_int(x) for x in xs]))


def _named(lines, xs, names):
    """named constants = the literals by position in source order (`None` = unnamed); when the
    number of literals changed the names are still emitted (value 0 beyond the end), so the
    pin lemmas fail instead of the build"""
    for i, nm in enumerate(names):
        if nm is not None:
            lines.append('def %s : Int := %s' % (nm, lean_int(xs[i] if i < len(xs) and len(xs) == len(names) else 0)))


def tables():
    from hotxlfp.formulas import mathtrig, engineering
    lines = []
    # ---- engineering.py
    xs = _ints(_tree(engineering.HEX2DEC))
    lines.append(_int_list('hex2decInts', xs))
    # int(hex, 16); dec < 0 or dec >= LIMIT; dec - WRAP if dec >= HALF
    _named(lines, xs, ['hex2decBase', 'hex2decZero', 'hex2decLimit', 'hex2decWrap', 'hex2decHalf'])
    xs = _ints(_tree(engineering.DEC2HEX))
    lines.append(_int_list('dec2hexInts', xs))
    # places < 0; dec < LOW or dec >= HIGH; dec < 0; dec + WRAP; hex(dec)[2:]; result[-1]; result[:-1]
    _named(lines, xs, [None, 'dec2hexLow', 'dec2hexHigh', None, 'dec2hexWrap', None, None, None])
    lines.append('def dec2hexStrs : List String := %s' % lean_list([lean_str(s) for s in _strs(_tree(engineering.DEC2HEX))]))
    # ---- DECIMAL / BASE
    xs = _ints(_tree(mathtrig.DECIMAL))
    lines.append(_int_list('decimalInts', xs))
    _named(lines, xs, ['decimalWrap', 'decimalHalf'])
    bt = _tree(mathtrig.BASE)
    xs = _ints(bt)
    lines.append(_int_list('baseInts', xs))
    # places < 0; value < 0 or base < MIN or base > MAX; value == 0; digits[::-1]
    _named(lines, xs, [None, None, 'baseMin', 'baseMax', None, None])
    strs = _strs(bt)
    alphabet = max(strs, key=len) if strs else ''
    lines.append('def baseAlphabet : String := %s' % lean_str(alphabet))
    lines.append('def baseStrs : List String := %s' % lean_list([lean_str(s) for s in strs]))
    # ---- ROMAN: the guard literals and the numeral_map tuple
    rt = _tree(mathtrig.ROMAN)
    pairs = []
    pair_consts = set()
    for n in ast.walk(rt):
        if isinstance(n, ast.Assign) and any(isinstance(t, ast.Name) and t.id == 'numeral_map' for t in n.targets) \
                and isinstance(n.value, ast.Tuple):
            for el in n.value.elts:
                a, b = el.elts
                pairs.append((a.value, b.value))
                pair_consts.add(id(a))
                pair_consts.add(id(b))
    guard = []
    nodes = [n for n in ast.walk(rt) if isinstance(n, ast.Constant) and type(n.value) is int and id(n) not in pair_consts]
    nodes.sort(key=lambda n: (n.lineno, n.col_offset))
    guard = [n.value for n in nodes]
    lines.append(_int_list('romanInts', guard))
    # form=0; form is True -> 0; form is False -> FALSEFORM; 0 < number < LIMIT; 0 <= form <= MAXFORM;
    # enumerate(.., 1); numerals(form + 1)
    _named(lines, guard, [None, 'romanTrueForm', 'romanFalseForm', None, 'romanLimit', None, 'romanMaxForm', None, None])
    lines.append('def romanNumeralMap : List (Nat × String) := %s' % lean_list(
        ['(%d, %s)' % (a, lean_str(b)) for a, b in pairs]))
    # ---- ARABIC: the two regular expressions and the token values
    at = _tree(mathtrig.ARABIC)
    amap = []
    for n in ast.walk(at):
        if isinstance(n, ast.Dict):
            for k, v in zip(n.keys, n.values):
                amap.append((k.value, v.value))
    astrs = [s for s in _strs(at) if s not in [k for k, _ in amap]]
    lines.append('def arabicStrs : List String := %s' % lean_list([lean_str(s) for s in astrs]))
    res = [s for s in astrs if s != 'ARABIC']
    lines.append('def arabicRegex : String := %s' % lean_str(res[0] if len(res) == 2 else ''))
    lines.append('def arabicTokenRegex : String := %s' % lean_str(res[1] if len(res) == 2 else ''))
    lines.append('def arabicNumeralMap : List (String × Nat) := %s' % lean_list(
        ['(%s, %d)' % (lean_str(k), v) for k, v in amap]))
    # ---- FACT / FACTDOUBLE / EVEN / ODD / MOD / QUOTIENT / CEILING / FLOOR / ROUND / ROUNDUP / ROUNDDOWN small literals
    for nm in ('ROUND', 'ROUNDUP', 'ROUNDDOWN', 'CEILING', 'FLOOR', 'QUOTIENT', 'MOD', 'ODD', 'EVEN', 'FACT', 'FACTDOUBLE', 'INT', 'SIGN'):
        lines.append(_int_list('ints' + nm.title(), _ints(_tree(getattr(mathtrig, nm)))))
    # ---- the range guards (the model uses the NAMED constants; `source_constants` of Props/C17.lean pins their values)
    # _place_beyond(number, digits): size = abs(number).bit_length() if int else FLOATSIZE; -digits > max(MINDIGITS, size)
    xs = _ints(_tree(mathtrig._place_beyond)) if hasattr(mathtrig, '_place_beyond') else []
    lines.append(_int_list('intsPlaceBeyond', xs))
    _named(lines, xs, ['placeFloatSize', 'placeMinDigits'])
    # ROUNDUP / ROUNDDOWN: sign = 1 if number > 0 else -1; digits > MAX -> number + 0; _place_beyond -> (#NUM! |) number * 0;
    # digits < 0; 10**-digits (twice); 10**digits (twice)
    _named(lines, _ints(_tree(mathtrig.ROUNDUP)),
           [None, None, None, 'roundupDigitsMax', None, None, None, None, None, None, None])
    _named(lines, _ints(_tree(mathtrig.ROUNDDOWN)),
           [None, None, None, 'rounddownDigitsMax', None, None, None, None, None, None, None])
    # FACT: number < 0 or number >= LIMIT;  FACTDOUBLE: number < 0 or number >= LIMIT; in (0, 1); return 1; range(n, 1, -2)
    _named(lines, _ints(_tree(mathtrig.FACT)), [None, 'factLimit'])
    _named(lines, _ints(_tree(mathtrig.FACTDOUBLE)), [None, 'factdoubleLimit', None, None, None, None, None])
    return lines
