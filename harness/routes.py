# -*- coding: utf-8 -*-
"""
The route layer shared by the value-level checks (added after the ninth round of seeded changes, DESIGN.md §1.7).

A property about a function family or an operator family says what a call or an operation evaluates to as a function of the VALUES
of its operands.  The same values can reach the code by many routes: bound to variables, written as literals, answered by the
host's cell or range listener, returned by a custom function, handed on by another builtin, produced by a nested evaluation on
the same parser; the call can be written with each of the three separators, with white space and line breaks between the tokens,
inside redundant parentheses, on a parser constructed with debug=True, for the second time on the same parser.  Eight and nine
rounds of seeded changes showed that a route exercised by ONE property's check protects that check only.  This module therefore
generates, for EVERY value-level check, the product (sampled) of
    call or operation of the family  x  argument values from typed pools  x  one route per argument  x  layout  x  parser
and judges each such case twice:
  * oracle (real code only): the record of the routed formula equals the record of the same call with every operand bound to a
    variable, written with commas on one line, on a parser without debug - type for type, value for value (floats bit for bit), error
    code for error code.  A family property fixes the value as a function of the operand values, so two routes that differ cannot
    both be the defined value; WHICH of the two is wrong is decided by the plugin's own value oracle, which judges the variable route.
  * correspondence: the Lean evaluator model (`eval <formula> <env>`, the host's cells, ranges and functions in the environment)
    is asked for the record of the ROUTED formula and compared with the implementation's record of it.
`wrap(plugin)` adds the case kind `route` to a plugin without touching its own cases or its random stream (the route cases
are drawn from a stream of their own and appended after the plugin's).
"""
import contextlib
import datetime
import io
import math
import random
import re

from . import common, fx
from .common import enc_str

# ----------------------------------------------------------------------------- JSON-safe values

ERRS = ['#ERROR!', '#DIV/0!', '#NAME?', '#N/A', '#NULL!', '#NUM!', '#REF!', '#VALUE!', '#GETTING_DATA']


def _error():
    common.load_repo()
    from hotxlfp.formulas import error
    return error


def dt(y, m, d, hh=0, mm=0, ss=0):
    return {'dt': [y, m, d, hh, mm, ss]}


def err(code):
    return {'err': code}


def dec(v):
    """JSON-safe -> Python value handed to the library"""
    if isinstance(v, dict):
        if 'dt' in v:
            return datetime.datetime(*v['dt'])
        if 'err' in v:
            return _error().from_message(v['err'])
        raise ValueError(v)
    if isinstance(v, list):
        return [dec(x) for x in v]
    return v


def is_list(v):
    return isinstance(v, list)


def is_err(v):
    return isinstance(v, dict) and 'err' in v


def is_dt(v):
    return isinstance(v, dict) and 'dt' in v


# ----------------------------------------------------------------------------- literals

_DEC = re.compile(r'^[0-9]+\.[0-9]+$')


def lit_scalar(v):
    """text of a literal that evaluates to exactly v, or None"""
    if isinstance(v, bool):
        return 'TRUE' if v else 'FALSE'
    if isinstance(v, int):
        return str(v) if v >= 0 else '-' + str(-v)
    if isinstance(v, float):
        if math.isnan(v) or math.isinf(v):
            return None
        a = repr(abs(v))
        if not _DEC.match(a) or float(a) != abs(v):
            return None
        return ('-' if math.copysign(1.0, v) < 0 else '') + a
    if isinstance(v, str):
        if '\\' in v:
            return None
        if '"' not in v:
            return '"' + v + '"'
        if "'" not in v:
            return "'" + v + "'"
        return None
    return None


def lit(v, asep=','):
    s = lit_scalar(v)
    if s is not None:
        return s
    if is_list(v) and v:
        if all(not is_list(x) for x in v):
            parts = ['' if x is None else lit_scalar(x) for x in v]
            # one omitted element (a blank) is an empty slot; a one-slot or all-blank literal is not spelled
            if all(p is not None for p in parts) and parts.count('') <= 1 and (len(v) >= 2 or parts.count('') == 0):
                return '{' + asep.join(parts) + '}'
            return None
        if len(v) == 2 and all(is_list(r) and len(r) >= 2 and all(not is_list(x) for x in r) for r in v):
            rows = [[lit_scalar(x) for x in r] for r in v]
            if all(p is not None for r in rows for p in r):
                return '{' + ';'.join(','.join(r) for r in rows) + '}'
    return None


# ----------------------------------------------------------------------------- pools (JSON-safe)

E_NA, E_DIV, E_VAL, E_NUM, E_REF = err('#N/A'), err('#DIV/0!'), err('#VALUE!'), err('#NUM!'), err('#REF!')
BIG = 2 ** 53 + 1

POOL = {
    # core numbers, then the neighbours a host hands over where a number is expected
    'n': [0, 1, -1, 2, 3, 7, 10, -4, 0.5, -2.5, 1.25, 2.625, 1234.5625, -0.75, 100, 3.0, 0.0, 0.0009765625, 15, -15.5, 2.5, 1e15, 12345],
    'n_': [True, False, None, '3', '2.5', '', 'abc', E_NA, E_DIV, dt(2020, 2, 29), -0.0, ' 4 '],
    'k': [-2, -1, 0, 1, 2, 3, 5],
    'k_': [1.5, True, '1', None, -0.5, 2.0, E_NUM, 'x'],
    's': [1, 2, 0.5, 0.125, 5, 3, 10, 0.25],
    's_': [-1, 0, -0.5, True, None, '2', E_VAL],
    'z': [1, 2, 3, -2, 0.5, 7, -0.25, 10],
    'z_': [0, 0.0, True, False, None, '2', 'a', E_DIV],
    'j': [0, 1, 2, 5, 10, 12, 20, 170, 255, 1000],
    'j_': [3.7, -1, True, None, '5', 171, E_NUM, 0.5],
    'r': [1, 4, 9, 14, 40, 90, 400, 499, 999, 1994, 1999, 2024, 3999],
    'r_': [0, 4000, -1, 3.5, '12', True, None, E_VAL],
    'f': [0, 1, 2, 3, 4],
    'f_': [True, False, 5, -1, None, '1'],
    'R': ['X', 'MCMXCIX', 'iv', 'XLII', 'MMXXIV', 'CDXLIV', 'IIII', 'IC'],
    'R_': ['', '-X', 'ABC', ' X ', 5, None, True, E_NA],
    'B': [2, 8, 10, 16, 36, 3],
    'B_': [1, 37, 2.5, '16', True, None, E_NUM],
    'p': [1, 4, 8, 10],
    'p_': [0, -1, 2.5, '4', True, None],
    'H': ['FF', 'ff', '1A', '0', '7FFFFFFFFF', 'FFFFFFFFFF', '12', 'ABC', '10'],
    'H_': [10, 255, 'ZZ', '', None, True, 1.5, E_REF, '-1', '8000000000'],
    't': ['', 'a', 'abc', 'Hello World', 'hello world', ' two  spaces ', 'ÄÖü', '12', 'a,b', 'x"y', "it's",
          'tab\there', 'line\nbreak', 'ABC', 'a;b', 'one two three', 'aaa', 'Mixed CASE text', '0', '  ',
          # texts that ARE a separator or spell an error code: a value, not syntax
          ',', ';', '#N/A', '#DIV/0!', '#', '{1,2}', '0042', '1.50'],
    't_': [5, 2.5, True, False, None, E_NA, 0, -1, dt(2020, 2, 29), 1e15],
    'u': [0, 1, 2, 3, 5, 10],
    'u_': [1.9, True, False, '2', None, -1, E_VAL, 100, 2.0],
    'L': [True, False, 1, 0, 2, -1, 0.0, 0.5],
    'L_': ['TRUE', 'false', '', 'abc', None, E_NA, E_DIV, '1', dt(2020, 2, 29)],
    'e': [E_NA, E_DIV, E_VAL, E_NUM, E_REF, err('#NAME?'), err('#NULL!'), err('#ERROR!'), err('#GETTING_DATA')],
    'e_': [1, 'a', None, True, 0],
    'd': [1, 59, 60, 61, 367, 36526, 43831, 43890, 45000, 2958465, 45000.5, 43831.25, 44196.999988425923,
          '2020-02-29', '2021-12-31 23:59:59', '1999-01-01T12:00:00', dt(2020, 2, 29), dt(2000, 1, 1, 6, 30),
          dt(1900, 3, 1), dt(1999, 12, 31, 23, 59, 59), dt(2024, 2, 29, 12, 0, 0), dt(1900, 1, 1), dt(2021, 1, 31)],
    'd_': [True, None, '45000', -1, E_NA, 0, 0.5, 'abc', '', 2958466, False,
           # arrays of dates and of serials, one-element arrays
           [dt(2020, 2, 29), dt(2021, 1, 31)], [45000, 45001.5], [dt(2020, 2, 29)], [61], [3], [dt(2000, 1, 1, 6, 30), 43831, 43890.25]],
    'Y': [1900, 1999, 2000, 2020, 2024, 9999, 1901, 2100],
    'Y_': [0, 99, 1899, 10000, -1, 2020.9, '2020', True, None, E_NUM],
    'mo': [1, 2, 12, 6, 3, 11],
    'mo_': [0, 13, -1, 25, -11, 1.5, '2', True, None, E_VAL],
    'D': [1, 28, 29, 30, 31, 15],
    'D_': [0, -1, 32, 366, 1.9, '1', True, None, E_NA],
    'hh': [0, 1, 12, 23, 6],
    'hh_': [24, 25, -1, 1.5, '3', True, None],
    'mi': [0, 1, 30, 59],
    'mi_': [60, 61, -1, 90, 0.5, '5', None],
    'U': ['Y', 'M', 'D', 'MD', 'YM', 'YD'],
    'U_': ['y', 'd', 'x', '', 1, None],
    'w': [1, 2, 3],
    'w_': [11, 17, 0, 4, True, None, '2', 1.5],
    'tt': ['12:00', '06:30:15', '23:59:59', '2020-02-29 18:00', '00:00', '1:05'],
    'tt_': ['abc', '', 0.5, 1, None, True, '25:00', dt(2020, 2, 29, 6, 0, 0)],
    'q': [0, 1, -1, 0.5, -0.5, 0.25, 0.99, -0.75],
    'q_': [2, -2, True, None, '0.5', 'a', E_NUM, 1.0000001],
    'P': [1, 2, 10, 0.5, 100, 2.718281828459045, 1e-3, 7, 1024, 1e10],
    'P_': [0, -1, True, None, '2', 'a', E_DIV, -0.0],
    'x': [0, 1, -1, 2, 0.5, -2.5, 3.141592653589793, 10, 100, -7, 0.125, 1.5707963267948966, 20, 1e-8],
    'x_': [True, False, None, '1', '', 'a', E_NA, 710, -710, 1e308, dt(2020, 1, 1)],
    'rate': [0.05, 0.1, 0.01, 0.5, 1, 0.075],
    'rate_': [0, -0.5, -1, True, None, '0.1', E_DIV, 36],
    'ix': [1, 2, 1, 2, 3, 0],
    'ix_': [4, True, None, '1', 1.9, -1, E_VAL],
    'mt': [0, 1, -1],
    'mt_': [True, False, None, 2, '0', 0.0],
    'c': ['>1', '<=2', '=3', '<>0', '>=2.5', '<-1', 'a*', '?', '*b*', 'abc', 2, 0, '2', 'a', True, '>a', '<>abc', '=', '<>'],
    'c_': [None, '', 1.5, E_NA, '>', '*', '>=', '2.0', ' 2'],
    'g': [',', '', '-', ', ', 'ab'],
    'g_': [None, 1, True, E_NA],
}

_NUMLISTS = [[1, 2, 3], [5], [2, 2, 3, 7, -1], [0.5, 1.5, 2.5, 10], [[1, 2], [3, 4]], [[1, 2, 3], [4, 5, 6]], [4, 1, 3, 2, 2],
             [10, -10], [0, 0, 1], [1.5, 2, 2, 8], [3, 1, 4, 1, 5, 9, 2, 6], [[7, 8], [9, 10]], [0], [-1, -2, -3], [2, 4, 4, 4, 5, 5, 7, 9]]
_MIXLISTS = [['a', 1, 2], [True, 2], [1, None, 3], [1, E_NA], ['a', 'b', 'c'], ['a', 'ab', 'abc', 'b'], [1, '2', 3.0], [[1, 'a'], [None, 4]],
             ['x', 'y', 'x'], [0, False, ''], [1, E_DIV, 2], ['1', '2'], [None], [dt(2020, 2, 29), 5], ['apple', 'banana', 'cherry'],
             [True, False, True], [[1], [2]], [[1, 2]], [2.0, 2, '2'], [1, [2, 3]], [],
             [['a', 'b'], ['c', 'd', 'e']], [[1, 2, 3], [4, 5]], [['Nord', 'Sued'], ['Ost', 'West', 'Mitte']]]
_SORTED = [[1, 2, 3], [1, 3, 5, 7], [10, 20, 30], ['a', 'b', 'c'], [1.5, 2.5, 3.5], [0, 0, 1], [5], [1, 2, 2, 3], [False, True],
           ['apple', 'banana', 'cherry'], [-3, -1, 0, 4]]
_DESC = [[3, 2, 1], [30, 20, 10], ['c', 'b', 'a'], [5, 5, 1]]

POOL['T'] = [['a', 'b', 'c'], ['a', None, 'b'], 'x', None, 'y z', ['Nord', None, 'Sued'], [['a', 'b'], ['c', None]], '', ['', 'q']]
POOL['T_'] = _MIXLISTS + [1, 2.5, True]
POOL['N'] = _NUMLISTS
POOL['N_'] = _MIXLISTS + [1, 2.5, 'a', None, True, E_NA]
POOL['M'] = _MIXLISTS + _NUMLISTS
POOL['M_'] = [1, 'a', None, True, E_NA, 0]
POOL['S'] = _SORTED + _DESC + [[[1, 2], [3, 4]], [[1, 2, 3]], [[1], [2], [3]]]
POOL['S_'] = _MIXLISTS + [1, 'a', None]
_SLOTLISTS = [[1, 2, None], [None, 1, 2], [1, None, 2], ['a', 'b', None], [None, 7.5]]
DEC2 = [1.14, 2.28, 4.56, 0.99, 7.5, 19.99, 0.07, 3.3, 57.21, 0.1]
POOL['dec'] = DEC2
POOL['a'] = POOL['n'][:14] + POOL['t'][:10] + [True, False, None, E_NA, E_DIV, dt(2020, 2, 29), BIG, 0.0, '', ',', ';', '#N/A', '#REF!']
POOL['a_'] = _NUMLISTS[:3] + _MIXLISTS[:3] + [E_VAL, E_NUM, -0.0, '1', ' ']
POOL['E'] = POOL['e'] + POOL['e'] + [1, 0, 'a', None, True, 2.5, '', dt(2020, 2, 29)]
POOL['E_'] = [[1, E_NA], [E_DIV], [1, 2], 'x"y']
POOL['o'] = [0, 1, -1, 2, 3, 0.5, -2.5, 10, 7, 1.25, 100, '3', '2.5', 'abc', '', True, False, None, '1', 'a', BIG, 0.0, 1e15, 'B', 'b',
             2.5, 3.5, 1.5, 2.75]
POOL['o_'] = [E_NA, E_DIV, E_VAL, dt(2020, 2, 29), dt(2000, 1, 1, 6, 30), [1, 2, 3], [1], [[1, 2], [3, 4]], [1, 'a'], ' 4 ', -0.0,
              'TRUE', [E_NA, 1], [None, 2], 'ä', 'A', 45000.5, dt(1900, 3, 1)]


def draw(rng, kind, core=0.8):
    pool = POOL[kind]
    other = POOL.get(kind + '_')
    if other and rng.random() >= core:
        return rng.choice(other)
    return rng.choice(pool)


# ----------------------------------------------------------------------------- signatures of the families
# a signature is a list of argument kinds; 'k?' optional, 'k+' one to three of them, '(a b)+' a repeated group

_UNARY_X = ['SIN', 'COS', 'TAN', 'SINH', 'COSH', 'TANH', 'ASINH', 'ATAN', 'EXP', 'DEGREES', 'RADIANS', 'COT', 'ACOT']
_AGG = ['SUM', 'PRODUCT', 'AVERAGE', 'AVERAGEA', 'AVEDEV', 'MIN', 'MAX', 'MINA', 'MAXA', 'MEDIAN', 'MODE', 'MODE.SNGL', 'VAR', 'VAR.S',
        'VAR.P', 'VARP', 'VARA', 'STDEV', 'STDEV.S', 'STDEV.P', 'STDEVP', 'STDEVA', 'STDEVPA', 'HARMEAN', 'GEOMEAN', 'COUNT', 'COUNTA',
        'COUNTBLANK']

SIGS = {}
for _n in _UNARY_X:
    SIGS[_n] = ['x']
SIGS.update({
    'ACOS': ['q'], 'ASIN': ['q'], 'ATANH': ['q'], 'ACOSH': ['P'], 'ACOTH': ['z'], 'ATAN2': ['x', 'x'], 'LN': ['P'], 'LOG10': ['P'],
    'LOG': ['P', 'B?'], 'SQRT': ['P'], 'POWER': ['n', 'k'], 'PI': [], 'PV': ['rate', 'j', 'n', 'n?', 'f?'],
    # rounding / integer / radix
    'ROUND': ['n', 'k'], 'ROUNDUP': ['n', 'k'], 'ROUNDDOWN': ['n', 'k'], 'CEILING': ['n', 's?'], 'CEILING.MATH': ['n', 's?'],
    'CEILING.PRECISE': ['n', 's?'], 'FLOOR': ['n', 's?'], 'FLOOR.MATH': ['n', 's?'], 'FLOOR.PRECISE': ['n', 's?'], 'INT': ['n'],
    'EVEN': ['n'], 'ODD': ['n'], 'SIGN': ['n'], 'ABS': ['n'], 'QUOTIENT': ['n', 'z'], 'MOD': ['n', 'z'], 'FACT': ['j'],
    'FACTDOUBLE': ['j'], 'ROMAN': ['r', 'f?'], 'ARABIC': ['R'], 'BASE': ['j', 'B', 'p?'], 'DECIMAL': ['H', 'B'], 'HEX2DEC': ['H'],
    'DEC2HEX': ['j', 'p?'], 'DELTA': ['n', 'n'], 'ISEVEN': ['n'], 'ISODD': ['n'],
    # aggregates
    'SUMIF': ['M', 'c'], 'COUNTIF': ['M', 'c'], 'AVERAGEIF': ['M', 'c', 'N?'], 'SUMIFS': ['N', '(M c)+'], 'AVERAGEIFS': ['N', '(M c)+'],
    'MAXIFS': ['N', '(M c)+'], 'LARGE': ['N', 'u'], 'SLOPE': ['N', 'N'],
    # logic / information
    'AND': ['L+'], 'OR': ['L+'], 'XOR': ['L+'], 'NOT': ['L'], 'IF': ['L', 'a', 'a'], 'IFS': ['(L a)+'], 'SWITCH': ['a', '(a a)+', 'a?'],
    'TRUE': [], 'FALSE': [], 'NA': [], 'ISBLANK': ['a'], 'ISNUMBER': ['a'], 'ISTEXT': ['a'], 'ISNONTEXT': ['a'], 'ISLOGICAL': ['a'],
    'N': ['a'], 'T': ['a'], 'IFERROR': ['E', 'a'], 'IFNA': ['E', 'a'], 'ISERROR': ['E'], 'ISERR': ['E'], 'ISNA': ['E'],
    'ERROR.TYPE': ['E'],
    # dates
    'DATE': ['Y', 'mo', 'D'], 'TIME': ['hh', 'mi', 'mi'], 'YEAR': ['d'], 'MONTH': ['d'], 'DAY': ['d'], 'HOUR': ['d'], 'MINUTE': ['d'],
    'SECOND': ['d'], 'WEEKDAY': ['d', 'w?'], 'EDATE': ['d', 'mo'], 'DATEDIF': ['d', 'd', 'U'], 'DAYS': ['d', 'd'], 'DATEVALUE': ['d'],
    'TIMEVALUE': ['tt'],
    # text
    'CHAR': ['j'], 'CODE': ['t'], 'CLEAN': ['t'], 'CONCAT': ['t+'], 'CONCATENATE': ['t+'], 'LEFT': ['t', 'u?'], 'LEFTB': ['t', 'u?'],
    'RIGHT': ['t', 'u?'], 'RIGHTB': ['t', 'u?'], 'MID': ['t', 'u', 'u?'], 'MIDB': ['t', 'u', 'u?'], 'LEN': ['t'], 'LENB': ['t'],
    'LOWER': ['t'], 'UPPER': ['t'], 'PROPER': ['t'], 'TRIM': ['t'], 'SUBSTITUTE': ['t', 't', 't', 'u?'], 'TEXTJOIN': ['g', 'L', 'T+'],
    # lookup
    'CHOOSE': ['u', 'a+'], 'INDEX': ['S', 'ix?', 'ix?'], 'MATCH': ['a', 'S', 'mt?'],
    # engineering
    'COMPLEX': ['n', 'n'], 'IMREAL': ['t'], 'IMAGINARY': ['t'],
})
for _n in _AGG:
    SIGS[_n] = ['NN+']
POOL['NN'] = _NUMLISTS + POOL['n'][:12]
POOL['NN_'] = _MIXLISTS + [True, None, 'a', '3', E_NA, E_DIV]

# operations: template -> operand kinds
ARITH = {'{0}+{1}': ['o', 'o'], '{0}-{1}': ['o', 'o'], '{0}*{1}': ['o', 'o'], '{0}/{1}': ['o', 'o'], '{0}&{1}': ['o', 'o'],
         '-{0}': ['o'], '{0}+{1}*{2}': ['o', 'o', 'o'], '({0}-{1})/{2}': ['o', 'o', 'o'], '{0}&{1}&{2}': ['o', 'o', 'o']}
CMP = {'{0}' + op + '{1}': ['o', 'o'] for op in ['=', '<>', '<', '>', '<=', '>=']}
DATEOPS = {'{0}+{1}': ['d', 'n'], '{0}-{1}': ['d', 'd'], '{1}+{0}': ['d', 'n'], '{0}-{1}+0': ['d', 'n'], '{0}<{1}': ['d', 'd'], '{0}<={1}': ['d', 'd'],
           '{0}={1}': ['d', 'd'], '{0}>{1}': ['d', 'd'], '{0}*1': ['d'], '{0}<>{1}': ['d', 'd'], '{0}>={1}': ['d', 'd']}
ERROPS = {'{0}': ['E'], '{0}+{1}': ['E', 'o'], '{1}*{0}': ['E', 'o'], '{0}&{1}': ['E', 'o'], '{0}={1}': ['E', 'o'], '{1}<{0}': ['E', 'o'], '-{0}': ['E'],
          '{0}/{1}': ['o', 'z'], 'IFERROR({0}/{1},{2})': ['o', 'z', 'a'], 'ISERROR({0}+{1})': ['E', 'o'], 'IFNA({0}&{1},{2})': ['E', 'o', 'a'],
          '{0}+{1}+{2}': ['E', 'E', 'o'], 'IF(ISERROR({0}),{1},{0})': ['E', 'a']}

PREC = {'{0}+{1}*{2}': ['v', 'v', 'v'], '{0}*{1}+{2}': ['v', 'v', 'v'], '{0}-{1}-{2}': ['v', 'v', 'v'], '{0}/{1}/{2}': ['v', 'z', 'z'],
        '{0}-{1}+{2}': ['v', 'v', 'v'], '{0}*{1}/{2}': ['v', 'v', 'z'], '{0}/{1}*{2}': ['v', 'z', 'v'], '-{0}+{1}': ['v', 'v'],
        '-{0}*{1}': ['v', 'v'], '{0}+{1}<{2}': ['v', 'v', 'v'], '{0}={1}+{2}': ['v', 'v', 'v'], '({0}+{1})*{2}': ['v', 'v', 'v'],
        '{0}-({1}-{2})': ['v', 'v', 'v'], '{0}/({1}*{2})': ['v', 'z', 'z'],
        '{0}<{1}={2}': ['v', 'v', 'L'], '{0}*{1}-{2}/{3}': ['v', 'v', 'v', 'z'], '-({0}-{1})': ['v', 'v'], '{0}--{1}': ['v', 'v']}
POOL['v'] = [0, 1, -1, 2, 3, 7, 10, -4, 0.5, -2.5, 1.25, 100, 3.0, 0.1, 0.2, 0.3, 1e15, 12, 0.7, 6, 2.5, 3.5, 1.5, 2.75, -0.5]
POOL['v_'] = [True, None, '3', '2.5']
# an int and a float less than 1 apart (a comparison that converts one operand to the other's type shows here)
POOL['ci'] = [2, 3, -1, 0, 7]
POOL['cf'] = [2.5, 2.25, 3.5, -0.5, 0.25, 7.75, -1.5, 2.0, 6.5]
CLOSE = {}
for _op in ['<', '>', '=', '<>', '<=', '>=']:
    CLOSE['{0}' + _op + '{1}'] = ['ci', 'cf']
    CLOSE['{1}' + _op + '{0}'] = ['ci', 'cf']
PREC.update({'{0}+0' + _op + '{1}': ['ci', 'cf'] for _op in ['<', '>=', '=']})
PREC.update({k: v for k, v in CLOSE.items() if k.startswith('{0}')})
CMP.update(CLOSE)
# arrays of dates / serials against one-element arrays
POOL['DA'] = [[dt(2020, 2, 29), dt(2021, 1, 31)], [45000, 45001.5], [dt(2000, 1, 1, 6, 30), 43831, 43890.25], [61, 62, 63], [dt(1999, 12, 31, 23, 59, 59), dt(2024, 2, 29, 12, 0, 0)]]
POOL['D1'] = [[dt(2020, 2, 29)], [3], [61], [0.5], [dt(1999, 12, 31, 23, 59, 59)], 3, dt(2020, 1, 1)]
DATEOPS.update({'{0}-{1}': ['d', 'd'], '{0}-{1}+0': ['DA', 'D1'], '{0}+{1}+0': ['DA', 'D1'], '{1}+{0}-0': ['DA', 'D1'], '({0}-{1})': ['DA', 'D1']})
ARITH.update({'({0}-{1})': ['AA', 'A1'], '({0}/{1})': ['AA', 'A1'], '({1}-{0})': ['AA', 'A1']})
POOL['AA'] = [[1, 2, 3], [10, 20], [0.5, 1.5, 2.5, 10], [7, -1], ['3', 2], [True, 4]]
POOL['A1'] = [[2], [0.5], [-3], 2, ['4'], [1]]

FAMILY = {
    'C04': {'ops': PREC, 'fns': []},
    'C05': {'ops': {'{0}': ['a'], '({0})': ['a'], '{0}&{1}': ['t', 't'], '{0}+0': ['dec']}, 'fns': ['SUM', 'CONCATENATE', 'COUNTA', 'COUNTBLANK', 'CHOOSE', 'AND', 'MAX', 'TEXTJOIN', 'IF', 'LEFT', 'ROUND']},
    'C06': {'ops': ARITH, 'fns': []},
    'C07': {'ops': CMP, 'fns': []},
    'C08': {'ops': ERROPS, 'fns': ['IFERROR', 'IFNA', 'ISERROR', 'ISERR', 'ISNA', 'ERROR.TYPE', 'NA']},
    'C11': {'ops': {}, 'fns': _AGG + ['SUMIF', 'COUNTIF', 'AVERAGEIF', 'SUMIFS', 'AVERAGEIFS', 'MAXIFS', 'LARGE', 'SLOPE']},
    'C12': {'ops': {'{0}': ['E']}, 'fns': ['AND', 'OR', 'XOR', 'NOT', 'IF', 'IFS', 'SWITCH', 'TRUE', 'FALSE', 'ISBLANK', 'ISNUMBER', 'ISTEXT',
                               'ISNONTEXT', 'ISLOGICAL', 'ISEVEN', 'ISODD', 'N', 'T', 'ISERROR', 'ISERR', 'ISNA']},
    'C13': {'ops': DATEOPS, 'fns': ['DATEVALUE', 'N', 'DAYS']},
    'C14': {'ops': {}, 'fns': ['DATE', 'TIME', 'YEAR', 'MONTH', 'DAY', 'HOUR', 'MINUTE', 'SECOND', 'WEEKDAY', 'EDATE', 'DATEDIF', 'DAYS',
                               'DATEVALUE', 'TIMEVALUE']},
    'C15': {'ops': {'{0}&{1}': ['t', 't'], '{0}': ['t']},
            'fns': ['CHAR', 'CODE', 'CLEAN', 'CONCAT', 'CONCATENATE', 'LEFT', 'LEFTB', 'RIGHT', 'RIGHTB', 'MID', 'MIDB', 'LEN', 'LENB',
                    'LOWER', 'UPPER', 'PROPER', 'TRIM', 'SUBSTITUTE', 'TEXTJOIN', 'T']},
    'C16': {'ops': {}, 'fns': _UNARY_X + ['ACOS', 'ASIN', 'ATANH', 'ACOSH', 'ACOTH', 'ATAN2', 'LN', 'LOG10', 'LOG', 'SQRT', 'POWER', 'PI',
                                          'PV']},
    'C17': {'ops': {}, 'fns': ['ROUND', 'ROUNDUP', 'ROUNDDOWN', 'CEILING', 'CEILING.MATH', 'CEILING.PRECISE', 'FLOOR', 'FLOOR.MATH',
                               'FLOOR.PRECISE', 'INT', 'EVEN', 'ODD', 'SIGN', 'ABS', 'QUOTIENT', 'MOD', 'FACT', 'FACTDOUBLE', 'ROMAN',
                               'ARABIC', 'BASE', 'DECIMAL', 'HEX2DEC', 'DEC2HEX', 'DELTA']},
    'C18': {'ops': {'INDEX({1},MATCH({0},{1},0))': ['a', 'S'], '{0}': ['dec']}, 'fns': ['CHOOSE', 'INDEX', 'MATCH']},
}


def _flat(v):
    out = []
    for x in v:
        if is_list(x):
            out += _flat(x)
        else:
            out.append(x)
    return out


def draw_lookup(rng, sig):
    """MATCH-like signatures ['a', 'S', ...]: seven times in ten the value looked up is an element of the array"""
    args = draw_args(rng, sig)
    if len(args) >= 2 and is_list(args[1]) and rng.random() < 0.7:
        el = _flat(args[1])
        if el:
            args[0] = rng.choice(el)
    return args


FLOAT_FNS = set(FAMILY['C16']['fns'])


def draw_args(rng, sig):
    out = []
    for k in sig:
        if k.startswith('('):
            inner = k[1:k.index(')')].split()
            for _ in range(rng.choice([1, 1, 2, 3])):
                for kk in inner:
                    out.append(draw(rng, kk))
        elif k.endswith('+'):
            for _ in range(rng.choice([1, 2, 2, 3, 4])):
                out.append(draw(rng, k[:-1]))
        elif k.endswith('?'):
            if rng.random() < 0.6:
                out.append(draw(rng, k[:-1]))
            else:
                break
        else:
            out.append(draw(rng, k))
    return out


# ----------------------------------------------------------------------------- routes

VAR_NAMES = ['XA', 'XB', 'XC', 'XD', 'XE', 'XF', 'XG', 'XH']
CELLS = ['B2', 'C3', 'D4', 'E5', 'F6', 'G7', 'H8', 'J9']
RANGES = [('K1', 'M2'), ('N1', 'P2'), ('Q1', 'S2'), ('T1', 'V2'), ('W1', 'Y2'), ('AA1', 'AC2'), ('AD1', 'AF2'), ('AG1', 'AI2')]
HOSTFN = ['HFA', 'hfb', 'Hfc', 'HFD', 'hfe', 'Hff', 'HFG', 'hfh']       # a host registers names in any letter case
NESTFN = ['NSA', 'nsb', 'Nsc', 'NSD', 'nse', 'Nsf', 'NSG', 'nsh']
NESTCELL = ['NCA', 'ncb', 'Ncc', 'NCD', 'nce', 'Ncf', 'NCG', 'nch']      # a custom function that evaluates a CELL reference on the same parser
TWIN_NAMES = ['YA', 'YB', 'YC', 'YD', 'YE', 'YF', 'YG', 'YH']
ARG_ROUTES = ['var', 'lit', 'cell', 'cellabs', 'celllow', 'cellformula', 'range', 'rangerev', 'rangemix', 'hostfn', 'nested', 'nestedcell', 'if', 'choose',
              'paren', 'slot', 'varmix',
              'varlis', 'lisonly']
MIX_NAMES = ['wa', 'Wb', 'wC', 'Wd', 'we', 'Wf', 'wG', 'Wh']      # variables whose upper-cased twin is registered with another value
ALT_CELLS = ['BB2', 'CC3', 'DD4', 'EE5', 'FF6', 'GG7', 'HH8', 'JJ9']
LIS_NAMES = ['ZA', 'ZB', 'ZC', 'ZD', 'ZE', 'ZF', 'ZG', 'ZH']
# arrays handed over as tuples (a host that reads rows from a database cursor): only where the statement's functions flatten
# their arguments, i.e. where a tuple and a list are the same collection of items
TUPLE_ROUTES = ['rangetup', 'hosttup']
TUPLE_OK = set(_AGG) | {'CONCAT', 'CONCATENATE', 'TEXTJOIN'}
SEPS = [',', ';', '\\']
PADS = ['', ' ', '\n', '\t', '\r\n', '  ']


def arg_text(i, v, route):
    """text of operand i under `route`, or None when the route cannot carry the value"""
    if route == 'var':
        return VAR_NAMES[i]
    if route == 'varmix':
        return MIX_NAMES[i]
    if route == 'cellformula':
        return CELLS[i]
    if route == 'errlit':
        # an error code written in the formula RAISES that error: only where the whole formula then reports that code anyway
        return v['err'] if is_err(v) and re.match(r'^#[A-Z0-9/]+[!?]?$', v['err']) else None
    if route in ('varlis', 'lisonly'):
        # a name the host's callVariable listener answers: registered with a stale value (varlis) or not registered at all
        # (lisonly); a listener cannot hand over a blank (None means "no answer")
        return LIS_NAMES[i] if v is not None else None
    if isinstance(route, str) and route.startswith('same:'):
        return VAR_NAMES[int(route[5:])]
    if route == 'lit':
        return lit(v)
    if isinstance(route, str) and route.startswith('lit:'):
        # a flat array literal written with `;` or `\\` between its elements
        return lit(v, route[4:]) if is_list(v) and all(not is_list(x) for x in v) else None
    if route == 'slot':
        return '' if v is None else None
    if route in ('cell', 'cellabs', 'celllow'):
        # a cell listener answers one value; the library takes None as "no value" (blank), which is what None is
        c = CELLS[i]
        if route == 'cellabs':
            c = '$' + c[0] + '$' + c[1:]
        if route == 'celllow':
            c = c.lower()
        return c
    if route in ('range', 'rangetup', 'rangerev', 'rangemix'):
        if not is_list(v):
            return None
        a, b = RANGES[i]
        if route == 'rangerev':
            return '%s:%s' % (b, a)                       # bottom-right : top-left
        if route == 'rangemix':
            ca, ra = re.match(r'([A-Z]+)([0-9]+)', a).groups()
            cb, rb = re.match(r'([A-Z]+)([0-9]+)', b).groups()
            return '%s%s:%s%s' % (ca, rb, cb, ra)         # bottom-left : top-right - exactly one axis written backwards
        return '%s:%s' % (a, b)
    if route in ('hostfn', 'hosttup'):
        if route == 'hosttup' and not is_list(v):
            return None
        return HOSTFN[i] + '()'
    if route == 'nested':
        return NESTFN[i] + '()'
    if route == 'nestedcell':
        return NESTCELL[i] + '()'
    if route == 'if':
        return 'IF(TRUE,%s,0)' % VAR_NAMES[i]
    if route == 'choose':
        return 'CHOOSE(1,%s)' % VAR_NAMES[i]
    if route == 'paren':
        return '(%s)' % VAR_NAMES[i]
    raise ValueError(route)


def formula_of(c):
    """-> formula text, or None when a route cannot carry its value"""
    texts = []
    for i, (v, r) in enumerate(zip(c['args'], c['routes'])):
        t = arg_text(i, v, r)
        if t is None:
            return None
        texts.append(t)
    lay = c.get('lay', {})
    sep = lay.get('sep', ',')
    pad = lay.get('pad', '')
    if 'fn' in c:
        if sep != ',' and any(t.startswith('{') and ';' in t for t in texts):
            # a two-row array literal: keep the comma between the arguments
            sep = ','
        if texts.count('') and (len(texts) < 2 or texts.count('') > 1):
            return None
        body = c['fn'] + '(' + pad + (pad + sep + pad).join(texts) + pad + ')'
    else:
        if any(t == '' for t in texts):
            return None
        body = c['tpl'].format(*[pad + t + pad for t in texts])
    if lay.get('paren'):
        body = '(' + pad + body + pad + ')'
    if lay.get('twin') and 'fn' in c:
        # the same function once more in the same formula, on operands that are EQUAL to these in Python's eyes but of another
        # type (1 / TRUE / 1.0): each call has its own value
        if twin_args(c['args']) is None:
            return None
        body = 'CHOOSE(2,%s(%s),%s)' % (c['fn'], ','.join(TWIN_NAMES[:len(c['args'])]), body)
    return lay.get('lead', '') + body + lay.get('trail', '')


def _twin(v):
    if isinstance(v, bool):
        return int(v)
    if isinstance(v, int):
        if v in (0, 1):
            return bool(v)
        return float(v) if abs(v) < 2 ** 53 else v
    if isinstance(v, float):
        if v == int(v) and abs(v) < 2 ** 53 and not (v == 0 and math.copysign(1.0, v) < 0):
            return int(v)
        return v
    if is_list(v):
        return [_twin(x) for x in v]
    return v


def twin_args(args):
    t = [_twin(a) for a in args]
    return t if canon([dec(x) for x in t]) != canon([dec(x) for x in args]) else None


def _bind_base(p, c):
    """the reference evaluation: every operand its own object in its own variable"""
    for i, v in enumerate(c['args']):
        p.set_variable(VAR_NAMES[i], dec(v))


def base_formula(c):
    n = len(c['args'])
    if 'fn' in c:
        return c['fn'] + '(' + ','.join(VAR_NAMES[:n]) + ')'
    return c['tpl'].format(*VAR_NAMES[:n])


# ----------------------------------------------------------------------------- the real library

_parsers = {}
_cellval = {}
_rangeval = {}
_hostval = {}
_lisval = {}


def _strip(label):
    return label.replace('$', '').upper()


class _Formula(object):
    """the content of a formula cell: the host's listener answers it by evaluating `text` on the same parser"""
    def __init__(self, text):
        self.text = text


def _cell_answer(p, label):
    v = _cellval.get(label)
    if isinstance(v, _Formula):
        rec = p.parse(v.text)
        return _error().from_message(rec['error']) if rec['error'] is not None else rec['result']
    return v


def _nested(p, name):
    def f():
        rec = p.parse(name)
        if rec['error'] is not None:
            return _error().from_message(rec['error'])
        return rec['result']
    return f


def parser(debug=False):
    p = _parsers.get(debug)
    if p is None:
        common.load_repo()
        import hotxlfp
        p = hotxlfp.Parser(debug=True) if debug else hotxlfp.Parser()
        p.on('callCellValue', (lambda q: (lambda cell, setter: setter(_cell_answer(q, _strip(cell.label)))))(p))
        p.on('callRangeValue', lambda a, b, setter: setter(_rangeval.get((_strip(a.label), _strip(b.label)))))
        p.on('callVariable', lambda name, setter: setter(_lisval.get(name)))
        for i, name in enumerate(HOSTFN):
            p.set_function(name, (lambda k: (lambda: _hostval.get(k)))(i))
        for i, name in enumerate(NESTFN):
            p.set_function(name, _nested(p, VAR_NAMES[i]))
        for i, name in enumerate(NESTCELL):
            p.set_function(name, _nested(p, CELLS[i]))
        _parsers[debug] = p
    return p


def _tup(v):
    return tuple(_tup(x) for x in v) if isinstance(v, list) else v


def _decoy_value(v):
    return [99.5, 98] if is_list(v) else 99.5


def _bind(p, c, decoy=False):
    """fresh copies of the operand values on every route of the case (decoy: other values on the same routes)"""
    _cellval.clear()
    _rangeval.clear()
    _hostval.clear()
    _lisval.clear()
    for nm in LIS_NAMES:
        p.variables.pop(nm, None)
    tw = twin_args(c['args']) if c.get('lay', {}).get('twin') else None
    for i, (v, r) in enumerate(zip(c['args'], c['routes'])):
        if decoy:
            v = _decoy_value(v)
        if tw is not None:
            p.set_variable(TWIN_NAMES[i], dec(tw[i]))
        if isinstance(r, str) and r.startswith('same:'):
            # the very OBJECT of an earlier operand, named twice
            continue
        p.set_variable(VAR_NAMES[i], dec(v))
        if r == 'varlis':
            p.set_variable(LIS_NAMES[i], _decoy_value(c['args'][i]) if not decoy else dec(c['args'][i]))
            _lisval[LIS_NAMES[i]] = dec(v)
        elif r == 'lisonly':
            _lisval[LIS_NAMES[i]] = dec(v)
        if r == 'nestedcell':
            _cellval[CELLS[i]] = dec(v)
        if r == 'cellformula':
            _cellval[CELLS[i]] = _Formula(ALT_CELLS[i])
            _cellval[ALT_CELLS[i]] = dec(v)
        if r == 'varmix':
            p.set_variable(MIX_NAMES[i], dec(v))
            p.set_variable(MIX_NAMES[i].upper(), 'TWIN')
        if r in ('cell', 'cellabs', 'celllow'):
            # a host variable spelled like the reference does not shadow the cell (the lexer reads letters+digits as a cell)
            lab = CELLS[i].lower() if r == 'celllow' else CELLS[i]
            p.set_variable(lab, 'shadow')
        if r in ('cell', 'cellabs', 'celllow'):
            _cellval[CELLS[i]] = dec(v)
        elif r in ('range', 'rangerev', 'rangemix'):
            _rangeval[RANGES[i]] = dec(v)
        elif r == 'rangetup':
            _rangeval[RANGES[i]] = _tup(dec(v))
        elif r == 'hostfn':
            _hostval[i] = dec(v)
        elif r == 'hosttup':
            _hostval[i] = _tup(dec(v))


def _parse(p, text):
    sink = io.StringIO()
    with contextlib.redirect_stdout(sink), contextlib.redirect_stderr(sink):
        return p.parse(text)


def canon(v):
    """a comparable, JSON-able picture of a result: type and value, floats bit for bit"""
    if isinstance(v, bool):
        return ['bool', v]
    if isinstance(v, int):
        return ['int', str(v)]
    if isinstance(v, float):
        return ['float', v.hex() if not math.isnan(v) else 'nan']
    if isinstance(v, complex):
        return ['complex', canon(v.real), canon(v.imag)]
    if isinstance(v, str):
        return ['str', v]
    if v is None:
        return ['none']
    if isinstance(v, datetime.datetime):
        return ['datetime', v.isoformat()]
    if isinstance(v, (list, tuple)):
        return [type(v).__name__] + [canon(x) for x in v]
    try:
        if isinstance(v, _error().XLError):
            return ['xlerror', str(v)]
    except Exception:
        pass
    return ['object', type(v).__name__]


def canon_rec(rec):
    if not isinstance(rec, dict) or set(rec.keys()) != {'result', 'error'}:
        return ['not-a-record', repr(rec)[:200]]
    return [canon(rec['result']), rec['error']]


def run(c):
    """-> {'f': routed formula | None, 'base': canon record of the variable route, 'routed': ..., 'again': ..., 'rec': raw}"""
    f = formula_of(c)
    if f is None:
        return {'f': None}
    lay = c.get('lay', {})
    p0 = parser(False)
    if lay.get('twinfirst'):
        # the same call or operation FIRST on operands equal in Python's eyes but of another type (3.0 before 3, TRUE before 1)
        tw = twin_args(c['args'])
        if tw is not None:
            for i, v in enumerate(tw):
                p0.set_variable(VAR_NAMES[i], dec(v))
            _parse(p0, base_formula(c))
    _bind(p0, c)
    _bind_base(p0, c)
    base = canon_rec(_parse(p0, base_formula(c)))
    p = parser(bool(lay.get('debug')))
    if lay.get('oncefirst'):
        p = fresh_parser_with_once(bool(lay.get('debug')))
    if lay.get('pre'):
        # an earlier evaluation on the same parser that read the same references with OTHER values and did not complete
        _bind(p, c, decoy=True)
        _parse(p, f + PRE_SUFFIX[lay['pre']])
    _bind(p, c)
    rec = _parse(p, f)
    out = {'f': f, 'base': base, 'routed': canon_rec(rec), 'rec': rec}
    if lay.get('again'):
        _bind(p, c)
        out['again'] = canon_rec(_parse(p, f))
    if lay.get('decoy'):
        # ANOTHER parser binds the same names to other values and evaluates the same formula; this parser, asked again, answers as before
        pd = decoy_parser()
        _bind(pd, c, decoy=True)
        _parse(pd, f)
        _bind_listeners_only(c)
        out['after_decoy'] = canon_rec(_parse(p, f))
        _bind(p, c)
        out['rebound'] = canon_rec(_parse(p, f))
    return out


def fresh_parser_with_once(debug):
    """a NEW parser on which, for each of the four events, a one-shot listener that sets nothing was subscribed with `once`
    AHEAD of the host's permanent listeners (a lazy loader that fires on the first event and leaves)"""
    common.load_repo()
    import hotxlfp
    p = hotxlfp.Parser(debug=True) if debug else hotxlfp.Parser()
    for ev in ('callCellValue', 'callRangeValue', 'callVariable', 'callFunction'):
        p.once(ev, lambda *a: None)
    p.on('callCellValue', (lambda q: (lambda cell, setter: setter(_cell_answer(q, _strip(cell.label)))))(p))
    p.on('callRangeValue', lambda a, b, setter: setter(_rangeval.get((_strip(a.label), _strip(b.label)))))
    p.on('callVariable', lambda name, setter: setter(_lisval.get(name)))
    for i, name in enumerate(HOSTFN):
        p.set_function(name, (lambda k: (lambda: _hostval.get(k)))(i))
    for i, name in enumerate(NESTFN):
        p.set_function(name, _nested(p, VAR_NAMES[i]))
    for i, name in enumerate(NESTCELL):
        p.set_function(name, _nested(p, CELLS[i]))
    return p


PRE_SUFFIX = {'syntax': ')', 'name': '+nosuchname', 'errlit': '+#N/A', 'open': '+('}
_decoy = [None]


def decoy_parser():
    if _decoy[0] is None:
        common.load_repo()
        import hotxlfp
        p = hotxlfp.Parser()
        p.on('callCellValue', (lambda q: (lambda cell, setter: setter(_cell_answer(q, _strip(cell.label)))))(p))
        p.on('callRangeValue', lambda a, b, setter: setter(_rangeval.get((_strip(a.label), _strip(b.label)))))
        p.on('callVariable', lambda name, setter: setter(_lisval.get(name)))
        for i, name in enumerate(HOSTFN):
            p.set_function(name, (lambda k: (lambda: _hostval.get(k)))(i))
        for i, name in enumerate(NESTFN):
            p.set_function(name, _nested(p, VAR_NAMES[i]))
        for i, name in enumerate(NESTCELL):
            p.set_function(name, _nested(p, CELLS[i]))
        _decoy[0] = p
    return _decoy[0]


def _bind_listeners_only(c):
    """what the HOST answers (cells, ranges, custom functions) for the case - the parser's own variables are left as they are"""
    _cellval.clear()
    _rangeval.clear()
    _hostval.clear()
    _lisval.clear()
    for i, (v, r) in enumerate(zip(c['args'], c['routes'])):
        if r in ('varlis', 'lisonly'):
            _lisval[LIS_NAMES[i]] = dec(v)
        if r in ('cell', 'cellabs', 'celllow', 'nestedcell'):
            _cellval[CELLS[i]] = dec(v)
        elif r == 'cellformula':
            _cellval[CELLS[i]] = _Formula(ALT_CELLS[i])
            _cellval[ALT_CELLS[i]] = dec(v)
        elif r in ('range', 'rangerev', 'rangemix'):
            _rangeval[RANGES[i]] = dec(v)
        elif r == 'rangetup':
            _rangeval[RANGES[i]] = _tup(dec(v))
        elif r == 'hostfn':
            _hostval[i] = dec(v)
        elif r == 'hosttup':
            _hostval[i] = _tup(dec(v))


# ----------------------------------------------------------------------------- plugin-side functions for kind 'route'

def _inexact_literal(v):
    """a float whose shortest decimal text is not its exact value: the model reads a literal as the exact decimal"""
    if isinstance(v, float) and not isinstance(v, bool):
        from fractions import Fraction
        return Fraction(repr(abs(v))) != Fraction(abs(v))
    if is_list(v):
        return any(_inexact_literal(x) for x in v)
    return False


def request(c):
    f = formula_of(c)
    if f is None:
        return None
    if any(r == 'lit' and _inexact_literal(v) for v, r in zip(c['args'], c['routes'])):
        # literal decimals are exact rationals in the model, the nearest double in the library (DESIGN.md L1): oracle only
        return None
    n = len(c['args'])
    variables = {VAR_NAMES[i]: dec(c['args'][i]) for i in range(n)}
    if c.get('lay', {}).get('twin'):
        tw = twin_args(c['args'])
        for i in range(n):
            variables[TWIN_NAMES[i]] = dec(tw[i])
    cells, ranges, fns = {}, {}, {}
    for i, (v, r) in enumerate(zip(c['args'], c['routes'])):
        if r in ('varlis', 'lisonly'):
            # the model has no callVariable listeners: the name carries the value the listener hands over
            variables[LIS_NAMES[i]] = dec(v)
        if r == 'varmix':
            variables[MIX_NAMES[i]] = dec(v)
            variables[MIX_NAMES[i].upper()] = 'TWIN'
        if r == 'cellformula':
            cells[CELLS[i]] = dec(v)
        if r in ('cell', 'cellabs', 'celllow'):
            # the model's environment is keyed by the upper-cased label as written
            cells[arg_text(i, v, r).upper()] = dec(v)
        elif r in ('range', 'rangetup', 'rangerev', 'rangemix'):
            ranges[RANGES[i]] = dec(v)
        elif r in ('hostfn', 'hosttup'):
            fns[HOSTFN[i]] = '(const %s)' % fx.to_wire(dec(v))
        elif r == 'nested':
            fns[NESTFN[i]] = '(const %s)' % fx.to_wire(dec(v))
        elif r == 'nestedcell':
            fns[NESTCELL[i]] = '(const %s)' % fx.to_wire(dec(v))
    return 'evalf %s %s' % (enc_str(f), fx.env_wire(variables=variables, fns=fns, cells=cells, ranges=ranges))


def impl(c):
    return run(c)


def _has_float_text(c):
    return False


def agree(c, im, model):
    if im.get('f') is None:
        return True
    try:
        ans = fx.parse_sexp(model)
    except Exception:
        return False
    if not isinstance(ans, list) or not ans or ans == '?':
        return False
    rec = ans[0]
    if c.get('fn') in ('GEOMEAN', 'HARMEAN') and im['rec'].get('error') is not None \
            and isinstance(rec, list) and len(rec) == 3 and rec[2] != 'none':
        # which error these two pick among several failing items is statistics' matter (not modelled): an error either way
        return True
    loose = c.get('fn') in fx.AGGREGATES
    r = fx.record_matches(rec, im['rec'], ulps=c.get('ulps', 4), rel=1e-9, loose=loose)
    if r is False and c.get('fn') in FLOAT_FNS:
        # the generic real-valued models answer in floats; Python keeps an int where every operand was one (PV(0,0,100) is the int 0)
        res = im['rec'].get('result')
        if isinstance(res, int) and not isinstance(res, bool) and abs(res) < 2 ** 53:
            r = fx.record_matches(rec, dict(im['rec'], result=float(res)), ulps=c.get('ulps', 4), rel=1e-9)
    return r is not False


def _show(cr):
    return '%s (error entry %r)' % (cr[0], cr[1]) if isinstance(cr, list) and len(cr) == 2 else repr(cr)


def _is_err_canon(cr):
    return cr[1] is not None


def sem_trap(c, im):
    """the trapping functions by their definition, on scalar operands: IFERROR(x,y) = y exactly when x is an error, else x;
    IFNA likewise for #N/A; ISERROR / ISERR / ISNA classify; stated on the record of the variable route"""
    fn = c.get('fn')
    if fn not in ('IFERROR', 'IFNA', 'ISERROR', 'ISERR', 'ISNA') or any(is_list(a) for a in c['args']):
        return None
    args = c['args']
    if fn in ('IFERROR', 'IFNA') and len(args) != 2 or fn in ('ISERROR', 'ISERR', 'ISNA') and len(args) != 1:
        return None
    x = args[0]
    code = x['err'] if is_err(x) else None

    def rec_of(v):
        # the record a formula whose value is v must give
        if is_err(v):
            return [['none'], v['err']]
        return [canon(dec(v)), None]
    if fn == 'IFERROR':
        want = rec_of(args[1]) if code else rec_of(x)
    elif fn == 'IFNA':
        want = rec_of(args[1]) if code == '#N/A' else rec_of(x)
    elif fn == 'ISERROR':
        want = [['bool', code is not None], None]
    elif fn == 'ISERR':
        want = [['bool', code is not None and code != '#N/A'], None]
    else:
        want = [['bool', code == '#N/A'], None]
    if im['base'] != want:
        return ('%s on %s gives %s; by its definition (y exactly when x is %s, else x / the classification of x) it is %s'
                % (base_formula(c), json_short(args), _show(im['base']), 'an error' if fn != 'IFNA' else '#N/A', _show(want)))
    return None


def sem_int_arith(c, im):
    """+ - * on two Python ints is the exact int (C06: numbers as themselves, the exact arithmetic on those values)"""
    tpl = c.get('tpl')
    if tpl not in ('{0}+{1}', '{0}-{1}', '{0}*{1}'):
        return None
    a, b = c['args']
    if not (isinstance(a, int) and isinstance(b, int)) or isinstance(a, bool) or isinstance(b, bool):
        return None
    exact = a + b if tpl[3] == '+' else a - b if tpl[3] == '-' else a * b
    want = [['int', str(exact)], None]
    if im['base'] != want:
        return ('%s with the integers %s gives %s; the exact integer result is %s'
                % (base_formula(c), json_short(c['args']), _show(im['base']), _show(want)))
    return None


_EXACT_TPL = re.compile(r'^[-+*/()<>={}0-9 ]+$')


def sem_exact(c, im):
    """an operator template over plain numbers that doubles carry exactly (ints below 2^53, dyadic floats): the value is the exact
    evaluation of the tree the template spells (C04: `equals an independent exact evaluation of the tree`; C07: numbers compare
    by value) - evaluated here with Python fractions, whose precedence for + - * / unary minus and one comparison is the
    spreadsheet's"""
    tpl = c.get('tpl')
    if not tpl or not _EXACT_TPL.match(tpl) or '&' in tpl:
        return None
    ncmp = len(re.findall(r'<>|<=|>=|<|>|=', tpl))
    if ncmp > 1:
        return None
    from fractions import Fraction
    vals = []
    for a in c['args']:
        if isinstance(a, bool) or not isinstance(a, (int, float)):
            return None
        if isinstance(a, float) and (a != a or a in (float('inf'), float('-inf'))):
            return None
        if abs(a) >= 2 ** 53:
            return None
        f = Fraction(a)
        if f.denominator > 2 ** 20:
            return None      # not a short dyadic fraction: double arithmetic on it rounds
        vals.append(f)
    expr = tpl
    for op, py in (('<>', ' != '), ('<=', ' <= '), ('>=', ' >= ')):
        expr = expr.replace(op, py)
    expr = re.sub(r'(?<![<>!=])=(?!=)', ' == ', expr)
    expr = expr.replace('--', '- -')
    try:
        want = eval(expr.format(*['V[%d]' % i for i in range(len(vals))]), {'__builtins__': {}}, {'V': vals})
    except ZeroDivisionError:
        return None
    base = im['base']
    if base[1] is not None:
        return '%s with %s gives the error %s; the exact value of the tree is %s' % (base_formula(c), json_short(c['args']), base[1], want)
    got = base[0]
    if isinstance(want, bool):
        ok = got == ['bool', want]
    elif got[0] == 'int':
        ok = int(got[1]) == want
    elif got[0] == 'float':
        # intermediate results of double arithmetic round: within 4 units in the last place of the exact value (L1)
        g = float.fromhex(got[1])
        ok = fx.ulp_close(g, Fraction(want), 4)
    else:
        ok = False
    if not ok:
        return ('%s with the numbers %s gives %s; the exact evaluation of the tree gives %s'
                % (base_formula(c), json_short(c['args']), _show(base), want))
    return None


def sem_elementwise(c, im):
    """array OP scalar / array OP one-element array acts element by element (C06, C13): the result equals the list of the scalar
    results - the scalar results taken from the library itself"""
    tpl = c.get('tpl')
    if tpl not in ('{0}+{1}', '{0}-{1}', '{0}*{1}', '{0}/{1}', '({0}-{1})', '({0}/{1})', '({1}-{0})'):
        return None
    a, b = c['args']
    if tpl == '({1}-{0})':
        a, b = b, a
        tpl = '{0}-{1}'
    tpl = tpl.strip('()')

    def flat_scalars(v):
        return is_list(v) and len(v) >= 1 and all(not is_list(x) for x in v)
    if flat_scalars(a) and len(a) >= 2 and (not is_list(b) or (flat_scalars(b) and len(b) == 1)):
        pairs = [(x, b[0] if is_list(b) else b) for x in a]
    elif flat_scalars(b) and len(b) >= 2 and (not is_list(a) or (flat_scalars(a) and len(a) == 1)):
        pairs = [(a[0] if is_list(a) else a, y) for y in b]
    else:
        return None
    p0 = parser(False)
    want = []
    for x, y in pairs:
        p0.set_variable(VAR_NAMES[0], dec(x))
        p0.set_variable(VAR_NAMES[1], dec(y))
        r = _parse(p0, tpl.format(VAR_NAMES[0], VAR_NAMES[1]))
        if r['error'] is not None:
            want.append(['xlerror', r['error']])
        else:
            want.append(canon(r['result']))
    base = im['base']
    if base[1] is None and base[0][0] == 'list' and base[0][1:] != want:
        return ('%s with %s gives %s; element by element the library itself gives %s'
                % (base_formula(c), json_short(c['args']), _show(base), want))
    return None


def sem_textjoin(c, im):
    """TEXTJOIN inserts the delimiter between the (flattened) items and skips blanks when asked to (C15), on text items"""
    if c.get('fn') != 'TEXTJOIN' or len(c['args']) < 3:
        return None
    d, flag = c['args'][0], c['args'][1]
    if not isinstance(d, str) or isinstance(flag, (str, list, dict)) or flag is None:
        return None
    items = _flat(c['args'][2:])
    if not all(x is None or isinstance(x, str) for x in items):
        return None
    want = d.join([x for x in items if x is not None] if flag else ['' if x is None else x for x in items])
    if im['base'] != [['str', want], None]:
        return ('%s with %s gives %s; the items joined by the delimiter, blanks %s, are %r'
                % (base_formula(c), json_short(c['args']), _show(im['base']), 'skipped' if flag else 'kept as empty items', want))
    return None


def oracle(c, im):
    if im.get('f') is None:
        return None
    m = sem_trap(c, im) or sem_int_arith(c, im) or sem_exact(c, im) or sem_elementwise(c, im) or sem_textjoin(c, im)
    if m:
        return m
    what = c.get('fn') or c.get('tpl')
    if im['routed'] != im['base']:
        return ('%s on the operand values %s: written %r with the operands bound to variables the record is %s; written %r '
                '(operand routes %s, layout %s) with the SAME values it is %s - the value is a function of the operand values, '
                'not of the route by which they arrive' % (what, json_short(c['args']), base_formula(c), _show(im['base']), im['f'],
                                                           c['routes'], c.get('lay', {}), _show(im['routed'])))
    if 'after_decoy' in im and (im['after_decoy'] != im['routed'] or im['rebound'] != im['routed']):
        return ('%r on one parser gives %s; after ANOTHER parser has bound the same variable and function names to other values and '
                'evaluated the same formula, this parser gives %s (and %s once its own variables are bound again) - a parser\'s '
                'answer depends on its own bindings only' % (im['f'], _show(im['routed']), _show(im['after_decoy']), _show(im['rebound'])))
    if 'again' in im and im['again'] != im['routed']:
        return ('%r evaluated twice on the same parser with the same bindings: first %s, then %s'
                % (im['f'], _show(im['routed']), _show(im['again'])))
    return None


def json_short(v):
    import json
    s = json.dumps(v)
    return s if len(s) < 300 else s[:300] + '...'


def nontrivial(c, im):
    """the routed formula was evaluated, gave a value (no error entry), and at least one operand left the variable route"""
    return im.get('f') is not None and im['routed'][1] is None and (any(r != 'var' for r in c['routes']) or bool(c.get('lay')))


# ----------------------------------------------------------------------------- generation

def _layout(rng, is_fn):
    lay = {}
    r = rng.random()
    if is_fn and r < 0.22:
        lay['sep'] = rng.choice([';', '\\'])
    if rng.random() < 0.2:
        lay['pad'] = rng.choice(PADS[1:])
    if rng.random() < 0.08:
        lay['paren'] = True
    if rng.random() < 0.06:
        lay['lead'] = rng.choice([' ', '\n', '\t '])
    if rng.random() < 0.06:
        lay['trail'] = rng.choice([' ', '\n', ' \t'])
    if rng.random() < 0.1:
        lay['debug'] = True
    if rng.random() < 0.12:
        lay['again'] = True
    if rng.random() < 0.1:
        lay['pre'] = rng.choice(['syntax', 'name', 'errlit', 'open'])
    if is_fn and rng.random() < 0.1:
        lay['twin'] = True
    if rng.random() < 0.07:
        lay['decoy'] = True
    if rng.random() < 0.1:
        lay['twinfirst'] = True
    if rng.random() < 0.04:
        lay['oncefirst'] = True
    return lay


def _routes_for(rng, args, mode):
    """mode 'one': one operand off the variable route; 'all': the same route for all; 'mix': independent"""
    n = len(args)
    if n == 0:
        return []
    pick = lambda: rng.choice(ARG_ROUTES[1:])
    if mode == 'one':
        rs = ['var'] * n
        rs[rng.randrange(n)] = pick()
        return rs
    if mode == 'all':
        r = pick()
        return [r] * n
    return [rng.choice(ARG_ROUTES) for _ in range(n)]


def route_cases(rng, ctx, fam, scale=None):
    """cases of kind `route` for the family table `fam`"""
    tier = ctx.get('tier', 'quick')
    sc = scale if scale is not None else ctx.get('scale', 1)
    per = (14 if tier == 'quick' else 220) * sc
    specs = [('fn', n) for n in fam['fns'] if n in SIGS] + [('tpl', t) for t in fam['ops']]
    if not specs:
        return []
    # small families get more cases per call so that every check has a comparable share
    per = max(per, ((700 if tier == 'quick' else 12000) * sc) // len(specs))
    out = []
    tier_ok = True
    for kind, name in specs:
        sig = SIGS[name] if kind == 'fn' else fam['ops'][name]
        made = 0
        tries = 0
        while made < per and tries < per * 6:
            tries += 1
            args = draw_lookup(rng, sig) if sig[:2] == ['a', 'S'] else draw_args(rng, sig)
            mode = rng.choice(['one', 'one', 'all', 'mix', 'mix'])
            c = {'kind': 'route', kind: name, 'args': args, 'routes': _routes_for(rng, args, mode)}
            if kind == 'fn' and len(args) >= 2 and rng.random() < 0.1:
                # an omitted argument: a blank in one slot, whatever the separator
                i = rng.randrange(len(args))
                c['args'] = args = args[:i] + [None] + args[i + 1:]
                c['routes'][i] = 'slot'
            if kind == 'fn' and any(k.endswith('+') for k in sig) and len(args) < 7 and rng.random() < 0.12:
                # the same array OBJECT named twice in one call (a variable used twice): its items count twice
                idx = [i for i, a in enumerate(args) if is_list(a) and c['routes'][i] == 'var']
                if idx:
                    j = rng.choice(idx)
                    c['args'] = args = args + [args[j]]
                    c['routes'] = c['routes'] + ['same:%d' % j]
            if kind == 'fn' and name in TUPLE_OK and rng.random() < 0.15:
                idx = [i for i, a in enumerate(args) if is_list(a)]
                if idx:
                    c['routes'][rng.choice(idx)] = rng.choice(TUPLE_ROUTES)
            lay = _layout(rng, kind == 'fn')
            if lay:
                c['lay'] = lay
            if formula_of(c) is None:
                # the drawn route cannot carry the value (a blank as a literal, a scalar as a range): re-draw the routes a few times
                for _ in range(4):
                    c['routes'] = _routes_for(rng, args, rng.choice(['one', 'mix']))
                    if formula_of(c) is not None:
                        break
                else:
                    continue
            out.append(c)
            made += 1
        if kind == 'tpl' and len(sig) == 2 and tier_ok:
            # systematic: a BLANK operand on every route that can carry one, beside an empty text, FALSE and zero (a blank is 0, ''
            # or FALSE according to the other operand - whatever brought it)
            for pos in (0, 1):
                for r in ('paren', 'cell', 'if', 'choose', 'hostfn', 'nested'):
                    for other in ('', False, 0):
                        args = [None, other] if pos == 0 else [other, None]
                        routes = ['var', 'var']
                        routes[pos] = r
                        c = {'kind': 'route', 'tpl': name, 'args': args, 'routes': routes}
                        if formula_of(c) is not None:
                            out.append(c)
            # systematic: a flat array literal with an omitted element, written with each of the three separators
            for arr in _SLOTLISTS:
                for asep in (',', ';', '\\'):
                    c = {'kind': 'route', 'tpl': name, 'args': [arr, 3], 'routes': ['lit' if asep == ',' else 'lit:' + asep, 'var']}
                    if formula_of(c) is not None:
                        out.append(c)
        if kind == 'tpl' and name == '{0}':
            # systematic: decimal literals are what they spell (the nearest double of the text), error literals report their code
            for x in DEC2:
                out.append({'kind': 'route', 'tpl': name, 'args': [x], 'routes': ['lit']})
                out.append({'kind': 'route', 'tpl': name, 'args': [-x], 'routes': ['lit']})
            for code in ERRS[:8]:
                out.append({'kind': 'route', 'tpl': name, 'args': [err(code)], 'routes': ['errlit']})
        if kind == 'fn':
            if any(k.rstrip('+?') in ('N', 'M', 'S', 'NN') for k in sig):
                # systematic: a flat array literal with an omitted element under each of the three separators
                pos = [i for i, k in enumerate(sig) if k.rstrip('+?') in ('N', 'M', 'S', 'NN')][0]
                for arr in _SLOTLISTS[:3]:
                    for asep in (',', ';', '\\'):
                        args = None
                        for _ in range(6):
                            args = draw_args(rng, sig)
                            if len(args) > pos:
                                break
                        if args and len(args) > pos:
                            args = args[:pos] + [arr] + args[pos + 1:]
                            rts = ['var'] * len(args)
                            rts[pos] = 'lit' if asep == ',' else 'lit:' + asep
                            c = {'kind': 'route', 'fn': name, 'args': args, 'routes': rts}
                            if formula_of(c) is not None:
                                out.append(c)
            if sig[:2] == ['a', 'S']:
                # systematic: a two-decimal lookup value written as a literal against a host array of the same numbers
                for x in DEC2[:5]:
                    out.append({'kind': 'route', 'fn': name, 'args': [x, DEC2[:5], 0], 'routes': ['lit', 'var', 'var']})
            # systematic: an omitted argument in the first, a middle and the last slot under each of the three separators
            # (the slot rule is one grammar action per separator), on this function's own signature
            for sep in SEPS:
                args = None
                for _ in range(8):
                    args = draw_args(rng, sig)
                    if len(args) >= 2:
                        break
                if not args or len(args) < 2:
                    break
                for i in sorted(set([0, len(args) // 2, len(args) - 1])):
                    a2 = args[:i] + [None] + args[i + 1:]
                    c = {'kind': 'route', 'fn': name, 'args': a2, 'routes': ['var'] * i + ['slot'] + ['var'] * (len(a2) - i - 1)}
                    if sep != ',':
                        c['lay'] = {'sep': sep}
                    if formula_of(c) is not None:
                        out.append(c)
            if any(k.rstrip('+?') in ('N', 'M', 'S', 'NN') for k in sig):
                # systematic: two-row array LITERALS with rows of unequal length, written in the formula (they are what they spell: no
                # padding, no truncation)
                for arr in ([['a', 'b'], ['c', 'd', 'e']], [[1, 2, 3], [4, 5]]):
                    if name == 'TEXTJOIN':
                        for keep in (True, False):
                            out.append({'kind': 'route', 'fn': name, 'args': ['-', keep, arr, 'Z'], 'routes': ['var', 'var', 'lit', 'var']})
                    else:
                        pos = [i for i, k in enumerate(sig) if k.rstrip('+?') in ('N', 'M', 'S', 'NN')][0]
                        args = None
                        for _ in range(6):
                            args = draw_args(rng, sig)
                            if len(args) > pos:
                                break
                        if args and len(args) > pos:
                            args = args[:pos] + [arr] + args[pos + 1:]
                            out.append({'kind': 'route', 'fn': name, 'args': args, 'routes': ['var'] * pos + ['lit'] + ['var'] * (len(args) - pos - 1)})
            if name in TUPLE_OK:
                # systematic: arrays of numbers and of texts handed over as tuples by the range listener and by a custom function
                for arr in ([1, 2, 3], ['Nord', 'Sued', 'Ost'], [[1, 2], [3, 4]], [['a', 'b'], ['c', 'd']], [2.5], ['x', None, 'y']):
                    for r in TUPLE_ROUTES:
                        if name == 'TEXTJOIN':
                            c = {'kind': 'route', 'fn': name, 'args': ['-', rng.choice([True, False]), arr], 'routes': ['var', 'var', r]}
                        else:
                            c = {'kind': 'route', 'fn': name, 'args': [arr, rng.choice([1, 'z'])], 'routes': [r, 'var']}
                        out.append(c)
    return out


RULE_TEXT = (' Route layer (harness/routes.py, kind route; a random stream of its own, appended after the cases above): for every '
             'function and operator template of this property\'s family (routes.FAMILY) at least 14 (quick) / 220 (thorough) cases per '
             'call, and at least 700 / 12000 per check, times the scale: operand values from typed pools (80 % from the kind the position '
             'documents, 20 % neighbours: logicals, numeric text, blank, error values, date-times, arrays), each operand on a route '
             'drawn from {variable, literal, cell listener (relative, absolute, lower-case label), range listener (arrays; the range written '
             'top-left:bottom-right, bottom-right:top-left or bottom-left:top-right), result of a '
             'custom function, nested evaluation on the same parser inside a custom function (of the variable, or of a CELL the listener answers), IF(TRUE,x,0), CHOOSE(1,x), parentheses, '
             'empty slot (blank), a name registered with a STALE value that the host\'s callVariable listener answers with the real one, a name '
             'only that listener knows} - a variable spelled like the cell reference is registered beside every cell route (it must not '
             'shadow the cell); one operand off the variable route (40 %), all on one route (20 %), independently mixed (40 %) - and a '
             'layout: `;` or `\\` between the arguments (22 %), white space / tab / LF / CR LF around every token (20 %), redundant '
             'parentheses (8 %), leading or trailing white space (6 % each), a parser constructed with debug=True (10 %), evaluated '
             'twice on the same parser (12 %); after an evaluation on the same parser that read the same references with OTHER values and did '
             'not complete (the formula followed by `)`, `+nosuchname`, `+#N/A` or `+(`; 10 %); the same function once more in the same '
             'formula on operands equal in Python\'s eyes but of another type (CHOOSE(2,F(twins),F(operands)) with 1 / TRUE / 1.0, 0 / FALSE / '
             '0.0, whole float / int; 10 % of the calls); with ANOTHER parser binding the same variable and function names to other values '
             'and evaluating the same formula in between (7 %); the plain call evaluated FIRST on such twin operands (10 %); one argument omitted as an empty slot at a random position, whatever the '
             'separator (10 % of the calls with two or more arguments); for the flattening functions (aggregates, CONCAT, CONCATENATE, TEXTJOIN) '
             'an array operand handed over as a tuple (of tuples) by the range listener or a custom function (15 % of their cases with an array); '
             'custom functions are registered under upper-, lower- and mixed-case names; the same array OBJECT named twice in one call of a '
             'variadic function (12 %); a NEW parser on which one-shot listeners that set nothing were subscribed with `once` ahead of the '
             'host\'s permanent listeners (4 %); texts that are a separator or spell an error code (`,` `;` `#N/A`) among the text and '
             'any-value pools, also as literals under that separator; the bare template {0} (the literal or reference is the whole formula) '
             'for C05 and C15. Systematically per function: an omitted argument in '
             'the first, a middle and the last slot under each of the three separators; for the flattening functions six fixed arrays (numbers, '
             'texts, two rows, a blank inside) as tuples through both tuple routes. Oracle: the record equals, type for type and bit for bit, the record of the same call '
             'with all operands in variables, commas, one line, no debug; the second evaluation equals the first; the answer after the other '
             'parser\'s bindings equals the one before; for IFERROR / IFNA / ISERROR / ISERR / ISNA on scalar operands the record of the variable '
             'route is the one their definition gives, for + - * on two Python ints it is the exact int, for an operator template over short '
             'dyadic numbers with at most one comparison it is the exact evaluation of the tree (ints exactly, floats within 4 ulp, logicals '
             'exactly), array OP scalar / one-element array equals the list of the library\'s own scalar results, and TEXTJOIN over text items is '
             'the items joined by the delimiter, blanks skipped exactly when the flag is true-ish. Model: '
             '`eval` of the ROUTED formula with the cells, ranges and custom functions in the environment, compared as elsewhere '
             '(4 ulp / 1e-9). Non-trivial: no error entry and at least one operand off the variable route or a layout.')
TRUSTED_TEXT = ('route layer: the variable route (the call with every operand bound by set_variable, commas, one line) is the '
                'reference the other routes are compared with; which value is the DEFINED one is judged on that route by the '
                'plugin\'s own cases; IF(TRUE,x,0) and CHOOSE(1,x) hand x on unchanged (proved of the evaluator model: C12.if_true_hands_on, C18.choose_hands_on; on the real code that is what the oracle of these two routes checks); the model-side statement of route independence is proved: C09.call_sees_argument_values, C09.host_routes_yield, C08.operator_sees_operand_outcomes, C08.negation_sees_operand_outcome (Lemmas/Routes.lean)')
ASSUMPTION_TEXT = ('the statement fixes what a call or operation evaluates to as a function of the operand VALUES: the same values '
                   'arriving as literals, from the cell or range listener, as results of custom functions, of nested evaluations or of '
                   'IF/CHOOSE, written with any of the three separators, with white space between the tokens, on a debug parser or for '
                   'the second time give the same record, error code included')



# every route passes through these: when one of them changes, the quick tier of every routed check runs at 5x scale (they are
# fingerprinted like the plugin's own FUNCTIONS; a changed fingerprint is not a verdict, DESIGN.md 1.2)
_ACTIONS = ['p_expressions', 'p_expression_arithmetic_operator', 'p_expression_logical_operator', 'p_expression_uminus',
            'p_expression_number', 'p_expression_string', 'p_expression_function', 'p_expression_wargs', 'p_expression_array', 'p_array',
            'p_expseq_semicolon', 'p_expseq_comma', 'p_expseq_backslash', 'p_xlerror', 'p_error', 'p_expression_paren',
            'p_expression_varseq', 'p_variable', 'p_variable_seq', 'p_expression_cell', 'p_cell']
_TOKENS = ['t_WHITESPACE', 't_STRING', 't_FUNCTION', 't_XLERROR', 't_ABSOLUTE_CELL', 't_MIXED_CELL', 't_RELATIVE_CELL', 't_VARIABLE',
           't_NUMBER', 't_error']
FRONT_END = (['hotxlfp.parser:Parser.__init__', 'hotxlfp.parser:Parser.parse', 'hotxlfp.parser:Parser.call_function',
              'hotxlfp.parser:Parser.call_variable', 'hotxlfp.parser:Parser.call_cell_value', 'hotxlfp.parser:Parser.call_range_value',
              'hotxlfp.parser:Parser.set_variable', 'hotxlfp.parser:Parser.set_function', 'hotxlfp.parser:Parser._throw_error',
              'hotxlfp.grammarparser.parser:Parser.__init__', 'hotxlfp.grammarparser.parser:Parser.parse',
              'hotxlfp.helper.number:to_number', 'hotxlfp.helper.cell:extract_label', 'hotxlfp.helper.cell:to_label',
              'hotxlfp.formulas:Dispatcher.register_for', 'hotxlfp.formulas:Dispatcher.get_for', 'hotxlfp.formulas:get_for',
              'hotxlfp.formulas.error:from_message', 'hotxlfp.formulas.utils:iflatten', 'hotxlfp.formulas.utils:flatten',
              'hotxlfp.formulas.utils:inumbers', 'hotxlfp.formulas.utils:parse_number', 'hotxlfp.formulas.utils:parse_date',
              'hotxlfp.formulas.utils:serialize_date', 'hotxlfp.formulas.utils:parse_criteria', 'hotxlfp.formulas.utils:any_is_error',
              'hotxlfp.formulas.operators:value_and_type', 'hotxlfp.formulas.operators:evaluate_arithmetic',
              'hotxlfp.formulas.operators:evaluate_logic', 'hotxlfp.tinyemitter:Emitter.on', 'hotxlfp.tinyemitter:Emitter.emit']
             + ['hotxlfp.grammarparser.parser:FormulaParser.' + a for a in _ACTIONS]
             + ['hotxlfp.grammarparser.lexer:' + t for t in _TOKENS])


class Routed(object):
    """a plugin plus the case kind `route`"""

    def __init__(self, plugin, fam):
        self._p = plugin
        self._fam = fam
        self.RULE = getattr(plugin, 'RULE', '') + RULE_TEXT
        self.TRUSTED = list(getattr(plugin, 'TRUSTED', [])) + [TRUSTED_TEXT]
        self.ASSUMPTIONS = list(getattr(plugin, 'ASSUMPTIONS', [])) + [ASSUMPTION_TEXT]
        own = list(getattr(plugin, 'FUNCTIONS', []))
        self.FUNCTIONS = own + [q for q in FRONT_END if q not in own]

    def __getattr__(self, name):
        return getattr(self._p, name)

    def _rng(self, ctx, salt):
        return random.Random((ctx.get('seed', 0) + 1) * 1000003 + salt)

    def cases(self, rng, ctx):
        out = list(self._p.cases(rng, ctx))
        return out + route_cases(self._rng(ctx, 17), ctx, self._fam)

    def request(self, c):
        return request(c) if c.get('kind') == 'route' else self._p.request(c)

    def impl(self, c):
        return impl(c) if c.get('kind') == 'route' else self._p.impl(c)

    def agree(self, c, im, model):
        return agree(c, im, model) if c.get('kind') == 'route' else self._p.agree(c, im, model)

    def oracle(self, c, im):
        return oracle(c, im) if c.get('kind') == 'route' else self._p.oracle(c, im)

    def nontrivial(self, c, im):
        return nontrivial(c, im) if c.get('kind') == 'route' else self._p.nontrivial(c, im)

    def weight(self, c, im):
        if c.get('kind') == 'route' or not hasattr(self._p, 'weight'):
            return None
        return self._p.weight(c, im)

    def shrink(self, c, msg):
        if c.get('kind') == 'route':
            return shrink(c, msg)
        if hasattr(self._p, 'shrink'):
            return self._p.shrink(c, msg)
        return c, msg

    def search(self, rng, ctx, disagreeing):
        if hasattr(self._p, 'search'):
            for c in self._p.search(rng, ctx, disagreeing):
                yield c
        for c in route_cases(self._rng(ctx, 29), ctx, self._fam, scale=4 * ctx.get('scale', 1)):
            yield c


def shrink(c, msg):
    """fewer ingredients that still fail: drop the layout keys one by one, put operands back on the variable route"""
    def fails(cc):
        try:
            return oracle(cc, run(cc))
        except Exception:
            return None
    cur, cur_msg = c, msg
    changed = True
    while changed:
        changed = False
        for k in list(cur.get('lay', {}).keys()):
            cc = dict(cur, lay={kk: vv for kk, vv in cur['lay'].items() if kk != k})
            if not cc['lay']:
                del cc['lay']
            m = fails(cc)
            if m:
                cur, cur_msg, changed = cc, m, True
                break
        if changed:
            continue
        for i, r in enumerate(cur['routes']):
            if r != 'var':
                cc = dict(cur, routes=cur['routes'][:i] + ['var'] + cur['routes'][i + 1:])
                m = fails(cc)
                if m:
                    cur, cur_msg, changed = cc, m, True
                    break
    return cur, cur_msg


def wrap(plugin):
    fam = FAMILY.get(getattr(plugin, 'ID', None))
    if not fam:
        return plugin
    return Routed(plugin, fam)
