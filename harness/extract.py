# -*- coding: utf-8 -*-
"""
Translator part of the tie: regenerate lean/HotXL/Generated/Tables.lean from the
*current* /repo working tree (live objects where possible, ast otherwise).  Every theorem
that mentions `HotXL.Generated.*` is therefore re-checked against what the code says now.
"""
import os
from . import common


def lean_str(s):
    out = ['"']
    for ch in s:
        o = ord(ch)
        if ch == '"':
            out.append('\\"')
        elif ch == '\\':
            out.append('\\\\')
        elif ch == '\n':
            out.append('\\n')
        elif ch == '\t':
            out.append('\\t')
        elif o < 32 or o == 127 or o > 0xFFFF:
            out.append('\\u{%x}' % o)
        else:
            out.append(ch)
    out.append('"')
    return ''.join(out)


def lean_int(i):
    return str(i) if i >= 0 else '(%d)' % i


def lean_list(items):
    return '[' + ', '.join(items) + ']'


SECTIONS = []


def section(fn):
    SECTIONS.append(fn)
    return fn


@section
def cell_tables():
    from hotxlfp.helper import cell
    import ast
    import inspect
    lines = []
    lines.append('def columnLabelBase : String := %s' % lean_str(cell.COLUMN_LABEL_BASE))
    lines.append('def labelExtractRegexp : String := %s' % lean_str(cell.LABEL_EXTRACT_REGEXP.pattern))
    # the `+ 97` of column_index_to_label: the only integer literal > 26 in that function
    src = inspect.getsource(cell.column_index_to_label)
    consts = [n.value for n in ast.walk(ast.parse(src)) if isinstance(n, ast.Constant) and isinstance(n.value, int)]
    off = [c for c in consts if c >= 32]
    lines.append('def columnChrOffset : Nat := %d' % (off[0] if off else 0))
    return lines


@section
def lexer_tables():
    """rule order and regex text of ply's master regular expression, from the BUILT lexer"""
    import ply.lex as lex
    from hotxlfp.grammarparser import lexer as lexmod
    lx = lex.lex(module=lexmod)
    rules = []
    for regex, names in lx.lexstatere['INITIAL']:
        for entry in names:
            if entry and entry[1]:
                func, tokname = entry
                doc = getattr(func, 'regex', None) or (func.__doc__ if func is not None else None)
                if doc is None:
                    doc = getattr(lexmod, 't_' + tokname)
                    doc = doc if isinstance(doc, str) else doc.__doc__
                rules.append((tokname, doc))
    lines = ['def lexRules : List (String × String) := [']
    lines.append(',\n'.join('  (%s, %s)' % (lean_str(n), lean_str(r)) for n, r in rules))
    lines.append(']')
    lines.append('def lexIgnore : String := %s' % lean_str(lx.lexstateignore.get('INITIAL', '') or ''))
    # does t_error raise the NAME singleton?  (ast: a single `raise error.NAME`)
    import ast
    import inspect
    src = inspect.getsource(lexmod.t_error)
    raises = [ast.unparse(n.exc) for n in ast.walk(ast.parse(src)) if isinstance(n, ast.Raise) and n.exc is not None]
    lines.append('def lexErrorRaises : List String := %s' % lean_list([lean_str(r) for r in raises]))
    return lines


@section
def grammar_tables():
    """precedence declaration and productions, read the way ply.yacc reads them"""
    import ply.yacc as yacc
    from hotxlfp.grammarparser import parser as gp
    prec = gp.FormulaParser.precedence
    lines = ['def precedence : List (String × List String) := [']
    lines.append(',\n'.join('  (%s, %s)' % (lean_str(p[0]), lean_list([lean_str(t) for t in p[1:]])) for p in prec))
    lines.append(']')
    prods = []
    funcs = []
    for name in dir(gp.FormulaParser):
        if name.startswith('p_') and name != 'p_error':
            f = getattr(gp.FormulaParser, name)
            if callable(f) and f.__doc__:
                funcs.append((f.__code__.co_firstlineno, name, f))
    for _, name, f in sorted(funcs):
        for fl, line, prodname, syms in yacc.parse_grammar(f.__doc__, f.__code__.co_filename, f.__code__.co_firstlineno):
            precname = ''
            syms = list(syms)
            if '%prec' in syms:
                i = syms.index('%prec')
                precname = syms[i + 1]
                syms = syms[:i]
            prods.append((name, prodname, syms, precname))
    lines.append('def productions : List (String × String × List String × String) := [')
    lines.append(',\n'.join('  (%s, %s, %s, %s)' % (lean_str(a), lean_str(b), lean_list([lean_str(s) for s in c]), lean_str(d))
                            for a, b, c, d in prods))
    lines.append(']')
    return lines


@section
def operator_tables():
    """IMPLICIT_DATA_TYPE_CONVERSIONS (live dict), OPERATOR_DICT, date constants"""
    import ast
    import datetime
    import inspect
    import operator as pyop
    from hotxlfp.formulas import operators as ops
    from hotxlfp.formulas import utils, error
    from hotxlfp._compat import number_types, string_types

    def tyname(t):
        if t is number_types:
            return 'number'
        if t is datetime.datetime:
            return 'date'
        if t is type(None):
            return 'none'
        if t is string_types:
            return 'string'
        if t is error.XLError:
            return 'error'
        return 'unknown:%r' % (t,)

    def convname(f):
        if f is None:
            return 'none'
        if f is utils.serialize_date or f is ops.serialize_date:
            return 'serialize_date'
        if f is utils.parse_date or f is ops.parse_date:
            return 'parse_date'
        code = getattr(f, '__code__', None)
        if code is not None and code.co_name == '<lambda>' and code.co_argcount == 1:
            try:
                r = f(object())
                if r == 0 and type(r) is int:
                    return 'zero'
                return 'const:%r' % (r,)
            except Exception:
                pass
        return 'unknown:%s' % getattr(f, '__name__', repr(f))

    rows = []
    table = ops.IMPLICIT_DATA_TYPE_CONVERSIONS
    for op in sorted(table):
        for lt in table[op]:
            for rt in table[op][lt]:
                cell = table[op][lt][rt]
                rows.append((op, tyname(lt), tyname(rt), convname(cell.get('left')), convname(cell.get('right')),
                             convname(cell['result']) if 'result' in cell else 'absent'))
    rows.sort()
    lines = ['def convTable : List (String × String × String × String × String × String) := [']
    lines.append(',\n'.join('  (%s)' % ', '.join(lean_str(x) for x in r) for r in rows))
    lines.append(']')
    names = {pyop.add: 'add', pyop.sub: 'sub', pyop.mul: 'mul', pyop.truediv: 'truediv', pyop.gt: 'gt', pyop.lt: 'lt',
             pyop.ne: 'ne', pyop.eq: 'eq', pyop.ge: 'ge', pyop.le: 'le'}
    od = sorted((k, names.get(v, 'unknown:%r' % (v,))) for k, v in utils.OPERATOR_DICT.items())
    lines.append('def operatorDict : List (String × String) := %s' % lean_list(['(%s, %s)' % (lean_str(a), lean_str(b)) for a, b in od]))
    # integer literals of serialize_date / parse_date, in source order
    def int_consts(f):
        """integer literals in source order, unary minus folded in"""
        tree = ast.parse(inspect.getsource(f))
        res = []
        neg = set()
        for n in ast.walk(tree):
            if isinstance(n, ast.UnaryOp) and isinstance(n.op, ast.USub) and isinstance(n.operand, ast.Constant):
                neg.add(id(n.operand))
        for n in ast.walk(tree):
            if isinstance(n, ast.Constant) and isinstance(n.value, int) and not isinstance(n.value, bool):
                res.append((n.lineno, n.col_offset, -n.value if id(n) in neg else n.value))
        return [v for _, _, v in sorted(res)]

    def cmp_ops(f):
        tree = ast.parse(inspect.getsource(f))
        res = []
        for n in ast.walk(tree):
            if isinstance(n, ast.Compare):
                res.append((n.lineno, n.col_offset, '/'.join(type(o).__name__ for o in n.ops)))
        return [v for _, _, v in sorted(res)]
    lines.append('def serializeDateConsts : List Int := %s' % lean_list([lean_int(c) for c in int_consts(utils.serialize_date)]))
    lines.append('def serializeDateCompares : List String := %s' % lean_list([lean_str(c) for c in cmp_ops(utils.serialize_date)]))
    lines.append('def parseDateConsts : List Int := %s' % lean_list([lean_int(c) for c in int_consts(utils.parse_date)]))
    lines.append('def parseDateCompares : List String := %s' % lean_list([lean_str(c) for c in cmp_ops(utils.parse_date)]))
    d0 = utils.date_1900
    ep = utils.epoch
    lines.append('def date1900 : List Nat := %s' % lean_list([str(x) for x in (d0.year, d0.month, d0.day, d0.hour, d0.minute, d0.second, d0.microsecond)]))
    lines.append('def epochDate : List Nat := %s' % lean_list([str(x) for x in (ep.year, ep.month, ep.day, ep.hour, ep.minute, ep.second, ep.microsecond)]))
    return lines


@section
def registry_tables():
    """registered builtin names, documented names, predefined variables, error table"""
    import ast
    import inspect
    import os
    import re
    import hotxlfp
    from hotxlfp import formulas
    from hotxlfp.formulas import error
    lines = []
    lines.append('def registry : List String := %s' % lean_list([lean_str(n) for n in formulas.supported()]))
    doc = []
    heading_count = 0
    path = os.path.join(common.REPO, 'SUPPORTED_FORMULAS.md')
    try:
        with open(path, encoding='utf-8') as f:
            # only the bullets under the heading "# Supported Formulas - <n>" are listed as supported;
            # the file goes on with "# Not Yet Supported Formulas - <n>"
            in_supported = False
            for line in f:
                h = re.match(r'^\s*#+\s*(.*?)\s*$', line)
                if h:
                    in_supported = h.group(1).lower().startswith('supported')
                    hc = re.search(r'(\d+)\s*$', h.group(1))
                    if in_supported and hc:
                        heading_count = int(hc.group(1))
                    continue
                m = re.match(r'^\s*[-*]\s+`?([A-Za-z0-9_.]+)`?\s*$', line)
                if m and in_supported:
                    doc.append(m.group(1))
    except IOError:
        pass
    lines.append('def documented : List String := %s' % lean_list([lean_str(n) for n in doc]))
    lines.append('def documentedHeadingCount : Nat := %d' % heading_count)
    p = hotxlfp.Parser()
    def vdesc(v):
        if v is True:
            return 'true'
        if v is False:
            return 'false'
        if v is None:
            return 'none'
        return 'other:%r' % (v,)
    lines.append('def predefinedVars : List (String × String) := %s' % lean_list(
        ['(%s, %s)' % (lean_str(k), lean_str(vdesc(v))) for k, v in sorted(p.variables.items())]))
    # error.from_message: the dict literal (message -> singleton name) and the default
    tree = ast.parse(inspect.getsource(error.from_message))
    pairs = []
    default = ''
    for n in ast.walk(tree):
        if isinstance(n, ast.Dict):
            for k, v in zip(n.keys, n.values):
                if isinstance(k, ast.Constant) and isinstance(v, ast.Name):
                    pairs.append((k.value, v.id))
        if isinstance(n, ast.Call) and isinstance(n.func, ast.Attribute) and n.func.attr == 'get' and len(n.args) == 2 \
                and isinstance(n.args[1], ast.Name):
            default = n.args[1].id
    lines.append('def errorTable : List (String × String) := %s' % lean_list(['(%s, %s)' % (lean_str(a), lean_str(b)) for a, b in pairs]))
    lines.append('def errorDefault : String := %s' % lean_str(default))
    singles = []
    for name in sorted(dir(error)):
        v = getattr(error, name)
        if isinstance(v, error.XLError):
            singles.append((name, str(v)))
    lines.append('def errorSingletons : List (String × String) := %s' % lean_list(['(%s, %s)' % (lean_str(a), lean_str(b)) for a, b in singles]))
    return lines



FILES = {'cell_tables': 'Cell', 'lexer_tables': 'Lexer', 'grammar_tables': 'Grammar',
         'operator_tables': 'Operators', 'registry_tables': 'Registry'}


def render_all():
    """{module name: file content}; one file per area so that a changed table only
    invalidates the proofs that depend on that area"""
    common.load_repo()
    out = {}
    # area modules contributed separately: harness/extract_parts/<x>.py with NAME and tables()
    import glob
    import importlib
    for path in sorted(glob.glob(os.path.join(os.path.dirname(os.path.abspath(__file__)), 'extract_parts', '*.py'))):
        mod = os.path.basename(path)[:-3]
        if mod.startswith('_'):
            continue
        m = importlib.import_module('harness.extract_parts.' + mod)
        out[m.NAME] = ('-- GENERATED by /verif/harness/extract_parts/%s.py from the /repo working tree -- do not edit.\n'
                       'namespace HotXL.Generated\n' % mod + '\n'.join(m.tables()) + '\nend HotXL.Generated\n')
    for fn in SECTIONS:
        name = FILES.get(fn.__name__, fn.__name__.title().replace('_', ''))
        body = fn()
        out[name] = ('-- GENERATED by /verif/harness/extract.py (%s) from the /repo working tree -- do not edit.\n'
                     'namespace HotXL.Generated\n' % fn.__name__ + '\n'.join(body) + '\nend HotXL.Generated\n')
    out['Tables'] = ('-- GENERATED: all generated tables\n' +
                     ''.join('import HotXL.Generated.%s\n' % n for n in sorted(out)))
    return out


def write_tables():
    changed = []
    base = os.path.dirname(common.TABLES)
    for name, content in render_all().items():
        if common.write_if_changed(os.path.join(base, name + '.lean'), content):
            changed.append(name)
    return changed


if __name__ == '__main__':
    ch = write_tables()
    print('tables %s' % (('rewritten: ' + ', '.join(ch)) if ch else 'unchanged'))
