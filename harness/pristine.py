# -*- coding: utf-8 -*-
"""pristine.py: a server that evaluates formula sequences in PRISTINE processes.

Started once per check run (`python -m harness.pristine`), it imports hotxlfp (honouring HOTXLFP_REPO) and evaluates nothing itself.
For every request line on stdin - JSON {"first": [formulas], "probe": [formulas]} - it forks a child; the child builds one
hotxlfp.Parser, evaluates the formulas of "first" in order (their outcomes are dropped) and then those of "probe", and the server
answers one JSON line {"records": [[result type, result repr, error] ...]} (or {"crash": text}).  Whatever an evaluation leaves
behind in the process - module-level caches, class attributes, edited tables - is therefore left in a child that ends with the
request; two requests never see each other.  Used by the C02 plugin (kind `order`): the outcome of a formula after a history,
in a process that has seen nothing but that history, against its outcome in a process that has seen nothing at all."""
import json
import os
import sys


def rec_wire(rec):
    r = rec.get('result')
    try:
        rr = repr(r)
    except Exception as e:          # noqa
        rr = '<repr raises %s>' % type(e).__name__
    return [type(r).__name__, rr[:400], rec.get('error')]


def child(job, wfd):
    try:
        import hotxlfp
        p = hotxlfp.Parser()
        for f in job.get('first', []):
            p.parse(f)
        out = {'records': [rec_wire(p.parse(f)) for f in job.get('probe', [])]}
    except BaseException as e:      # noqa
        out = {'crash': '%s: %s' % (type(e).__name__, e)}
    os.write(wfd, json.dumps(out).encode('utf-8'))
    os._exit(0)


def main():
    from . import common
    common.load_repo()
    import hotxlfp          # noqa: imported, nothing evaluated, no parser built
    sys.stdout.write('READY\n')
    sys.stdout.flush()
    for line in sys.stdin:
        line = line.strip()
        if not line:
            continue
        job = json.loads(line)
        r, w = os.pipe()
        pid = os.fork()
        if pid == 0:
            os.close(r)
            child(job, w)
        os.close(w)
        chunks = []
        while True:
            b = os.read(r, 1 << 16)
            if not b:
                break
            chunks.append(b)
        os.close(r)
        os.waitpid(pid, 0)
        data = b''.join(chunks).decode('utf-8') or json.dumps({'crash': 'the child gave no answer'})
        sys.stdout.write(data + '\n')
        sys.stdout.flush()


if __name__ == '__main__':
    main()
