# -*- coding: utf-8 -*-
"""C12 - logical functions are truth-functional; type predicates classify values

case kinds (every case is compared with the Lean model):
  tf      AND/OR/XOR on tuples of logicals / numbers / blanks, flat or nested in arrays          (oracle)
  not     NOT on a pool value                                                                     (oracle)
  if, ifs, switch   condition/value and target/case/result lists                                  (oracle)
  err     an error value or error-producing expression in a tested condition / target position    (oracle)
  pred    the ten predicates on one value: ten direct calls + ten formulas NAME(v)                (oracle)
          + ten formulas NAME(C3), the value answered by the cell listener (oracle only, not sent to the model)
  pred1   one predicate, one direct call on a value                                               (model only)
  arity   one direct call: unusual argument counts; N, T, ERROR.TYPE, IFERROR, IFNA on the pool   (model only)
modes of tf/not/if/ifs/switch/err cases: fn (one direct call; generated as fn1 = one case per function), lit (formula
with literals, array literals, empty slots), var (formula with arrays, blanks and errors as variables)
"""
import datetime
import itertools
import math
from fractions import Fraction

from .. import common, fx
from ..common import enc_str

ID = 'C12'
LEAN_MODULES = ['HotXL.Props.C12']
FUNCTIONS = ['hotxlfp.formulas.logic:_first_error', 'hotxlfp.formulas.logic:AND', 'hotxlfp.formulas.logic:OR',
             'hotxlfp.formulas.logic:XOR', 'hotxlfp.formulas.logic:NOT', 'hotxlfp.formulas.logic:IF',
             'hotxlfp.formulas.logic:IFS', 'hotxlfp.formulas.logic:SWITCH', 'hotxlfp.formulas.logic:TRUE',
             'hotxlfp.formulas.logic:FALSE',
             'hotxlfp.formulas.information:ISBLANK', 'hotxlfp.formulas.information:ISERR',
             'hotxlfp.formulas.information:ISERROR', 'hotxlfp.formulas.information:ISNA',
             'hotxlfp.formulas.information:ISEVEN', 'hotxlfp.formulas.information:ISODD',
             'hotxlfp.formulas.information:ISTEXT', 'hotxlfp.formulas.information:ISNONTEXT',
             'hotxlfp.formulas.information:ISNUMBER', 'hotxlfp.formulas.information:ISLOGICAL',
             'hotxlfp.formulas.information:NA', 'hotxlfp.formulas.information:N', 'hotxlfp.formulas.information:T',
             'hotxlfp.formulas.utils:iflatten', 'hotxlfp.formulas.utils:flatten']
RULE = ('modes: fn = one direct call of the registered Python function (nested lists, None, XLError objects); lit = '
        'Parser.parse of NAME(..) with literals, array literals {..}, blanks as empty slots (the predefined variable NULL '
        'where the grammar rejects the slot), error values and dyadic floats as variables; var = Parser.parse with every '
        'array, blank and error argument a variable.  (a) tf: AND/OR/XOR on every tuple of length 1..3 (thorough 1..4) over '
        '{TRUE, FALSE, 0, 1, -2, 0.5, 0.0, blank} as separate arguments (fn only) and of length 1..2 (thorough 1..3) inside '
        'one array (lit, var); 700 (thorough 12000) x scale seeded tuples of length 1..6 (12% of items from -0.0, 2.5, 7, '
        '-1000000007, -1/1024, 2^-30, 2^65; 30% drawn all-true from {TRUE, 1, -2, 0.5} or all-false from {FALSE, 0, 0.0, '
        'blank}, half of those with one item redrawn), regrouped into nested arrays (a sub-array opens with p 0.45, depth <= '
        '3) in the three modes, plus the flat tuple as fn; not: NOT on the 8 pool values, three modes.  (b) if: 8 conditions '
        'x 5 branch pairs (101/102, "yes"/"no", blank/TRUE, #REF!/0.5, {1,2}/"") in fn, lit; ifs: 500 (8000) x scale lists of '
        '1..4 pairs, conditions from the pool or (p 0.5) its four false values, values 200+i, "v<i>" or one of 11 mixed '
        'values (ints, text incl. "", logicals, blank, 0.5, #REF!, {1,2}), 10% with a trailing unpaired argument (<= 8 '
        'arguments), one random mode; switch: 700 (12000) x scale lists, target and cases from one of 6 families (8 numbers '
        'incl. 1/1.0, 0/0.0; 6 texts incl. "a"/"A", "", "1", "TRUE"; logicals; numbers+text; text+logicals; all+blank), 0..4 '
        'pairs, with <= 3 pairs p 0.5 a default (30% the target itself), <= 9 arguments, one random mode, and 9 fixed lists '
        '(SWITCH(1,2,3,1), SWITCH(1), SWITCH(1,1), 1.0 vs 1, "a" vs "A", repeated matching case) in fn, lit.  (c) err: each '
        'of the nine error values (three modes) and the expressions 1/0 and NA() (lit only) as sole argument of '
        'AND/OR/XOR/NOT, in IF(e,1,2), IFS(e,1), SWITCH(e,1,2), SWITCH(e,e,2,3), SWITCH(e), in every position of every {TRUE, '
        'FALSE} tuple of length 2..3 for AND/OR/XOR (16), as IFS condition 0..3 with the earlier conditions all false '
        '(reached) or one TRUE (not reached) (10 lists); 500 (8000) x scale seeded pool tuples of length 1..6 with one or (p '
        '1/3) two errors, 70% regrouped (depth <= 3), one random mode.  (d) pred: '
        'ISNUMBER/ISTEXT/ISLOGICAL/ISBLANK/ISERROR/ISERR/ISNA/ISNONTEXT/ISEVEN/ISODD, each by direct call, as formula '
        'NAME(v) with v a variable, and a third time as formula NAME(C3) (form `formula-cell`: the value is what the parser\'s one '
        'callCellValue listener hands to its setter for the label C3 - 0, FALSE and the empty text are values, not blanks; any '
        'other label is answered None; 30 evaluations per pred case), on a 45-value pool (7 ints incl. -2^65, 8 floats incl. 0.0, -0.0, 2^53, -1/1024, TRUE, '
        'FALSE, 7 texts incl. "", " ", "1", "1.5", "TRUE", "#N/A", blank, nine errors, 3 dates, lists [1], [], ["a",[blank]], '
        '5 foreign objects: object, instance, dict, bytes, frozenset), ints -12..12, k/8 for k = -48..48, 300 (6000) x scale '
        'seeded numbers (ints in +-10^20, m/2^e with |m| < 2^40, e < 30, integer-valued floats m*2^e with |m| < 2^52, e < '
        '200, odd/2^e with odd < 2^21, e in 1..59); judged per group of ten answers (the '
        'ten direct calls, the ten formulas over the variable, the ten formulas over the cell - the same demands on each group): the five classifiers a logical, TRUE exactly on their kind; ISNONTEXT = not '
        'ISTEXT; ISERR / ISNA split the errors; on a number ISEVEN a logical and ISODD a logical or 1/0 by the truncated integer '
        'part, complementary; on text, blank, dates, lists, foreign objects both #VALUE!; on a logical (TRUE, FALSE) the two must '
        'answer alike - both a value, and then complementary, or both an error; an error value given to them is not judged.  (e) model comparison only (oracle silent, never non-trivial): pred1 = '
        'each predicate as one direct call on the 45 pool values and 30% of the seeded numbers; arity = 269 direct calls: '
        'zero, missing and surplus arguments of the logical functions, TRUE, FALSE, NA, the ten predicates, N, T, ERROR.TYPE, '
        'IFERROR, IFNA, and N, T, ERROR.TYPE (not on the dict), IFERROR(v,777), IFNA(v,777) on the 45 pool values.  every '
        'case is compared with the Lean model (a single direct call as fn request, else the formulas of the case as one '
        'c04.batch; of a pred case only the ten formulas NAME(v) - the ten NAME(C3) are judged by the oracle only); the oracle judges tf, not, if, ifs, switch, err, pred.  '
        'non-trivial (distinct cases) = the oracle decided an outcome for some function of the case: always for those kinds '
        'except switch lists without a complete pair or whose scan meets a logical/number or blank/non-blank comparison '
        'before a match.  about 12900 cases quick, 169500 thorough at scale 1; scale 5 in quick when a fingerprinted function '
        'changed or the Lean build broke; search() (proof or correspondence broken, no oracle failure): the whole family '
        'redrawn at scale 6, oracle only, stops at the first failure.  no time or step budget, nothing skipped.')
TRUSTED = ['complex numbers, NaN and infinities are not modelled and not generated (ISNUMBER(1+2j) is TRUE, ISEVEN(inf) is '
           '#ERROR!)',
           'Python `==` between foreign objects (SWITCH on host objects) is not modelled and not generated',
           'rendering of tokens by the plugin (val / text / seq_text): the formula text denotes the value of the token (TRUE, '
           'FALSE, NULL as the predefined variables of Parser; -2, -0.0, 2^65 as literal text; blanks as empty slots where '
           'the grammar takes them)',
           'direct(): formulas.get_for(NAME)(*args) stands for Parser.call_function; an exception is mapped to an error code '
           'by error.from_message (unknown text: #ERROR!); one Parser serves all formulas, its variables are set per formula '
           'and restored; the same Parser carries one callCellValue listener that answers from a table (_cells) the harness '
           'clears and fills with {C3: value} before each NAME(C3) evaluation of a pred case - the value is handed over as the '
           'Python object of the pool (foreign objects, lists and error values included)',
           'model comparison (fx.value_matches / record_matches): exact type and value for ints, logicals, text, errors, '
           'blanks, lists element-wise, floats within 4 ulps, dates within a few us; a model answer `(o ..)` (no opinion) '
           'counts as agreement; a raised exception must meet `(raise tag)`.  the oracle uses no tolerance (same type, same '
           'value, same sign of zero)',
           'formula cases run through the whole parser model (c04.batch); its tie to the grammar is the subject of C04 / C05']
ASSUMPTIONS = ['truth values: TRUE and non-zero numbers true; FALSE, zero (0, 0.0, -0.0) and blank false; text, dates and '
               'arrays as conditions are outside the statement (the code uses Python truthiness) and are not generated',
               'results are judged exactly: AND/OR/XOR/NOT must answer a logical (not 1/0); IF/IFS/SWITCH must return the '
               'chosen argument with its type and value (1 is neither 1.0 nor TRUE, 0.0 is not -0.0, lists element-wise); the '
               'same expectation holds for the direct call and for Parser.parse (the statement observes the latter)',
               '"yields that error" = the same error code, whether returned as an error value, raised by the direct call or '
               'reported in the error field of Parser.parse; with several error items AND/OR/XOR must give the first in '
               'depth-first left-to-right order of the flattened arguments, whatever TRUE / FALSE items stand before or after '
               'it',
               'IFS: an error condition is the result only when every earlier condition is false; after a true condition it '
               'must not surface; a trailing unpaired argument is ignored; no true condition gives #N/A',
               'SWITCH "equal": same-kind values are compared by value (1 and 1.0 are equal, text is case-sensitive, blank '
               'equals blank), text never equals a number or a logical; an error-valued case never equals a non-error target; '
               'a logical against a number (Python: TRUE == 1) and a blank against a non-blank are not judged',
               'SWITCH(t) and SWITCH(t, c) (no complete case/result pair) are #N/A in the code; the oracle judges lists with '
               'at least one pair, and any list whose target is an error (SWITCH(e) = e); the odd last argument is the '
               'default and is never compared with the target (SWITCH(1,2,3,1) = 1)',
               'ISERROR = ISERR or ISNA is read as a split: ISNA is TRUE exactly on #N/A, ISERR exactly on the other eight '
               'error values',
               'ISEVEN must answer a logical; ISODD returns the integer 1/0 (a logical is accepted too): "complementary" is '
               'judged on truth values (bool(ISODD(n)) = not ISEVEN(n)); the integer part is truncation toward zero of the '
               'exact value of the float (-2.5 has integer part -2)',
               'the five-way partition is claimed for numbers, text, logicals, blanks and error values, each classifier '
               'answering a logical on every value; dates, lists and foreign objects must make all five FALSE; ISEVEN/ISODD '
               'must be #VALUE! on text (also "1", "1.5"), blanks, dates, lists and foreign objects; on a logical the two must answer '
               'alike - both a parity, complementary, or both an error - which of the two is not judged; errors given to them are '
               'not judged',
               'the predicates classify the VALUE whatever its route: a value the host\'s cell listener answers for C3 is '
               'classified like the same value held by a variable or passed in a direct call (0, FALSE and "" answered for a cell '
               'are a number, a logical and a text, not a blank; only None is a blank)',
               'an error in an IF/IFS/SWITCH *value* position is returned like any other value (only tested conditions are '
               'constrained)']
EXHAUSTIVE = {'quick': False, 'thorough': False}

CODES = {'null': '#NULL!', 'div0': '#DIV/0!', 'value': '#VALUE!', 'ref': '#REF!', 'name': '#NAME?', 'num': '#NUM!',
         'na': '#N/A', 'data': '#GETTING_DATA', 'error': '#ERROR!'}
TAGS = list(CODES)

# ---------------------------------------------------------------------------- tokens
# a case is JSON: values are tokens (strings), arrays are JSON lists of tokens / arrays

POOL = ['T', 'F', '0', '1', '-2', '0.5', '0.0', 'B']
_SCALARS = {'T': True, 'F': False, '0': 0, '1': 1, '-2': -2, '0.5': 0.5, '0.0': 0.0, 'B': None, '2': 2, '1.0': 1.0,
            '2.5': 2.5, '-0.0': -0.0, '7': 7}
_TEXT = {'T': 'TRUE', 'F': 'FALSE', 'B': 'NULL'}
D2020 = datetime.datetime(2020, 1, 1)


class Foreign(object):
    pass


_foreign = {'obj': object(), 'inst': Foreign(), 'dict': {'a': 1}, 'bytes': b'ab', 'set': frozenset([1])}


def err(tag):
    common.load_repo()
    from hotxlfp.formulas import error
    return error.from_message(CODES[tag])


def val(tok):
    """token -> Python value"""
    if isinstance(tok, list):
        return [val(t) for t in tok]
    if tok in _SCALARS:
        return _SCALARS[tok]
    k, _, r = tok.partition(':')
    if k == 'e':            # error-valued variable
        return err(r)
    if k == 'x':            # error-producing expression
        return err({'1/0': 'div0', 'NA()': 'na'}[r])
    if k == 's':            # text
        return r
    if k == 'i':
        return int(r)
    if k == 'f':            # float given as numerator/denominator (dyadic)
        n, _, d = r.partition('/')
        return int(n) / int(d)
    if k == 'd':
        return D2020 + datetime.timedelta(days=int(r))
    if k == 'o':
        return _foreign[r]
    raise ValueError(tok)


def text(tok, env, ctx_blank_ok=False):
    """token -> formula text (variables are added to env)"""
    if isinstance(tok, list):
        return '{' + seq_text(tok, env) + '}'
    if tok == 'B' and ctx_blank_ok:
        return ''
    if tok in _TEXT:
        return _TEXT[tok]
    if tok in _SCALARS:
        return tok
    k, _, r = tok.partition(':')
    if k == 'x':
        return r
    if k == 's' and '"' not in r:
        return '"' + r + '"'
    if k == 'i':
        return r
    name = 'v_' + ''.join(c if c.isalnum() else '_' for c in tok)
    if k == 'e':
        name = 'e_' + r
    env[name] = val(tok)
    return name


def seq_text(items, env):
    """comma-separated items; a blank is written as an empty slot when some other item of the sequence is not a
    blank and the previous item is not an empty slot (the grammar rejects some runs of empty slots: `F(1,,)`,
    `{1,,,2}` - argument-list syntax is C05's subject), else as the variable NULL"""
    slot_ok = len(items) >= 2 and any(t != 'B' for t in items)
    out = []
    for t in items:
        out.append(text(t, env, ctx_blank_ok=slot_ok and (not out or out[-1] != '')))
    return ','.join(out)


def my_flatten(tok):
    """depth-first left-to-right items (the plugin's own flattening, independent of utils.iflatten)"""
    if isinstance(tok, list):
        out = []
        for t in tok:
            out += my_flatten(t)
        return out
    return [tok]


def truth(v):
    """the statement's truth value, or None"""
    if isinstance(v, bool):
        return v
    if isinstance(v, (int, float)):
        return v != 0
    if v is None:
        return False
    return None


def is_err_tok(t):
    return isinstance(t, str) and t[:2] in ('e:', 'x:')


# ---------------------------------------------------------------------------- running

_p = [None]


def parser():
    if _p[0] is None:
        common.load_repo()
        import hotxlfp
        _p[0] = hotxlfp.Parser()
        _p[0].on('callCellValue', lambda cell, setter: setter(_cells.get(cell.label)))
    return _p[0]


_cells = {}


def direct(name, args):
    """call the registered function the way Parser.call_function does -> ('ok', v) | ('raise', tag)"""
    common.load_repo()
    from hotxlfp import formulas
    from hotxlfp.formulas import error
    fn = formulas.get_for(name)
    try:
        return ('ok', fn(*args))
    except Exception as e:
        return ('raise', fx.ERR_TAGS.get(str(error.from_message(e)), 'error'))


def run_formula(f, env):
    p = parser()
    saved = dict(p.variables)
    try:
        for k, v in env.items():
            p.set_variable(k, v)
        return p.parse(f)
    finally:
        p.variables.clear()
        p.variables.update(saved)


def forms(c):
    """the evaluations of a case: list of ('fn', NAME, [python args]) | ('formula', text, env)"""
    k = c['kind']
    out = []
    if k == 'arity':
        return [('fn', c['fn'], [val(t) for t in c['args']])]
    if k == 'pred1':
        return [('fn', c['fn'], [val(c['v'])])]
    if k == 'pred':
        # the value always travels as a variable (exact, whatever its type)
        v = val(c['v'])
        for n in PREDS:
            out.append(('fn', n, [v]))
        for n in PREDS:
            out.append(('formula', '%s(v)' % n, {'v': v}))
        # ... and as the value of a cell, answered by the host's listener (0, FALSE and empty text are values, not blanks); these
        # evaluations are judged by the oracle only
        for n in PREDS:
            out.append(('formula-cell', '%s(C3)' % n, {'C3': v}))
        return out
    # function + token arguments
    args = c['args']
    for name in c['fns']:
        if c['mode'] == 'fn':
            out.append(('fn', name, [val(t) for t in args]))
        elif c['mode'] == 'var':
            env = {}
            names = []
            for i, t in enumerate(args):
                if isinstance(t, list) or t == 'B' or is_err_tok(t):
                    env['arg' + chr(97 + i)] = val(t)      # (a name like a0 would be a cell reference)
                    names.append('arg' + chr(97 + i))
                else:
                    names.append(text(t, env))
            out.append(('formula', '%s(%s)' % (name, ','.join(names)), env))
        else:
            env = {}
            out.append(('formula', '%s(%s)' % (name, seq_text(args, env)), env))
    return out


def request(c):
    fs = forms(c)
    if len(fs) == 1 and fs[0][0] == 'fn':
        return 'fn %s %s' % (enc_str(fs[0][1]), ' '.join(fx.to_wire(a) for a in fs[0][2]))
    fs = [f for f in fs if f[0] == 'formula']
    if fs:
        env = {}
        for f in fs:
            env.update(f[2])
        return 'c04.batch ' + ' '.join(enc_str(f[1]) for f in fs) + ' ' + fx.env_wire(variables=env)
    return None


def impl(c):
    res = []
    for f in forms(c):
        if f[0] == 'fn':
            res.append((f[0], f[1], direct(f[1], f[2])))
        elif f[0] == 'formula-cell':
            _cells.clear()
            _cells.update(f[2])
            res.append((f[0], f[1], parser().parse(f[1])))
        else:
            res.append((f[0], f[1], run_formula(f[1], f[2])))
    return res


def agree(c, impl_ans, model_ans):
    m = fx.parse_sexp(model_ans)
    if len(impl_ans) == 1 and impl_ans[0][0] == 'fn':
        st, v = impl_ans[0][2]
        if isinstance(m, list) and m and m[0] == 'raise':
            return st == 'raise' and v == m[1]
        if st == 'raise':
            return False
        return fx.value_matches(m, v) is not False
    impl_ans = [a for a in impl_ans if a[0] == 'formula']
    if not isinstance(m, list) or len(m) != len(impl_ans):
        return False
    for (kind, f, rec), mm in zip(impl_ans, m):
        if fx.record_matches(mm[1], rec) is False:
            return False
    return True


# ---------------------------------------------------------------------------- oracle helpers

def outcome(ans):
    """one evaluation -> ('val', v) | ('err', tag)   (an error value, a raised error and parse's error field alike)"""
    common.load_repo()
    from hotxlfp.formulas import error
    kind, _, r = ans
    if kind == 'fn':
        st, v = r
        if st == 'raise':
            return ('err', v)
    else:
        if r['error'] is not None:
            return ('err', fx.ERR_TAGS.get(r['error'], '?' + str(r['error'])))
        v = r['result']
    if isinstance(v, error.XLError):
        return ('err', fx.ERR_TAGS.get(str(v), '?' + str(v)))
    return ('val', v)


def same(a, b):
    """same value of the same type (lists element-wise)"""
    if isinstance(a, list) or isinstance(b, list):
        return isinstance(a, list) and isinstance(b, list) and len(a) == len(b) and all(same(x, y) for x, y in zip(a, b))
    if type(a) is not type(b):
        return False
    if isinstance(a, float):
        return a == b and math.copysign(1, a) == math.copysign(1, b)
    return a == b


def expect(ans, exp, why):
    """exp: ('val', v) | ('err', tag)"""
    got = outcome(ans)
    if exp[0] != got[0] or (exp[0] == 'err' and exp[1] != got[1]) or (exp[0] == 'val' and not same(exp[1], got[1])):
        shown = CODES.get(exp[1], exp[1]) if exp[0] == 'err' else repr(exp[1])
        gshown = CODES.get(got[1], got[1]) if got[0] == 'err' else repr(got[1])
        return '%s -> %s; expected %s (%s)' % (describe(ans), gshown, shown, why)
    return None


def describe(ans):
    kind, f, r = ans
    if kind == 'fn':
        return 'direct call %s%s' % (f, '')
    return 'formula %r' % f


def tok_outcome(t):
    """the value a token denotes, as an outcome"""
    if is_err_tok(t):
        return ('err', t[2:] if t[:2] == 'e:' else {'1/0': 'div0', 'NA()': 'na'}[t[2:]])
    return ('val', val(t))


def kind_of(v):
    if isinstance(v, bool):
        return 'logical'
    if isinstance(v, (int, float)):
        return 'number'
    if isinstance(v, str):
        return 'text'
    if v is None:
        return 'blank'
    return 'other'


def stmt_equal(t, c):
    """the statement's "equal" between a target and a case: True / False / None (not judged)"""
    kt, kc = kind_of(t), kind_of(c)
    if 'other' in (kt, kc):
        return None
    if kt == kc:
        return t == c
    if 'blank' in (kt, kc):
        return None
    if {kt, kc} == {'logical', 'number'}:
        return None
    return False          # text against a number or a logical


def expected_tf(name, items):
    """items: flattened tokens -> outcome, or None when the statement does not decide"""
    for t in items:
        if is_err_tok(t):
            return tok_outcome(t)
    tv = [truth(val(t)) for t in items]
    if any(x is None for x in tv):
        return None
    if name == 'AND':
        return ('val', all(tv))
    if name == 'OR':
        return ('val', any(tv))
    if name == 'XOR':
        return ('val', sum(1 for x in tv if x) % 2 == 1)
    raise ValueError(name)


def expected(name, args):
    """-> (outcome | None, why)"""
    if name in ('AND', 'OR', 'XOR'):
        return expected_tf(name, my_flatten(args)), {'AND': 'conjunction', 'OR': 'disjunction', 'XOR': 'parity'}[name] + \
            ' of the truth values of the flattened items / the first error item'
    if name == 'NOT':
        (t,) = args
        if is_err_tok(t):
            return tok_outcome(t), 'an error as the tested condition'
        tv = truth(val(t))
        return (None if tv is None else ('val', not tv)), 'negation of the truth value'
    if name == 'IF':
        c, a, b = args
        if is_err_tok(c):
            return tok_outcome(c), 'an error as the tested condition'
        tv = truth(val(c))
        if tv is None:
            return None, ''
        return tok_outcome(a if tv else b), 'second argument when the condition is true, third when false'
    if name == 'IFS':
        for i in range(0, len(args) - 1, 2):
            c, v = args[i], args[i + 1]
            if is_err_tok(c):
                return tok_outcome(c), 'an error in a condition reached before any true condition'
            tv = truth(val(c))
            if tv is None:
                return None, ''
            if tv:
                return tok_outcome(v), 'the value paired with the first true condition'
        return ('err', 'na'), 'no condition is true'
    if name == 'SWITCH':
        t, rest = args[0], args[1:]
        if is_err_tok(t):
            return tok_outcome(t), 'an error as the tested target'
        if len(rest) < 2:
            return None, ''
        npairs = len(rest) // 2
        for i in range(npairs):
            c, r = rest[2 * i], rest[2 * i + 1]
            if is_err_tok(c):
                continue      # an error case never equals a non-error target
            eq = stmt_equal(val(t), val(c))
            if eq is None:
                return None, ''
            if eq:
                return tok_outcome(r), 'the result paired with the first case equal to the target'
        if len(rest) % 2 == 1:
            return tok_outcome(rest[-1]), 'no case equals the target: the default'
        return ('err', 'na'), 'no case equals the target and there is no default'
    raise ValueError(name)


PREDS = ['ISNUMBER', 'ISTEXT', 'ISLOGICAL', 'ISBLANK', 'ISERROR', 'ISERR', 'ISNA', 'ISNONTEXT', 'ISEVEN', 'ISODD']
FIVE = {'ISNUMBER': 'number', 'ISTEXT': 'text', 'ISLOGICAL': 'logical', 'ISBLANK': 'blank', 'ISERROR': 'error'}


def trunc_exact(x):
    q = Fraction(x)
    n, d = q.numerator, q.denominator
    return n // d if n >= 0 else -((-n) // d)


def oracle_pred(c, impl_ans):
    tok = c['v']
    v = val(tok)
    k = 'error' if is_err_tok(tok) else kind_of(v)
    groups = [impl_ans[i:i + len(PREDS)] for i in range(0, len(impl_ans), len(PREDS))]
    for g in groups:
        res = dict((a[1] if a[0] == 'fn' else a[1].split('(')[0], a) for a in g)
        out = dict((n, outcome(a)) for n, a in res.items())

        def bad(n, why):
            o = out[n]
            return '%s on %s -> %s; %s' % (describe(res[n]) if res[n][0] != 'fn' else 'direct call ' + n, describe_val(tok),
                                            CODES.get(o[1], o[1]) if o[0] == 'err' else repr(o[1]), why)
        # the five classifiers answer a logical, TRUE exactly on their kind
        for n, kk in FIVE.items():
            want = (k == kk)
            if out[n] != ('val', want) or type(out[n][1]) is not bool:
                return bad(n, 'expected %s: the value is %s' % (str(want).upper(), 'a ' + k if k != 'other' else 'a date/list/foreign object'))
        if k in FIVE.values():
            if sum(1 for n in FIVE if out[n] == ('val', True)) != 1:
                return bad('ISNUMBER', 'exactly one of the five predicates must be TRUE')
        # ISNONTEXT = not ISTEXT
        if out['ISNONTEXT'][0] != 'val' or type(out['ISNONTEXT'][1]) is not bool or out['ISNONTEXT'][1] != (not out['ISTEXT'][1]):
            return bad('ISNONTEXT', 'expected the negation of ISTEXT = %r' % (out['ISTEXT'][1],))
        # ISERROR = ISERR or ISNA
        for n in ('ISERR', 'ISNA'):
            if out[n][0] != 'val' or type(out[n][1]) is not bool:
                return bad(n, 'expected a logical')
        if out['ISERROR'][1] != (out['ISERR'][1] or out['ISNA'][1]):
            return bad('ISERROR', 'expected ISERR or ISNA = %r or %r' % (out['ISERR'][1], out['ISNA'][1]))
        if out['ISNA'][1] != (k == 'error' and tok_outcome(tok)[1] == 'na'):
            return bad('ISNA', 'ISNA is TRUE exactly on #N/A')
        if out['ISERR'][1] != (k == 'error' and tok_outcome(tok)[1] != 'na'):
            return bad('ISERR', 'ISERR is TRUE exactly on the error values other than #N/A')
        # parity
        if k == 'number':
            t = trunc_exact(v)
            if out['ISEVEN'] != ('val', t % 2 == 0) or type(out['ISEVEN'][1]) is not bool:
                return bad('ISEVEN', 'the integer part is %d' % t)
            o = out['ISODD']
            if o[0] != 'val' or not isinstance(o[1], (bool, int)) or bool(o[1]) != (t % 2 == 1):
                return bad('ISODD', 'the integer part is %d' % t)
            if bool(o[1]) != (not out['ISEVEN'][1]):
                return bad('ISODD', 'ISODD and ISEVEN must be complementary')
        elif k in ('text', 'blank', 'other'):
            for n in ('ISEVEN', 'ISODD'):
                if out[n] != ('err', 'value'):
                    return bad(n, 'expected #VALUE! for a non-number')
        elif k == 'logical':
            # whether a logical counts as 1/0 or as a non-number is not judged - but the two answer alike: both a parity
            # (complementary) or both an error
            e, o = out['ISEVEN'], out['ISODD']
            if (e[0] == 'val') != (o[0] == 'val'):
                return bad('ISEVEN' if e[0] != 'val' else 'ISODD', 'ISEVEN and ISODD must be complementary: the other one answers %r' % (
                    (o if e[0] != 'val' else e)[1],))
            if e[0] == 'val' and bool(o[1]) != (not e[1]):
                return bad('ISODD', 'ISODD and ISEVEN must be complementary')
    return None


def describe_val(tok):
    if is_err_tok(tok):
        return CODES[tok_outcome(tok)[1]]
    return repr(val(tok))


def oracle(c, impl_ans):
    k = c['kind']
    if k in ('arity', 'pred1'):
        return None
    if k == 'pred':
        return oracle_pred(c, impl_ans)
    args = c['args']
    for name, ans in zip(c['fns'], impl_ans):
        exp, why = expected(name, args)
        if exp is None:
            continue
        msg = expect(ans, exp, why)
        if msg:
            return '%s%s: %s' % (name, show_args(args), msg)
    return None


def show_args(args):
    def sh(t):
        if isinstance(t, list):
            return '{' + ','.join(sh(x) for x in t) + '}'
        if is_err_tok(t):
            return CODES[tok_outcome(t)[1]] if t[:2] == 'e:' else t[2:]
        if t == 'B':
            return 'blank'
        return repr(val(t)) if t[:2] == 's:' else {'T': 'TRUE', 'F': 'FALSE'}.get(t, t if ':' not in t else repr(val(t)))
    return '(' + ', '.join(sh(t) for t in args) + ')'


def nontrivial(c, impl_ans):
    k = c['kind']
    if k in ('arity', 'pred1'):
        return False
    if k == 'pred':
        return True
    return any(expected(n, c['args'])[0] is not None for n in c['fns'])


# ---------------------------------------------------------------------------- generation

def regroup(rng, items, depth):
    """a random grouping of the item sequence into arguments / nested arrays (depth <= `depth`) with the same flattening"""
    if depth <= 0 or len(items) == 0:
        return list(items)
    out = []
    i = 0
    while i < len(items):
        if rng.random() < 0.45:
            n = rng.randrange(1, len(items) - i + 1)
            out.append(regroup(rng, items[i:i + n], depth - 1))
            i += n
        else:
            out.append(items[i])
            i += 1
    return out


def max_depth(t):
    return 1 + max([max_depth(x) for x in t] + [0]) if isinstance(t, list) else 0


TF = ['AND', 'OR', 'XOR']
EXTRA = ['-0.0', '2.5', '7', 'i:-1000000007', 'f:-1/1024', 'f:1/1073741824', 'i:36893488147419103232']   # other numbers, now and then
VALUE_POOL = ['i:101', 'i:102', 's:yes', 's:no', 'T', 'F', 'B', '0.5', 'e:ref', 's:', ['1', '2']]
SW_NUM = ['0', '1', '2', '-2', '0.5', '1.0', '2.5', '0.0']
SW_TXT = ['s:a', 's:A', 's:b', 's:', 's:1', 's:TRUE']
SW_LOG = ['T', 'F']
PRED_POOL = (['0', '1', '-2', '7', 'i:-7', 'i:1000000007', 'i:-36893488147419103232', '0.5', '0.0', '-0.0', '2.5', 'f:-5/2', 'f:-7/4',
              'f:9007199254740993/1', 'f:-1/1024', 'T', 'F', 's:', 's:a', 's:1', 's:TRUE', 's:#N/A', 's: ', 's:1.5', 'B']
             + ['e:' + t for t in TAGS] + ['d:0', 'd:-40000', 'd:366', ['1'], [], ['s:a', ['B']], 'o:obj', 'o:inst', 'o:dict', 'o:bytes',
                                           'o:set'])


def tf_cases(rng, thorough, scale):
    out = []
    # complete: every tuple of length 1..3 (thorough: 1..4) as separate arguments (direct calls only)
    for n in ((1, 2, 3, 4) if thorough else (1, 2, 3)):
        for tup in itertools.product(POOL, repeat=n):
            out.append({'kind': 'tf', 'fns': TF, 'mode': 'fn1', 'args': list(tup)})
    # every tuple of length 1..2 (quick) / 1..3 (thorough) nested in one array literal and one list variable
    for n in ((1, 2, 3) if thorough else (1, 2)):
        for tup in itertools.product(POOL, repeat=n):
            out.append({'kind': 'tf', 'fns': TF, 'mode': 'lit', 'args': [list(tup)]})
            out.append({'kind': 'tf', 'fns': TF, 'mode': 'var', 'args': [list(tup)]})
    # seeded tuples up to length 6, flat and regrouped
    for _ in range((12000 if thorough else 700) * scale):
        n = rng.randrange(1, 7)
        items = [rng.choice(POOL) if rng.random() < 0.88 else rng.choice(EXTRA) for _ in range(n)]
        if rng.random() < 0.3:     # bias towards "all true" / "all false" tuples: the interesting rows of the truth table
            pool = rng.choice([['T', '1', '-2', '0.5'], ['F', '0', '0.0', 'B']])
            items = [rng.choice(pool) for _ in range(n)]
            if rng.random() < 0.5:
                items[rng.randrange(n)] = rng.choice(POOL)
        shape = regroup(rng, items, 3)
        for mode in ('fn1', 'lit', 'var'):
            out.append({'kind': 'tf', 'fns': TF, 'mode': mode, 'args': shape})
        out.append({'kind': 'tf', 'fns': TF, 'mode': 'fn1', 'args': items})
    for t in POOL:
        for mode in ('fn1', 'lit', 'var'):
            out.append({'kind': 'not', 'fns': ['NOT'], 'mode': mode, 'args': [t]})
    return out


def branch_cases(rng, thorough, scale):
    out = []
    for c in POOL:
        for a, b in (('i:101', 'i:102'), ('s:yes', 's:no'), ('B', 'T'), ('e:ref', '0.5'), (['1', '2'], 's:')):
            for mode in ('fn1', 'lit'):
                out.append({'kind': 'if', 'fns': ['IF'], 'mode': mode, 'args': [c, a, b]})
    for _ in range((8000 if thorough else 500) * scale):
        npairs = rng.randrange(1, 5)
        args = []
        for i in range(npairs):
            c = rng.choice(POOL if rng.random() < 0.5 else ['F', '0', '0.0', 'B'])
            args += [c, rng.choice(['i:%d' % (200 + i), 's:v%d' % i, rng.choice(VALUE_POOL)])]
        if rng.random() < 0.1 and len(args) < 8:
            args.append('i:999')       # trailing unpaired argument
        out.append({'kind': 'ifs', 'fns': ['IFS'], 'mode': rng.choice(['fn1', 'lit', 'var']), 'args': args})
    for _ in range((12000 if thorough else 700) * scale):
        fam = rng.choice([SW_NUM, SW_NUM, SW_TXT, SW_LOG, SW_NUM + SW_TXT, SW_TXT + SW_LOG, SW_NUM + SW_TXT + SW_LOG + ['B']])
        t = rng.choice(fam)
        npairs = rng.randrange(0, 5)
        args = [t]
        for i in range(npairs):
            args += [rng.choice(fam), rng.choice(['i:%d' % (300 + i), 's:r%d' % i, rng.choice(VALUE_POOL)])]
        if rng.random() < 0.5 and len(args) < 9:
            # the default; sometimes equal to the target (the repaired SWITCH(1,2,3,1))
            args.append(t if rng.random() < 0.3 else rng.choice(['i:888', 's:dflt', rng.choice(fam)]))
        out.append({'kind': 'switch', 'fns': ['SWITCH'], 'mode': rng.choice(['fn1', 'lit', 'var']), 'args': args})
    for args in (['1', '2', 'i:3', '1'], ['s:a', 's:b', '1', 's:a'], ['T', 'F', '0', 'T'], ['1'], ['1', '1'], ['1', '1', 'i:5'],
                 ['1.0', '1', 'i:5'], ['s:a', 's:A', 'i:1', 's:a', 'i:2'], ['2', '1', 'i:5', '2', 'i:6', '2', 'i:7', 'i:8']):
        for mode in ('fn1', 'lit'):
            out.append({'kind': 'switch', 'fns': ['SWITCH'], 'mode': mode, 'args': args})
    return out


def error_cases(rng, thorough, scale):
    out = []
    errs = ['e:' + t for t in TAGS] + ['x:1/0', 'x:NA()']

    def modes(e):
        # error-producing expressions exist as formula text only; error-valued variables also as direct calls
        return ('lit',) if e[:2] == 'x:' else ('fn1', 'lit', 'var')
    for e in errs:
        for mode in modes(e):
            out.append({'kind': 'err', 'fns': TF + ['NOT'], 'mode': mode, 'args': [e]})
            out.append({'kind': 'err', 'fns': ['IF'], 'mode': mode, 'args': [e, 'i:1', 'i:2']})
            out.append({'kind': 'err', 'fns': ['IFS'], 'mode': mode, 'args': [e, 'i:1']})
            out.append({'kind': 'err', 'fns': ['SWITCH'], 'mode': mode, 'args': [e, 'i:1', 'i:2']})
            out.append({'kind': 'err', 'fns': ['SWITCH'], 'mode': mode, 'args': [e, e, 'i:2', 'i:3']})
            out.append({'kind': 'err', 'fns': ['SWITCH'], 'mode': mode, 'args': [e]})
            # every position of every tuple of length 2..3 over {TRUE, FALSE}: an error wins over a deciding FALSE / TRUE
            for n in (2, 3):
                for pos in range(n):
                    for others in itertools.product(['T', 'F'], repeat=n - 1):
                        tup = list(others[:pos]) + [e] + list(others[pos:])
                        out.append({'kind': 'err', 'fns': TF, 'mode': mode, 'args': tup})
            # IFS: error at condition position k, the earlier conditions false (reached) or one of them true (not reached)
            for k in range(0, 4):
                for true_at in [None] + list(range(k)):
                    args = []
                    for i in range(k):
                        args += ['T' if i == true_at else rng.choice(['F', '0', 'B', '0.0']), 'i:%d' % (200 + i)]
                    args += [e, 'i:%d' % (200 + k)]
                    if len(args) < 8:
                        args += ['T', 'i:777']
                    out.append({'kind': 'err', 'fns': ['IFS'], 'mode': mode, 'args': args})
    for _ in range((8000 if thorough else 500) * scale):
        n = rng.randrange(1, 7)
        items = [rng.choice(POOL) for _ in range(n)]
        used = []
        for _k in range(rng.choice([1, 1, 2])):
            e = rng.choice(errs)
            used.append(e)
            items[rng.randrange(n)] = e
        shape = regroup(rng, items, 3) if rng.random() < 0.7 else items
        ms = ('lit',) if any(e[:2] == 'x:' for e in used) else ('fn1', 'lit', 'var')
        out.append({'kind': 'err', 'fns': TF, 'mode': rng.choice(ms), 'args': shape})
    return out


def pred_cases(rng, thorough, scale):
    out = []
    for t in PRED_POOL:
        out.append({'kind': 'pred', 'v': t, 'direct': True})
    # parity: a grid of ints and dyadic floats of both signs, and seeded large values
    for i in range(-12, 13):
        out.append({'kind': 'pred', 'v': 'i:%d' % i})
    for k in range(-48, 49):
        out.append({'kind': 'pred', 'v': 'f:%d/8' % k})
    for _ in range((6000 if thorough else 300) * scale):
        r = rng.random()
        if r < 0.3:
            tok = 'i:%d' % rng.randrange(-10 ** 20, 10 ** 20)
        elif r < 0.6:
            tok = 'f:%d/%d' % (rng.randrange(-2 ** 40, 2 ** 40), 2 ** rng.randrange(0, 30))
        elif r < 0.8:
            tok = 'f:%d/1' % (rng.randrange(-2 ** 52, 2 ** 52) * 2 ** rng.randrange(0, 200))
        else:
            tok = 'f:%d/%d' % (rng.choice([-1, 1]) * (2 * rng.randrange(0, 2 ** 20) + 1), 2 ** rng.randrange(1, 60))
        out.append({'kind': 'pred', 'v': tok, 'direct': rng.random() < 0.3})
    return out


def arity_cases():
    out = []
    for fn, argss in (('NOT', [[], ['1', '0']]), ('IF', [[], ['1'], ['1', '2'], ['1', '2', '7', '0']]), ('IFS', [[], ['1']]),
                      ('SWITCH', [[]]), ('AND', [[]]), ('OR', [[]]), ('XOR', [[]]), ('TRUE', [[], ['1']]), ('FALSE', [[], ['1']]),
                      ('NA', [[], ['1']])):
        for a in argss:
            out.append({'kind': 'arity', 'fn': fn, 'args': a})
    for fn in PREDS:
        out.append({'kind': 'arity', 'fn': fn, 'args': []})
        out.append({'kind': 'arity', 'fn': fn, 'args': ['1', '2']})
    # the other functions of the two model files (correspondence only; IFERROR/IFNA/ERROR.TYPE are C08's subject)
    for t in PRED_POOL:
        for fn in ('N', 'T', 'ERROR.TYPE'):
            if not (fn == 'ERROR.TYPE' and t == 'o:dict'):      # hashing of foreign objects is not modelled
                out.append({'kind': 'arity', 'fn': fn, 'args': [t]})
        for fn in ('IFERROR', 'IFNA'):
            out.append({'kind': 'arity', 'fn': fn, 'args': [t, 'i:777']})
    for fn, argss in (('N', [[], ['1', '2']]), ('T', [[], ['1', '2']]), ('ERROR.TYPE', [[]]), ('IFERROR', [['1']]), ('IFNA', [['1']])):
        for a in argss:
            out.append({'kind': 'arity', 'fn': fn, 'args': a})
    return out


def expand(cases_):
    """a direct-call case with several functions becomes one case per function (one `fn` request each)"""
    out = []
    for c in cases_:
        if c.get('mode') == 'fn1':
            for n in c['fns']:
                d = dict(c)
                d['fns'] = [n]
                d['mode'] = 'fn'
                out.append(d)
        elif c['kind'] == 'pred':
            # the model is compared on the ten formulas of the case, and per predicate on the direct call
            out.append(c)
            if c.get('direct', False):
                for n in PREDS:
                    out.append({'kind': 'pred1', 'fn': n, 'v': c['v']})
        else:
            out.append(c)
    return out


def cases(rng, ctx):
    thorough = ctx['tier'] == 'thorough'
    scale = ctx['scale']
    out = []
    out += tf_cases(rng, thorough, scale)
    out += branch_cases(rng, thorough, scale)
    out += error_cases(rng, thorough, scale)
    out += pred_cases(rng, thorough, scale)
    out += arity_cases()
    return expand(out)


def search(rng, ctx, disagreements):
    c2 = dict(ctx)
    c2['scale'] = 6
    return cases(rng, c2)


def shrink(case, msg):
    """drop arguments / array items while the oracle still fails"""
    if case['kind'] in ('pred', 'pred1', 'arity'):
        return case, msg

    def fails(c):
        try:
            return oracle(c, impl(c))
        except Exception:
            return None
    cur, curmsg = case, msg
    changed = True
    while changed:
        changed = False
        for cand in shrink_candidates(cur):
            m = fails(cand)
            if m:
                cur, curmsg, changed = cand, m, True
                break
    return cur, curmsg


def shrink_candidates(c):
    args = c['args']
    step = 2 if c['kind'] in ('ifs', 'switch') or c['fns'][0] in ('IFS', 'SWITCH') else 1
    if c['fns'][0] in ('IF', 'NOT'):
        return
    start = 1 if c['fns'][0] == 'SWITCH' else 0
    for i in range(start, len(args) - step + 1):
        d = dict(c)
        d['args'] = args[:i] + args[i + step:]
        if d['args']:
            yield d
    for i, a in enumerate(args):
        if isinstance(a, list):
            d = dict(c)
            d['args'] = args[:i] + a + args[i + 1:]
            yield d
    if len(c['fns']) > 1:
        for n in c['fns']:
            d = dict(c)
            d['fns'] = [n]
            yield d
