# -*- coding: utf-8 -*-
"""C15 - text functions satisfy the string algebra they document

case kinds (all but codechar_range are also compared with the Lean model; `fn` and the cases the oracle skips only with it):
  slice           LEFT / RIGHT / MID / LEN of a string variable with a count n and a start st, MID(s,1,n) = LEFT(s,n),
                  LEFT(s,n)&RIGHT(s,LEN(s)-n) = s
  lenconcat       LEN(a&b) = LEN(a)+LEN(b)
  case            UPPER / LOWER / PROPER / TRIM / CLEAN and their squares
  codechar        CODE(CHAR(n)) = n through a formula
  codechar_range  CODE(CHAR(n)) = n by direct calls over a range of code points (thorough, oracle only)
  join            CONCATENATE / CONCAT / TEXTJOIN / & over item lists with blanks, nested lists, integers
  subst           SUBSTITUTE with and without an instance number
  fn              direct calls of the registered functions with arguments of every kind (model comparison only)
A formula-level case (slice, lenconcat, case, join, subst) with key `lit` takes the literal route: its texts are written into
the formulas as quoted literals instead of being read from variables (see setup / quoted); the records stay filed under the
formula as written with variables, so the same oracle reads them.  LOOKALIKES = texts that look like something else (error
codes, doubled and lone quote characters, TRUE, 1e3, =1+1) and are texts all the same.
A formula-level case with key `via` takes another route for its values: `cell` - every variable of the case is written as a
cell A1, B1, .. (the variable names in sorted order) whose value the host's callCellValue listener answers; `nest` (not join) -
every text variable that quoted() can write is taken off the parser and resolved by a callVariable listener that evaluates
the quoted literal ON THE SAME PARSER in the middle of the evaluation that asked for it.  The model request of a via case is
that of the case without the key.
"""
import re
import string

from .. import common, fx
from ..common import enc_str

ID = 'C15'
LEAN_MODULES = ['HotXL.Props.C15']
FUNCTIONS = ['hotxlfp.formulas.text:CHAR', 'hotxlfp.formulas.text:CODE', 'hotxlfp.formulas.text:CLEAN',
             'hotxlfp.formulas.text:CONCATENATE', 'hotxlfp.formulas.text:LEN', 'hotxlfp.formulas.text:LOWER',
             'hotxlfp.formulas.text:UPPER', 'hotxlfp.formulas.text:PROPER', 'hotxlfp.formulas.text:SUBSTITUTE',
             'hotxlfp.formulas.text:TEXTJOIN', 'hotxlfp.formulas.text:LEFT', 'hotxlfp.formulas.text:RIGHT',
             'hotxlfp.formulas.text:MID', 'hotxlfp.formulas.text:TRIM', 'hotxlfp.formulas.utils:iflatten',
             'hotxlfp.formulas.utils:parse_number', 'hotxlfp.helper.number:to_number',
             'hotxlfp.grammarparser.parser:FormulaParser.p_expression_arithmetic_operator']
RULE = ('text: seeded strings of length 0..60 (6 % empty, 6 % one character, 4 % of length 60, 44 % of length 2..11, the '
        'other 40 % uniform in 0..60) drawn with one of 7 weight profiles from ASCII letters, digits, the 32 punctuation characters, spaces (40 % of them as runs of '
        '1..3), the 33 control characters (0..31, 127), 393 accented Latin letters (U+00C0..U+024F whose upper/lower/title '
        'mappings are one-to-one and agree with case folding) and 131 CJK/kana/Hangul characters (2 outside the BMP), handed to '
        'the formulas as VARIABLES of one shared hotxlfp.Parser; 4 % of the draws of gen_str without a given profile and with a '
        'maximal length >= 14 are instead one of the 29 LOOKALIKES (the error codes #N/A #REF! #VALUE! #DIV/0! #NAME? #NULL! #NUM! '
        '#ERROR! #GETTING_DATA as text, #n/a, #ref!, "#N/A here", "#VALUE! here", #, doubled and lone quote characters - a""b, "", '
        'say ""hi"", x"", it\'\'s, \'\', one ", one \', a"b, a\'b -, TRUE, FALSE, 1e3, 007, =1+1). Route lit: every case at an index '
        'divisible by 7 of the list built so far (all kinds, in the order of generation) that is a slice, lenconcat, case, join or subst case is '
        'given once more with key lit, + 4 fixed cases per lookalike (116: case of it as literal and as variable, lenconcat of it '
        'and "y" as literals, slice of it with n = its length, st = 1 as variable): in a lit case every text value of the case that quoted() can '
        'write - no backslash, and not both quote characters; delimited by " unless it contains one, then by \' - replaces its '
        'variable name (whole words, one regular-expression pass) in every formula; numbers, blanks, lists and the texts that cannot be written stay variables '
        '(all variables are set as well); the model request carries the formulas as written with literals; the records are filed '
        'under the formulas as written with variables and judged by the same oracle, whose message then also lists the literal '
        'formulas. Route cell (key via = cell): every case at an index divisible by 11 of that same list that is a slice, lenconcat, case, '
        'join or subst case is given once more; the variable names of the case, sorted, are mapped to the cells A1, B1, .. L1 and written '
        'in place of the names (whole words, not followed by `(`, one regular-expression pass) in every formula; the one '
        'callCellValue listener of the shared parser answers setter(value) from a table filled per case with the Python values '
        '(texts, numbers, blanks, lists alike; any other label: None), the variables are set as well. Route nest (key via = nest): every case at an index '
        'divisible by 13 that is a slice, lenconcat, case or subst case (not join) is given once more; the formulas stay as written '
        'with variables, but every variable whose value is a text that quoted() can write is removed from Parser.variables and '
        'resolved by the parser\'s callVariable listener, which evaluates the quoted literal with parse() ON THE SAME PARSER while the '
        'outer evaluation is in progress and hands the inner result to its setter; the other variables are set as usual. + 30 fixed '
        'via cases: for each of the texts "", "abc", " a " and each of the two routes slice with n = 0, 1, 3 (st = 1), '
        'SUBSTITUTE("a-b-c","-",text) and lenconcat of the text and "xy". The records are filed under the formulas as written with '
        'variables and judged by the same oracle (its message then names the route); the model request is that of the case without '
        'the key via - the model sees the values as variables whatever the route. Counts below: quick (thorough), each multiplied by scale. '
        'slice [LEFT(s,n), RIGHT(s,n), MID(s,st,n), MID(s,1,n), LEFT(s,n)&RIGHT(s,LEN(s)-n), LEN(s), LEFT(s), RIGHT(s)]: 9 fixed; '
        '80 (3000) strings with every count 0..len+5 and -1, -2, -len, -len-1, -1000, st seeded in 1..len+2; 1500 (12000) '
        'strings with up to 3 counts (seeded in 0..len+5, one of 0/1/len-1/len/len+1, a negative one down to -len-2) and st '
        'among 1, 2, len, len+1, len+2, seeded, 0, -1. '
        'lenconcat [LEN(a&b), LEN(a)+LEN(b), a&b, LEN(a), LEN(b)]: 500 (8000) + 1 fixed, each side blank in 5 %. '
        'case [UPPER/LOWER/PROPER/TRIM/CLEAN and their squares]: 1500 (30000) + 8 fixed. '
        'codechar [CODE(CHAR(n)), CHAR(n)]: 19 boundaries (1..0x10FFFF; 0: model comparison only) + 300 (20000) seeded scalar '
        'values, a third each below 0x300, below 0xD800, in 0xE000..0x10FFFF. codechar_range (thorough only, oracle only): '
        'CODE(CHAR(n)) called directly for every scalar value 1..0x10FFFF, surrogates skipped, in 68 ranges of 0x4000. '
        'join [CONCATENATE, CONCAT, TEXTJOIN(d,TRUE,..), TEXTJOIN(d,FALSE,..), xa&xb]: 1000 (20000) + 2 fixed lists of 0..5 items: '
        'blank 20 %, nested list of 0..3 items (depth <= 2) 20 %, empty string, text of length <= 6, in 30 % of the lists also '
        'integers from a pool of 8 (negative, 10^6, a 20-digit one); delimiter "," ", " "" " " "--" or seeded of length <= 3. '
        'subst [SUBSTITUTE(s,o,w) or SUBSTITUTE(s,o,w,k)]: 2500 (50000) + 4 fixed; old text of 1..5 characters planted 0..6 times '
        'between pieces of length <= 8, near misses (old text without its last / first character) next to them, string cut at '
        '60 and empty in 8 %; new text empty 30 %, old+old 10 %, reversed old 10 %, else seeded of length <= 6; instance number '
        'in 55 % (1..4, the planted count +0/+1/+2, 7, 50); 15 % self-overlapping old texts and 4 % empty ones (about 18 % of the '
        'cases: model comparison only). '
        'fn (model comparison only) - direct calls of the registered functions with Python values: 159 fixed argument lists '
        '(floats, numeric text, logicals, blanks, #N/A, lists, missing and surplus arguments, 10^30), CHAR of 6 out-of-range / '
        'surrogate numbers, 1500 (12000) seeded calls of 19 names (LEFTB, RIGHTB, MIDB, LENB, CONCAT included) with an argument '
        'count the signature admits (at most 5) from a pool of 20 values (5 texts, 5 integers, 4 floats, TRUE, FALSE, blank, '
        '#N/A, ["a", blank], []). '
        'Every kind but codechar_range is compared with the model, formula by formula (result/error records, exact in type; the '
        'parse trees are ignored; a model answer "no opinion" accepts anything). The oracle judges neither fn, MID(s,st,n) with '
        'st < 1, CHAR(0), subst with an empty or self-overlapping old text, TEXTJOIN over lists holding integers, nor the '
        'auxiliary formulas LEN(s), LEFT(s), RIGHT(s), a&b, LEN(a), LEN(b), CHAR(n), xa&xb. Quick at scale 1: about 17700 cases, about 1770 of them by the literal route, about 1100 by the cell route and about 860 by the nested route '
        '(slice about 8500, subst about 3290, fn 1665, case about 2030, join about 1240, lenconcat about 690, codechar 319). Non-trivial = slice: '
        'len(s) >= 2; lenconcat: both sides non-empty; case: some function changes the string; codechar: n > 127; '
        'codechar_range: always (counts once per range); join: >= 2 non-blank items and a blank or a nested list; subst: '
        'non-empty old text occurring in the string; fn: at least one argument. When a proof or the correspondence broke: the '
        'whole generator again at scale 6 on the same tier without the fn cases, oracle only, up to the first failure. A failing '
        'case is shrunk by dropping single characters of its text fields (s, a, b, old, new, d) as long as the oracle still '
        'complains about the re-evaluated case. No time or step budget.')
TRUSTED = ['Python str methods (slicing, replace, join, upper/lower/title, strip), re.sub, chr/ord: modelled on List Char; '
           'case mapping modelled for ASCII only (CaseMap.ascii), non-ASCII case mapping is checked by the oracle only',
           'str() of integers, logicals and blanks is modelled; str() of floats, dates and lists is not (the model answers '
           '"no opinion", which is never compared), nor are CHAR of a surrogate code point and SUBSTITUTE on lists / dates',
           'the oracle is written with Python slicing, str.split/join/replace, str.casefold and ord on the same interpreter: '
           'case folding of non-ASCII letters is the Unicode table of the running CPython',
           'formula-level cases go through lexer, grammar, evaluator and set_variable of one hotxlfp.Parser shared by the whole '
           'run (variables overwritten per case); an exception inside a function reaches the oracle as the #ERROR! record of '
           'parse()',
           'route lit: quoted() / setup() of the harness write a text as a literal delimited by a quote character it does not '
           'contain (texts with a backslash - the lexer\'s escape, C05\'s matter - or with both quote characters are left in their '
           'variables, so is everything that is not text) and put it in place of the variable name by one re.sub over the '
           'formula written with variables (names as whole words, not followed by `(`; an inserted literal is not scanned again); '
           'control characters, line feeds and non-ASCII characters are written into the literal as they are',
           'routes cell and nest: the shared parser carries one callCellValue listener (answers from the table _cellvals, cleared and '
           'filled by impl() before every formula-level case, whatever its route) and one callVariable listener (acts only on the '
           'names in _nestvals, i.e. during a nest case; for every other name it sets nothing); the rewriting of names into cell '
           'labels is one re.sub as for route lit (CELL_NAMES holds 12 labels, A1..L1); in a nest case the inner evaluation is '
           'Parser.parse of a quoted literal, whose result is trusted to be the text (C05) - texts quoted() cannot write stay '
           'ordinary variables; the model has neither route and answers for the variable formulas',
           'fn cases: any Python exception of a direct call counts as the error its message names, else #ERROR!, and must be the '
           'error the model raises; a returned value must match the model value exactly in type (floats within 4 ulp)']
ASSUMPTIONS = ['"leading/trailing/inner characters" are those Python slicing s[:n], s[len-n:], s[st-1:st-1+n] designates '
               '(characters = Unicode code points); results are text (str), a count >= len gives the whole string, RIGHT(s,0) '
               'is ""',
               'a negative count gives #VALUE! (LEFT, RIGHT, MID with start >= 1); MID(s,1,n) and LEFT(s,n) must be the same '
               'record for every n; LEFT(s,n)&RIGHT(s,LEN(s)-n) = s is required for 0 <= n <= len only',
               'LEN(a&b) = LEN(a)+LEN(b) with both sides integers and no error, blank operands included; that LEN is the number '
               'of code points is checked through the model and the LEFT&RIGHT identity only',
               '"change only letter case": the result equals the input up to Unicode case folding, position by position; on '
               'ASCII letters UPPER/LOWER/PROPER are also required to produce the documented case (PROPER: upper after a '
               'non-letter, lower after a letter; after a non-ASCII character either case is accepted); ASCII non-letters stay '
               'as they are; letters whose case mapping changes the length or disagrees with case folding (ß, ı, ŉ …) are '
               'outside the generated alphabet',
               'UPPER/LOWER/PROPER/TRIM/CLEAN give text without error and are idempotent (f(f(s)) is the same record as f(s))',
               '"surplus spaces" = leading, trailing and repeated U+0020; TRIM(s) must equal the space-separated words of s '
               'joined by single spaces (tabs, line feeds and other white space are ordinary characters)',
               'CLEAN removes exactly the code points 0..31; every other character stays, U+007F too',
               'CODE(CHAR(n)) = n as an integer for every Unicode scalar value n >= 1; CHAR(0) is compared with the model only',
               'a "blank" item is an empty cell (None); an empty string item is an item (TEXTJOIN(",",TRUE,"a","","b") = "a,,b"); '
               'TEXTJOIN(d,FALSE,..) keeps a blank as an empty item; nested lists count as their items in order; CONCAT is '
               'CONCATENATE',
               'numbers among the items of TEXTJOIN are outside the statement (the code answers #ERROR!): compared with the '
               'model only; integers among the items of CONCATENATE are rendered in decimal',
               'SUBSTITUTE without instance number replaces every occurrence, left to right, without re-scanning the new text; '
               'with instance number k >= 1 only the k-th occurrence, and nothing when there are fewer than k',
               'MID with start < 1 and SUBSTITUTE with an empty or self-overlapping old text are outside the statement: '
               'compared with the model only',
               'lone surrogates (0xD800..0xDFFF) are Python characters but not Unicode scalar values: excluded',
               'a text is a text whatever it spells and however it arrives: one that spells an error code, a logical, a number or '
               'a formula (LOOKALIKES) is subject to the same identities as any other, and a text written into the formula as a '
               'quoted literal is the same text as that value held by a variable - between delimiters of one kind the other quote '
               'character, doubled or alone, is an ordinary character',
               'the identities are about the text VALUE whatever its route: a text (the empty one and one with blanks at its ends '
               'included) answered by the host\'s cell listener, or handed over by a callVariable listener that obtained it from a '
               'nested evaluation on the same parser, is the same operand as that text held by a variable - an empty text answered '
               'for a cell is an empty text, not a blank']
EXHAUSTIVE = {'quick': False, 'thorough': False}

ASCII_L = string.ascii_letters
DIGITS = string.digits
PUNCT = string.punctuation
CONTROLS = ''.join(chr(i) for i in range(32)) + chr(127)


def _safe_case(c):
    f = c.casefold()
    return (len(c.upper()) == len(c.lower()) == len(c.title()) == len(f) == 1 and
            c.upper().casefold() == f and c.lower().casefold() == f and c.title().casefold() == f)


ACCENTED = ''.join(chr(i) for i in range(0xC0, 0x250) if chr(i).isalpha() and _safe_case(chr(i)))
CJK = ''.join(chr(i) for i in list(range(0x4E00, 0x4E40)) + list(range(0x3041, 0x3060)) + list(range(0x30A1, 0x30C0)) +
              [0x9FA5, 0xAC00, 0xD7A3, 0x20000, 0x2A6D6])
ALPHABETS = [ASCII_L, DIGITS, PUNCT, ' ', CONTROLS, ACCENTED, CJK]

TAB_UP = dict(zip(string.ascii_lowercase, string.ascii_uppercase))
TAB_LO = dict(zip(string.ascii_uppercase, string.ascii_lowercase))


# --------------------------------------------------------------------------- generators

def gen_len(rng, maxlen=60):
    r = rng.random()
    if r < 0.06:
        return 0
    if r < 0.12:
        return 1
    if r < 0.16:
        return maxlen
    if r < 0.6:
        return rng.randrange(2, 12)
    return rng.randrange(0, maxlen + 1)


# texts that look like something else: the spellings of the error codes (a text is a text, whatever it spells), doubled and lone
# quote characters (two adjacent quotes inside a literal delimited by the OTHER quote are two ordinary characters)
LOOKALIKES = ['#N/A', '#n/a', '#REF!', '#VALUE!', '#DIV/0!', '#NAME?', '#NULL!', '#NUM!', '#ERROR!', '#GETTING_DATA', '#ref!', '#N/A here',
              '#', '#VALUE! here', 'a""b', '""', 'say ""hi""', 'x""', "it''s", "''", '"', "'", 'a"b', "a'b", 'TRUE', 'FALSE', '1e3', '007', '=1+1']


def gen_str(rng, maxlen=60, profile=None):
    if profile is None and maxlen >= 14 and rng.random() < 0.04:
        return rng.choice(LOOKALIKES)
    n = gen_len(rng, maxlen)
    if profile is None:
        profile = rng.choice(['ascii', 'ascii', 'words', 'mixed', 'mixed', 'spaces', 'controls', 'accent', 'cjk'])
    if profile == 'ascii':
        w = [6, 2, 2, 2, 0, 0, 0]
    elif profile == 'words':
        w = [8, 1, 1, 3, 0, 0, 0]
    elif profile == 'spaces':
        w = [3, 0, 1, 6, 1, 1, 0]
    elif profile == 'controls':
        w = [3, 1, 1, 2, 4, 1, 1]
    elif profile == 'accent':
        w = [3, 1, 1, 2, 0, 5, 0]
    elif profile == 'cjk':
        w = [2, 1, 1, 1, 0, 1, 5]
    else:
        w = [3, 2, 2, 2, 1, 2, 2]
    out = []
    while len(out) < n:
        a = rng.choices(ALPHABETS, weights=w)[0]
        c = rng.choice(a)
        if c == ' ' and rng.random() < 0.4:
            out.extend(' ' * rng.randrange(1, 4))
        else:
            out.append(c)
    return ''.join(out[:n])


def self_overlapping(old):
    return any(old[:k] == old[-k:] for k in range(1, len(old)))


def gen_old(rng, overlapping):
    for _ in range(200):
        n = rng.choice([1, 1, 2, 2, 3, 4, 5])
        if overlapping:
            base = gen_str(rng, 3, rng.choice(['ascii', 'mixed']))[:2] or 'a'
            old = (base * 3)[:max(2, n)]
            if len(old) == 2 and old[0] != old[1]:
                old = old + old[0]
        else:
            old = ''.join(rng.choice(rng.choices(ALPHABETS, weights=[5, 2, 2, 2, 1, 2, 2])[0]) for _ in range(n))
        if old and self_overlapping(old) == overlapping:
            return old
    return 'aa' if overlapping else 'ab'


def gen_subst(rng):
    r = rng.random()
    overlapping = r < 0.15
    old = gen_old(rng, overlapping)
    pieces = []
    total = 0
    nocc = rng.choice([0, 1, 1, 2, 2, 3, 4, 6])
    for i in range(nocc + 1):
        p = gen_str(rng, 8, rng.choice(['ascii', 'mixed', 'spaces']))
        if rng.random() < 0.3:
            p = old[:-1] + p          # near misses
        if rng.random() < 0.2:
            p = p + old[1:]
        pieces.append(p)
    s = old.join(pieces)[:60]
    if rng.random() < 0.08:
        s = ''
    rn = rng.random()
    if rn < 0.3:
        new = ''
    elif rn < 0.4:
        new = old + old               # the new text contains the old one: no re-scan
    elif rn < 0.5:
        new = old[::-1]
    else:
        new = gen_str(rng, 6)
    k = None
    if rng.random() < 0.55:
        k = rng.choice([1, 1, 2, 2, 3, 4, nocc, nocc + 1, nocc + 2, 7, 50])
        if k < 1:
            k = 1
    c = {'kind': 'subst', 's': s, 'old': old, 'new': new, 'k': k}
    if rng.random() < 0.04:
        c['old'] = ''
    return c


def gen_item(rng, depth, numbers):
    r = rng.random()
    if r < 0.2:
        return None
    if depth > 0 and r < 0.4:
        return [gen_item(rng, depth - 1, numbers) for _ in range(rng.randrange(0, 4))]
    if numbers and r < 0.5:
        return rng.choice([0, 1, -1, 7, 42, -305, 10 ** 6, 12345678901234567890])
    if r < 0.55:
        return ''
    return gen_str(rng, 6)


def flat(x):
    if isinstance(x, list):
        out = []
        for y in x:
            out += flat(y)
        return out
    return [x]


def cases(rng, ctx):
    thorough = ctx['tier'] == 'thorough'
    sc = ctx['scale']
    out = []
    # regression corpus of the repaired defects and of the boundaries
    for s, n in [('abc', 0), ('abc', 1), ('abc', 3), ('abc', 4), ('abc', -1), ('', 0), ('', 1), ('a', 1), ('é中x', 2)]:
        out.append({'kind': 'slice', 's': s, 'n': n, 'st': 1})
    out.append({'kind': 'subst', 's': 'abc', 'old': 'b', 'new': '', 'k': None})
    out.append({'kind': 'subst', 's': 'abcabc', 'old': 'b', 'new': '', 'k': 2})
    out.append({'kind': 'subst', 's': 'ababa', 'old': 'aba', 'new': 'X', 'k': 2})
    out.append({'kind': 'subst', 's': 'ababa', 'old': 'aba', 'new': 'X', 'k': None})
    for s in ['\tabc\n', ' \ta  b\t ', '  a   b  ', ' ', '', "it's a1b o'neil", 'Sale Price', '\x00\x1f\x20\x7f', 'ÀÉî öß', 'straße']:
        if all(_safe_case(ch) or not ch.isalpha() for ch in s):
            out.append({'kind': 'case', 's': s})
    out.append({'kind': 'join', 'items': [None, 'a'], 'd': ','})
    out.append({'kind': 'join', 'items': ['a', None, [None, 'b', ['c', None]], ''], 'd': ', '})
    out.append({'kind': 'lenconcat', 'a': None, 'b': 'a'})

    # slices
    n_all = (3000 if thorough else 80) * sc
    n_some = (12000 if thorough else 1500) * sc
    for _ in range(n_all):
        s = gen_str(rng)
        L = len(s)
        counts = list(range(0, L + 6)) + [-1, -2, -L, -L - 1, -1000]
        for n in counts:
            out.append({'kind': 'slice', 's': s, 'n': n, 'st': rng.randrange(1, L + 3)})
    for _ in range(n_some):
        s = gen_str(rng)
        L = len(s)
        for n in set([rng.randrange(0, L + 6), rng.choice([0, L, L + 1, max(L - 1, 0), 1]), -rng.randrange(1, L + 3)]):
            out.append({'kind': 'slice', 's': s, 'n': n, 'st': rng.choice([1, 1, 2, L, L + 1, L + 2, rng.randrange(1, L + 3), 0, -1])})
    # LEN(a&b)
    for _ in range((8000 if thorough else 500) * sc):
        a = gen_str(rng) if rng.random() > 0.05 else None
        b = gen_str(rng) if rng.random() > 0.05 else None
        out.append({'kind': 'lenconcat', 'a': a, 'b': b})
    # case / TRIM / CLEAN
    for _ in range((30000 if thorough else 1500) * sc):
        out.append({'kind': 'case', 's': gen_str(rng)})
    # CODE(CHAR(n))
    pts = [1, 2, 9, 10, 31, 32, 65, 127, 128, 255, 256, 0x7FF, 0x800, 0xD7FF, 0xE000, 0xFFFF, 0x10000, 0x10FFFF, 0]
    pts += [rng.choice([rng.randrange(1, 0x300), rng.randrange(1, 0xD800), rng.randrange(0xE000, 0x110000)])
            for _ in range((20000 if thorough else 300) * sc)]
    for n in pts:
        out.append({'kind': 'codechar', 'n': n})
    for n in [-1, 0x110000, 0x110001, 10 ** 12, 0xD800, 0xDFFF]:
        out.append({'kind': 'fn', 'name': 'CHAR', 'args': [n]})
    if thorough:
        step = 0x4000
        for lo in range(0, 0x110000, step):
            out.append({'kind': 'codechar_range', 'lo': max(lo, 1), 'hi': min(lo + step, 0x110000)})
    # joins
    for _ in range((20000 if thorough else 1000) * sc):
        numbers = rng.random() < 0.3
        items = [gen_item(rng, 2, numbers) for _ in range(rng.randrange(0, 6))]
        d = rng.choice([',', ', ', '', ' ', '--', gen_str(rng, 3)])
        out.append({'kind': 'join', 'items': items, 'd': d})
    # SUBSTITUTE
    for _ in range((50000 if thorough else 2500) * sc):
        out.append(gen_subst(rng))
    # coercions of the arguments: model comparison only
    E = {'e': '#N/A'}
    fixed = [('LEFT', ['abc', 2.0]), ('LEFT', ['abc', 1.5]), ('LEFT', ['abc', -0.5]), ('LEFT', ['abc', '2']), ('LEFT', ['abc', None]),
             ('LEFT', ['abc', True]), ('LEFT', [5, 1]), ('LEFT', [5, 1.5]), ('LEFT', [None, 1]), ('LEFT', [E, 1]), ('LEFT', ['abc', E]),
             ('LEFT', ['abc']), ('LEFT', []), ('LEFT', ['abc', 1, 2]), ('LEFT', ['abc', 10 ** 30]), ('LEFT', [['a'], 1]),
             ('RIGHT', ['abc', 2.0]), ('RIGHT', ['abc', 3.0]), ('RIGHT', ['abc', 3.5]), ('RIGHT', ['abc', 100.5]), ('RIGHT', ['abc', -0.5]),
             ('RIGHT', ['abc', '2']), ('RIGHT', ['abc', None]), ('RIGHT', ['abc', True]), ('RIGHT', ['abc', False]), ('RIGHT', [5, 1]),
             ('RIGHT', ['abc']), ('RIGHT', ['']), ('RIGHT', []), ('RIGHT', [E, 1]), ('RIGHT', ['abc', 10 ** 30]), ('RIGHT', [7, 0.5]),
             ('MID', ['abcdef', 2, 3]), ('MID', ['abcdef', 2]), ('MID', ['abcdef', 0, 'x']), ('MID', ['abcdef', 1, 'x']), ('MID', ['abcdef', 'x', 1]),
             ('MID', ['abcdef', 2.0, 1]), ('MID', ['abcdef', 2, 1.0]), ('MID', ['abcdef', 0.5, 1]), ('MID', ['abcdef', 1, -0.5]), ('MID', [5, 1, 1]),
             ('MID', ['abcdef', True, True]), ('MID', ['abcdef', None, 1]), ('MID', ['abcdef', 1, None]), ('MID', ['abcdef']), ('MID', [5, 2.5, 1]),
             ('MID', ['abcdef', 10 ** 30, 1]), ('MID', ['abcdef', 7, 1]), ('MID', ['abcdef', 6, 5]),
             ('LEN', [12345]), ('LEN', [-7]), ('LEN', [True]), ('LEN', [None]), ('LEN', [E]), ('LEN', [1.5]), ('LEN', ['']), ('LEN', []),
             ('LEN', [['a']]), ('LENB', ['中文']), ('LEN', ['a', 'b']),
             ('CLEAN', [12]), ('CLEAN', [None]), ('CLEAN', [E]), ('CLEAN', [False]), ('UPPER', [12]), ('UPPER', [None]), ('UPPER', [True]),
             ('UPPER', [E]), ('LOWER', [True]), ('LOWER', [None]), ('LOWER', [-3]), ('PROPER', [False]), ('PROPER', [None]), ('PROPER', [E]),
             ('UPPER', []), ('PROPER', [1.5]),
             ('TRIM', [5]), ('TRIM', [None]), ('TRIM', [E]), ('TRIM', [True]), ('TRIM', [1.5]), ('TRIM', []), ('TRIM', [[' a ']]),
             ('CHAR', [65]), ('CHAR', ['65']), ('CHAR', [' 65 ']), ('CHAR', [65.0]), ('CHAR', ['6.5']), ('CHAR', ['x']), ('CHAR', [None]), ('CHAR', [True]),
             ('CHAR', [E]), ('CHAR', []), ('CHAR', [0]), ('CHAR', [[65]]),
             ('CODE', ['A']), ('CODE', ['']), ('CODE', ['AB']), ('CODE', [65]), ('CODE', [None]), ('CODE', [E]), ('CODE', []), ('CODE', ['中']),
             ('CONCATENATE', []), ('CONCATENATE', [None]), ('CONCATENATE', ['a', E, 'b']), ('CONCATENATE', [1.5, E]), ('CONCATENATE', [True, 1, 'x']),
             ('CONCATENATE', [[['a', None], [E]]]), ('CONCAT', ['a', [1, [2, None]]]), ('CONCATENATE', [1.5]),
             ('TEXTJOIN', [',', True]), ('TEXTJOIN', [',']), ('TEXTJOIN', [1, True, 'a']), ('TEXTJOIN', [None, True, 'a']), ('TEXTJOIN', [',', True, 'a', 1]),
             ('TEXTJOIN', [',', True, 'a', E]), ('TEXTJOIN', [',', 0, 'a', None, 'b']), ('TEXTJOIN', [',', 'x', 'a', None, 'b']), ('TEXTJOIN', [',', '', 'a', None]),
             ('TEXTJOIN', [',', None, None, None]), ('TEXTJOIN', [',', E, 'a', None, 'b']), ('TEXTJOIN', [',', [], 'a', None]), ('TEXTJOIN', [E, True, 'a']),
             ('TEXTJOIN', [',', True, True]),
             ('SUBSTITUTE', ['abcabc', 'b', 'X', 2.0]), ('SUBSTITUTE', ['abcabc', 'b', 'X', 1.5]), ('SUBSTITUTE', ['abcabc', 'b', 'X', '2']),
             ('SUBSTITUTE', ['abcabc', 'b', 'X', 'x']), ('SUBSTITUTE', ['abcabc', 'b', 'X', 0]), ('SUBSTITUTE', ['abcabc', 'b', 'X', -1]),
             ('SUBSTITUTE', ['abcabc', 'b', 'X', None]), ('SUBSTITUTE', ['abcabc', 'b', 'X', True]), ('SUBSTITUTE', ['abcabc', 'b', 'X', E]),
             ('SUBSTITUTE', ['abcabc', 'b', 'X', 0.5]), ('SUBSTITUTE', ['', 'b', 'X']), ('SUBSTITUTE', [None, 'b', 'X']), ('SUBSTITUTE', [0, 'b', 'X']),
             ('SUBSTITUTE', [5, 'b', 'X']), ('SUBSTITUTE', [5, 'b', 'X', 1]), ('SUBSTITUTE', ['abc', '', 'X']), ('SUBSTITUTE', ['abc', None, 'X']),
             ('SUBSTITUTE', ['abc', 'b', None]), ('SUBSTITUTE', ['abc', 'b', 5]), ('SUBSTITUTE', ['abc', 'b', 5, 1]), ('SUBSTITUTE', ['abc', 'b', 5, 2]),
             ('SUBSTITUTE', ['abc', 5, 'X']), ('SUBSTITUTE', ['abc', 5, 'X', 1]), ('SUBSTITUTE', [E, 'b', 'X']), ('SUBSTITUTE', [E, 'b', 'X', 1]),
             ('SUBSTITUTE', ['abc', E, 'X']), ('SUBSTITUTE', ['abc', 'b', E]), ('SUBSTITUTE', ['abc', 'b']), ('SUBSTITUTE', [True, 'b', 'X', 1]),
             ('SUBSTITUTE', ['a5b', 'b', '', 1]), ('SUBSTITUTE', ['abc', 'b', 'X', 10 ** 30]), ('SUBSTITUTE', ['abc', 'b', None, 0]),
             ('SUBSTITUTE', [None, None, None, E])]
    # the literal route: every seventh formula-level case once more with its texts written into the formula as literals
    lits = [dict(c, lit=True) for i, c in enumerate(out) if c['kind'] in ('slice', 'lenconcat', 'case', 'join', 'subst') and i % 7 == 0]
    # the cell route and the nested route: every eleventh / thirteenth formula-level case once more
    lits += [dict(c, via='cell') for i, c in enumerate(out) if c['kind'] in ('slice', 'lenconcat', 'case', 'join', 'subst') and i % 11 == 0]
    lits += [dict(c, via='nest') for i, c in enumerate(out) if c['kind'] in ('slice', 'lenconcat', 'case', 'subst') and i % 13 == 0]
    for s_ in ['', 'abc', ' a ']:
        lits += [{'kind': 'slice', 's': s_, 'n': n, 'st': 1, 'via': via} for n in (0, 1, 3) for via in ('cell', 'nest')]
        lits += [{'kind': 'subst', 's': 'a-b-c', 'old': '-', 'new': s_, 'k': None, 'via': via} for via in ('cell', 'nest')]
        lits += [{'kind': 'lenconcat', 'a': s_, 'b': 'xy', 'via': via} for via in ('cell', 'nest')]
    for s_ in LOOKALIKES:
        lits.append({'kind': 'case', 's': s_, 'lit': True})
        lits.append({'kind': 'case', 's': s_})
        lits.append({'kind': 'lenconcat', 'a': s_, 'b': 'y', 'lit': True})
        lits.append({'kind': 'slice', 's': s_, 'n': len(s_), 'st': 1})
    out += lits
    for name, args in fixed:
        out.append({'kind': 'fn', 'name': name, 'args': args})
    # seeded direct calls with mixed argument kinds
    pool = ['abc', '', ' a ', 'héllo', '12', 0, 1, 2, -1, 3, 1.5, 2.0, -0.5, 100.25, True, False, None, E, ['a', None], []]
    arity = {'LEFT': (1, 2), 'RIGHT': (1, 2), 'MID': (2, 3), 'LEN': (1, 1), 'CLEAN': (1, 1), 'UPPER': (1, 1), 'LOWER': (1, 1), 'PROPER': (1, 1),
             'TRIM': (1, 1), 'CHAR': (1, 1), 'CODE': (1, 1), 'CONCATENATE': (0, 4), 'TEXTJOIN': (2, 5), 'SUBSTITUTE': (3, 4),
             'LEFTB': (1, 2), 'RIGHTB': (1, 2), 'MIDB': (2, 3), 'LENB': (1, 1), 'CONCAT': (0, 3)}
    names = sorted(arity)
    for _ in range((12000 if thorough else 1500) * sc):
        name = rng.choice(names)
        lo, hi = arity[name]
        args = [rng.choice(pool) for _ in range(rng.randrange(lo, hi + 1))]
        out.append({'kind': 'fn', 'name': name, 'args': args})
    return out


# --------------------------------------------------------------------------- evaluation

def pyval(j):
    """JSON case value -> Python value handed to hotxlfp"""
    if isinstance(j, dict):
        from hotxlfp.formulas import error
        return error.from_message(j['e'])
    if isinstance(j, list):
        return [pyval(x) for x in j]
    return j


ITEM_NAMES = ['xa', 'xb', 'xc', 'xd', 'xe', 'xf', 'xg', 'xh']
CASEFNS = ['UPPER', 'LOWER', 'PROPER', 'TRIM', 'CLEAN']


CELL_NAMES = ['A1', 'B1', 'C1', 'D1', 'E1', 'F1', 'G1', 'H1', 'I1', 'J1', 'K1', 'L1']
_cellvals = {}
_nestvals = {}


def quoted(v):
    """the text as a literal of the formula language (delimited by a quote character it does not contain), or None"""
    if not isinstance(v, str) or '\\' in v:
        return None          # (a backslash before the delimiter is the lexer's escape: C05's matter)
    if '"' not in v:
        return '"' + v + '"'
    if "'" not in v:
        return "'" + v + "'"
    return None


def setup(c):
    """-> (variables, formulas) of a formula-level case.  Route lit: every text that can be written as a literal is written
    into the formulas instead of being handed over in a variable"""
    vs, fs = setup_vars(c)
    if c.get('via') == 'cell':
        # route cell: every variable is the value of a cell instead (answered by the host's listener: an empty text is a text)
        cellof = dict((name, CELL_NAMES[i]) for i, name in enumerate(sorted(vs)))
        pat = re.compile(r'(?<![A-Za-z0-9_.])(%s)(?![A-Za-z0-9_.(])' % '|'.join(re.escape(n) for n in sorted(cellof, key=len, reverse=True)))
        fs = [pat.sub(lambda m: cellof[m.group(1)], f) for f in fs]
        return vs, fs
    if c.get('lit'):
        lit = dict((name, quoted(v)) for name, v in vs.items() if quoted(v) is not None)
        if lit:
            # one pass over the formula as written with variables (the names are whole words there; no literal is rescanned)
            pat = re.compile(r'(?<![A-Za-z0-9_.])(%s)(?![A-Za-z0-9_.(])' % '|'.join(re.escape(n) for n in sorted(lit, key=len, reverse=True)))
            fs = [pat.sub(lambda m: lit[m.group(1)], f) for f in fs]
    return vs, fs


def setup_vars(c):
    k = c['kind']
    if k == 'slice':
        return ({'s': c['s'], 'n': c['n'], 'st': c['st']},
                ['LEFT(s,n)', 'RIGHT(s,n)', 'MID(s,st,n)', 'MID(s,1,n)', 'LEFT(s,n)&RIGHT(s,LEN(s)-n)', 'LEN(s)', 'LEFT(s)', 'RIGHT(s)'])
    if k == 'lenconcat':
        return ({'a': c['a'], 'b': c['b']}, ['LEN(a&b)', 'LEN(a)+LEN(b)', 'a&b', 'LEN(a)', 'LEN(b)'])
    if k == 'case':
        fs = []
        for f in CASEFNS:
            fs += ['%s(s)' % f, '%s(%s(s))' % (f, f)]
        return ({'s': c['s']}, fs)
    if k == 'codechar':
        return ({'n': c['n']}, ['CODE(CHAR(n))', 'CHAR(n)'])
    if k == 'join':
        vs = {'d': c['d']}
        names = ITEM_NAMES[:len(c['items'])]
        for nm, it in zip(names, c['items']):
            vs[nm] = it
        a = ','.join(names)
        fs = ['CONCATENATE(%s)' % a, 'CONCAT(%s)' % a, 'TEXTJOIN(d,TRUE%s)' % (',' + a if a else ''),
              'TEXTJOIN(d,FALSE%s)' % (',' + a if a else '')]
        if len(names) >= 2:
            fs.append('xa&xb')
        return (vs, fs)
    if k == 'subst':
        vs = {'s': c['s'], 'o': c['old'], 'w': c['new']}
        if c['k'] is None:
            return (vs, ['SUBSTITUTE(s,o,w)'])
        vs['k'] = c['k']
        return (vs, ['SUBSTITUTE(s,o,w,k)'])
    raise ValueError(k)


_p = [None]


def parser():
    if _p[0] is None:
        common.load_repo()
        import hotxlfp
        p = hotxlfp.Parser()
        p.on('callCellValue', lambda cell, setter: setter(_cellvals.get(cell.label)))

        def on_var(name, setter):
            # route nest: a defined name whose value the host obtains by evaluating a formula ON THE SAME PARSER, in the middle of
            # the evaluation that asked for it
            if name in _nestvals:
                setter(p.parse(_nestvals[name])['result'])
        p.on('callVariable', on_var)
        _p[0] = p
    return _p[0]


def request(c):
    k = c['kind']
    if k == 'codechar_range':
        return None
    if k == 'fn':
        common.load_repo()
        return 'fn ' + enc_str(c['name']) + ''.join(' ' + fx.to_wire(pyval(a)) for a in c['args'])
    vs, fs = setup(dict(c, via=None))          # (the model sees the values as variables whatever the route)
    return 'c04.batch ' + ' '.join(enc_str(f) for f in fs) + ' ' + fx.env_wire(variables={n: pyval(v) for n, v in vs.items()})


def impl(c):
    k = c['kind']
    common.load_repo()
    from hotxlfp.formulas import text, error
    if k == 'codechar_range':
        bad = []
        for n in range(c['lo'], c['hi']):
            if 0xD800 <= n <= 0xDFFF:
                continue
            try:
                r = text.CODE(text.CHAR(n))
            except Exception as e:
                r = repr(e)
            if r != n or isinstance(r, bool):
                bad.append([n, repr(r)])
                if len(bad) > 5:
                    break
        return bad
    if k == 'fn':
        import hotxlfp.formulas as formulas
        f = formulas.get_for(c['name'])
        try:
            return ['ok', f(*[pyval(a) for a in c['args']])]
        except Exception as e:
            return ['raise', str(error.from_message(e))]
    vs, fs = setup(c)
    names = setup_vars(c)[1]          # the records are filed under the formula as written with variables (route lit too)
    p = parser()
    _cellvals.clear()
    _nestvals.clear()
    for i, n in enumerate(sorted(vs)):
        v = pyval(vs[n])
        _cellvals[CELL_NAMES[i]] = v
        if c.get('via') == 'nest' and quoted(v) is not None:
            p.variables.pop(n, None)
            _nestvals[n] = quoted(v)
        else:
            p.set_variable(n, v)
    return [(nm, p.parse(f)) for nm, f in zip(names, fs)]


def agree(c, impl_ans, model_ans):
    k = c['kind']
    if k == 'fn':
        m = fx.parse_sexp(model_ans)
        if isinstance(m, list) and m and m[0] == 'raise':
            return impl_ans[0] == 'raise' and fx.ERR_TAGS.get(impl_ans[1]) == m[1]
        if impl_ans[0] == 'raise':
            return isinstance(m, list) and m and m[0] == 'o'
        return fx.value_matches(m, impl_ans[1]) is not False
    m = fx.parse_sexp(model_ans)
    if not isinstance(m, list) or len(m) != len(impl_ans):
        return False
    for (f, rec), mm in zip(impl_ans, m):
        if fx.record_matches(mm[1], rec) is False:
            return False
    return True


# --------------------------------------------------------------------------- the statement

def ok(rec, v):
    return rec['error'] is None and type(rec['result']) is type(v) and rec['result'] == v


def is_value_error(rec):
    return rec['result'] is None and rec['error'] == '#VALUE!'


def occurrences(s, old):
    m = len(old)
    return [i for i in range(len(s) - m + 1) if s[i:i + m] == old]


def ref_substitute(s, old, new, k):
    """every occurrence (k None) / only the k-th occurrence of a non-self-overlapping old text"""
    pos = occurrences(s, old)
    if k is not None:
        pos = pos[k - 1:k]
    out = []
    at = 0
    for i in pos:
        out.append(s[at:i])
        out.append(new)
        at = i + len(old)
    out.append(s[at:])
    return ''.join(out)


def only_case(fn, s, r):
    """r differs from s in letter case only (and, on ASCII letters, is the documented case)"""
    if len(r) != len(s):
        return 'length changed from %d to %d' % (len(s), len(r))
    for i, (a, b) in enumerate(zip(s, r)):
        if ord(a) < 128:
            if a in TAB_UP or a in TAB_LO:
                if fn == 'UPPER':
                    want = TAB_UP.get(a, a)
                elif fn == 'LOWER':
                    want = TAB_LO.get(a, a)
                else:
                    if i > 0 and ord(s[i - 1]) >= 128:
                        if b not in (TAB_UP.get(a, a), TAB_LO.get(a, a)):
                            return 'character %d: %r became %r' % (i, a, b)
                        continue
                    after_letter = i > 0 and (s[i - 1] in TAB_UP or s[i - 1] in TAB_LO)
                    want = TAB_LO.get(a, a) if after_letter else TAB_UP.get(a, a)
                if b != want:
                    return 'character %d: %r became %r, expected %r' % (i, a, b, want)
            elif a != b:
                return 'character %d: the non-letter %r became %r' % (i, a, b)
        elif a != b and a.casefold() != b.casefold():
            return 'character %d: %r became %r (not a change of case)' % (i, a, b)
    return None


def oracle(c, impl_ans):
    msg = oracle0(c, impl_ans)
    if msg and c.get('via'):
        msg += ' [route %s: %s]' % (c['via'], 'the variables are the values of cells answered by the listener: ' + ' | '.join(setup(c)[1])[:300]
                                    if c['via'] == 'cell' else 'the text variables are defined names the host resolves by evaluating a literal on the same parser')
    if msg and c.get('lit'):
        msg += ' [the texts written into the formulas as literals: %s]' % ' | '.join(setup(c)[1])[:600]
    return msg


def oracle0(c, impl_ans):
    k = c['kind']
    if k == 'fn':
        return None
    if k == 'codechar_range':
        if impl_ans:
            return 'CODE(CHAR(n)) <> n for n = %s' % impl_ans
        return None
    recs = dict(impl_ans)
    if k == 'slice':
        s, n, st = c['s'], c['n'], c['st']
        L = len(s)
        left, right, mid, mid1 = recs['LEFT(s,n)'], recs['RIGHT(s,n)'], recs['MID(s,st,n)'], recs['MID(s,1,n)']
        if n < 0:
            for name, r in (('LEFT', left), ('RIGHT', right), ('MID(s,1,n)', mid1)):
                if not is_value_error(r):
                    return '%s of %r with the negative count %d gives %r, expected #VALUE!' % (name, s, n, r)
            if st >= 1 and not is_value_error(mid):
                return 'MID(%r,%d,%d) gives %r, expected #VALUE!' % (s, st, n, mid)
            return None
        want_left = s if n >= L else s[:n]
        want_right = s if n >= L else ('' if n == 0 else s[L - n:])
        if not ok(left, want_left):
            return 'LEFT(%r,%d) gives %r, expected %r' % (s, n, left, want_left)
        if not ok(right, want_right):
            return 'RIGHT(%r,%d) gives %r, expected %r' % (s, n, right, want_right)
        if st >= 1:
            want_mid = s[st - 1:st - 1 + n]
            if not ok(mid, want_mid):
                return 'MID(%r,%d,%d) gives %r, expected %r' % (s, st, n, mid, want_mid)
        if mid1 != left:
            return 'MID(s,1,n) = %r but LEFT(s,n) = %r for s=%r, n=%d' % (mid1, left, s, n)
        if n <= L:
            both = recs['LEFT(s,n)&RIGHT(s,LEN(s)-n)']
            if not ok(both, s):
                return 'LEFT(s,n)&RIGHT(s,LEN(s)-n) gives %r for s=%r, n=%d' % (both, s, n)
        return None
    if k == 'lenconcat':
        x, y = recs['LEN(a&b)'], recs['LEN(a)+LEN(b)']
        if x['error'] is not None or y['error'] is not None or x['result'] != y['result'] or not isinstance(x['result'], int):
            return 'LEN(a&b) = %r but LEN(a)+LEN(b) = %r for a=%r, b=%r' % (x, y, c['a'], c['b'])
        return None
    if k == 'case':
        s = c['s']
        for f in CASEFNS:
            once, twice = recs['%s(s)' % f], recs['%s(%s(s))' % (f, f)]
            if once['error'] is not None or not isinstance(once['result'], str):
                return '%s(%r) gives %r' % (f, s, once)
            if twice != once:
                return '%s is not idempotent on %r: %r then %r' % (f, s, once, twice)
            r = once['result']
            if f in ('UPPER', 'LOWER', 'PROPER'):
                why = only_case(f, s, r)
                if why:
                    return '%s(%r) = %r changes more than letter case: %s' % (f, s, r, why)
            elif f == 'TRIM':
                words = [w for w in s.split(' ') if w]
                if r.replace(' ', '') != s.replace(' ', ''):
                    return 'TRIM(%r) = %r changes something else than spaces' % (s, r)
                if r.startswith(' ') or r.endswith(' ') or '  ' in r:
                    return 'TRIM(%r) = %r keeps surplus spaces' % (s, r)
                if r != ' '.join(words):
                    return 'TRIM(%r) = %r, expected the words joined by single spaces %r' % (s, r, ' '.join(words))
            else:
                want = ''.join(ch for ch in s if ord(ch) > 31)
                if r != want:
                    return 'CLEAN(%r) = %r, expected %r' % (s, r, want)
        return None
    if k == 'codechar':
        n = c['n']
        if n == 0 or 0xD800 <= n <= 0xDFFF:
            return None
        if not ok(recs['CODE(CHAR(n))'], n):
            return 'CODE(CHAR(%d)) gives %r' % (n, recs['CODE(CHAR(n))'])
        return None
    if k == 'join':
        items = flat(c['items'])
        d = c['d']
        has_num = any(isinstance(x, int) for x in items)
        want = ''.join(str(x) if isinstance(x, int) else x for x in items if x is not None)
        for f, r in impl_ans:
            if f.startswith('CONCAT') and not ok(r, want):
                return '%s over the items %r gives %r, expected %r' % (f.split('(')[0], c['items'], r, want)
        if not has_num:
            for f, r in impl_ans:
                if f.startswith('TEXTJOIN(d,TRUE'):
                    w = d.join(x for x in items if x is not None)
                elif f.startswith('TEXTJOIN(d,FALSE'):
                    w = d.join('' if x is None else x for x in items)
                else:
                    continue
                if not ok(r, w):
                    return '%s with delimiter %r over the items %r gives %r, expected %r' % (f[:15], d, c['items'], r, w)
        return None
    if k == 'subst':
        s, old, new, kk = c['s'], c['old'], c['new'], c['k']
        if old == '' or self_overlapping(old):
            return None
        r = impl_ans[0][1]
        want = ref_substitute(s, old, new, kk)
        if not ok(r, want):
            return 'SUBSTITUTE(%r,%r,%r%s) gives %r, expected %r' % (s, old, new, '' if kk is None else ',%d' % kk, r, want)
        return None
    return None


def nontrivial(c, impl_ans):
    k = c['kind']
    if k == 'slice':
        return len(c['s']) >= 2
    if k == 'lenconcat':
        return bool(c['a']) and bool(c['b'])
    if k == 'case':
        return any(rec['result'] != c['s'] for f, rec in impl_ans)
    if k == 'codechar':
        return c['n'] > 127
    if k == 'codechar_range':
        return True
    if k == 'join':
        f = flat(c['items'])
        return len([x for x in f if x is not None]) >= 2 and (None in f or any(isinstance(x, list) for x in c['items']))
    if k == 'subst':
        return c['old'] != '' and c['old'] in c['s']
    return k == 'fn' and len(c['args']) > 0


def search(rng, ctx, disagreements):
    c2 = dict(ctx)
    c2['scale'] = 6
    return [c for c in cases(rng, c2) if c['kind'] != 'fn']


def shrink(case, msg):
    """drop characters of the text fields while the oracle still complains"""
    best, best_msg = case, msg
    changed = True
    while changed:
        changed = False
        for key in ('s', 'a', 'b', 'old', 'new', 'd'):
            v = best.get(key)
            if not isinstance(v, str):
                continue
            i = 0
            while i < len(v):
                cand = dict(best)
                cand[key] = v[:i] + v[i + 1:]
                try:
                    m = oracle(cand, impl(cand))
                except Exception:
                    m = None
                if m:
                    best, best_msg, v = cand, m, cand[key]
                    changed = True
                else:
                    i += 1
    return best, best_msg
