# -*- coding: utf-8 -*-
"""C10 - reference events deliver canonical coordinates, once, in evaluation order

case kinds (see RULE): `tree` - one formula on a fresh parser: (a) fixed list and seeded trees, (c) grid of range texts;
with key `debug` the fresh parser is constructed with debug=True and what it prints goes to a sink;
`session` - (d) step k of several formulas evaluated one after another on one parser; `reent` - (e) a host whose callbacks
evaluate further formulas on the same parser; `setter` - (b) a plan of setter calls for one reference; family (f) (zero-argument
calls of registered builtins, ranges whose corners share a row / column index) adds cases of all four kinds, generated after the
others; a `tree` case / the steps of a `session` may carry `fnset` (name -> FNVALS index): a callFunction listener hands that
value to the setter of the calls of that name written with empty parentheses"""
import copy
import datetime
import json
import random
import string
import zlib

from .. import common, fx
from ..common import enc_str, dec_str
from . import c04

ID = 'C10'
LEAN_MODULES = ['HotXL.Props.C10']
FUNCTIONS = ['hotxlfp.parser:Parser.call_function', 'hotxlfp.parser:Parser.call_variable',
             'hotxlfp.parser:Parser.call_cell_value', 'hotxlfp.parser:Parser.call_range_value',
             'hotxlfp.helper.cell:extract_label', 'hotxlfp.helper.cell:to_label',
             'hotxlfp.tinyemitter:Emitter.on', 'hotxlfp.tinyemitter:Emitter.emit',
             'hotxlfp.grammarparser.parser:FormulaParser.p_cell',
             'hotxlfp.grammarparser.parser:FormulaParser.p_expression_varseq',
             'hotxlfp.grammarparser.parser:FormulaParser.p_expression_function',
             'hotxlfp.grammarparser.parser:FormulaParser.p_expression_wargs']
RULE = ('(a) kind `tree`: 45 fixed formulas (reversed / one-cell / $-mixed ranges, sheet extremes, aborts, error values, '
        'omitted slots, rows, arrays, zero rows and leading zeros A0 A01 a007:B03) plus 1500 (quick) / 30000 (thorough) x '
        'scale seeded expression trees (depth 0..5 quick, 0..7 thorough) whose leaves are cell references (upper, lower or '
        'mixed case, the four $ patterns, columns of 1..4 letters incl. IV, XFC, XFD, XFE, ZZZ, ZZZZ, rows 1..1048576, the '
        'boundary rows, and beyond: 1048577, 10^7, 10^9+7, 10^12), ranges in all four corner orders with mixed $/case (15% '
        'one column, 15% one row; wrapped in SUM where a scalar is needed), variables (6 defined, predefined TRUE / FALSE / '
        'NULL, 3 undefined, dotted sequences), integer / decimal / text literals, and whose inner nodes are unary minus, the '
        'binary operators (+ - * / over numeric, & and the six comparisons over scalar sub-trees), flat arrays of 1..3 '
        'scalars, and nested calls of 10 modelled builtins (SUM IF AND OR NOT ISNUMBER ISBLANK N IFERROR ISTEXT), 3 '
        'unmodelled ones (MAX ABS COUNT) and custom functions ID / ARGS / K7 (incl. zero-argument K7(), an omitted slot in '
        'the middle, `;`-separated and two-row `a,b;c,d` argument lists) and, 2 of 8 draws of the custom share (ID 2, ARGS 4), the '
        'host functions Vat (= its first argument, as ID) and net_of (= its argument list, as ARGS; omitted slot in the middle as '
        'for ARGS, no two-row list) registered under names with lower-case letters and written that way, a raising function BOOM, an unknown name (NOSUCH, '
        'XYZZY); each rendered minimally or (30%) fully parenthesised, 30% with white space at token boundaries. 12% of the seeded trees are followed by a copy of the same case '
        'with key `debug` (about 180 of the 1500 at quick scale 1) and 6 fixed formulas carry it (SUM(A1:A3)*B1+K7()*nosuchvar, B1+NOSUCH(A1,A1:A3), '
        'A1+#N/A, A1+B2*C3, BOOM(A1)+B1, va+A1): the case runs on hotxlfp.Parser(debug=True) with the same registrations and '
        'listeners, stdout and stderr redirected to an io.StringIO for the parse; oracle, model request and comparison are those of '
        'the case without the key - events and record are what they are without debug. Listeners '
        'on all four events of a fresh hotxlfp.Parser record every field (call arguments as deep copies) in one ordered '
        'log; AHEAD of them every parser that evaluates a case (all kinds (a)-(e), the reference runs of (e) included) gets, for '
        'each of the four events, a one-shot tracer registered with `once` and a listener that unsubscribes itself with '
        '`off` at its first call (both set and record nothing), so that the listener list changes WHILE the first event of '
        'each kind on that parser is being delivered; the cell / range listeners hand over a value fixed by the upper-cased '
        'label(s) (crc32 mod 20: cell blank (3 of 20) / 0 / 0.5 / the text "abc" (1 of 20; arithmetic on it gives the error '
        'value #VALUE!) / 2..15; crc32 mod 5: range blank / one of 4 number lists) through one of 4 call scripts (v; junk, v; '
        'v, None; None, 99, v, None; blank: no call or one call with None). Oracle: the log equals the post-order list of the '
        'reference/call nodes of the generating tree (for a fixed text: of the tree the real ply tables build with '
        'tree-building actions; a text they reject is not judged), a prefix of it when the record carries an error - except '
        'for a `total` seeded tree (never_aborts: made only of integer / decimal literals, cell references, single names of '
        'the 6 defined variables, + - * /, and flat or zero-argument calls of SUM / ID / ARGS / K7 / Vat / net_of without a second row, '
        'omitted slots allowed, ranges only as direct arguments of SUM): such a tree cannot raise, an error in its record is '
        'an error VALUE (division by zero, text - a text cell - under arithmetic) and the full list is demanded '
        'all the same (seeded trees of (a) and seeded steps of (d) only; not fixed texts, not (e)); each cell event carries '
        'label.upper(), coordinates computed by an independent bijective base-26 / row-1 reference and the $ flags; each '
        'range event carries (min row, min col), (max row, max col) built from the written row/column parts with their $ '
        'flags - per coordinate: when the first written row (column) index is not larger than the second, a shared row (column) '
        'included, the top-left cell carries the first written row (column) part, index and $, and the bottom-right cell the second; '
        'otherwise the two parts are exchanged whole - and labels that recompose from their own coordinates; a variable event carries the (first) name, a call '
        'event the name and, for a flat (not two-row) argument list, as many arguments as slots. Compared with the model: '
        'record (4 ulps or 1e-9 relative) and full event list of `eval` (all fields incl. the part labels; call arguments '
        'like the record within 4 ulps or 1e-9 relative, absolute below 1; unmodelled ones accepted); where the model has no opinion on the result (unmodelled builtin) its '
        'events must be a prefix of the log; no comparison when a logical reaches an aggregate other than SUM (here MAX). '
        '(b) kind `setter`, 700 / 6000 x scale: 0..3 listeners each calling the setter 0..3 times with values from a pool '
        'of 17 {None, 0, 0.0, False, "", "x", 5, [], [1], a date, 3 host objects with an equality of their own: equal to '
        'everything / raising on foreign operands / element-wise without truth value, and (indexes 13..16) 4 texts that spell a '
        'number: "02134", "1e3", " 7 ", "12" - text is handed on as that text} (25% of the plans all None) for one '
        'of the four events: cell, range, variable vx (undefined, or holding one of the 9 plain non-None pool values or one of the '
        '4 numeric-looking texts), '
        'function (custom returning any pool value incl. None, builtin SUM(1,2), raising BOOM(1)); read back from the '
        'record or (40%) through a capturing function CAP; here the recording listeners set nothing (they, the once-tracer and '
        'the self-unsubscribing listener are registered before the plan\'s listeners). Oracle: last non-None '
        'value, else blank / stored value / return value (3, #DIV/0!), of the same type (host objects: the same object), and '
        'exactly one event for the reference; compared with the model\'s `applySetters` (a host object: unmodelled value on '
        'both sides); an undefined variable is oracle-only, and not judged when no value was supplied. (c) kind `tree`, '
        'fixed texts: a grid of ordered pairs of 8 labels (A1 B5 Z9 AA10 XFD1048576 XFE1048577 ZZZZ100 iv65536; all 64 '
        'thorough, 12 x scale sampled quick) x 4 $ patterns of the first x (4 thorough / 1 seeded quick) of the second x 4 '
        'corner orders (first corner alternately upper / lower case), the marker travelling with its row / column, plus one '
        'ARGS call of the two cells per pair: 204 quick, 4160 thorough. (d) kind `session`: 10 fixed sessions (44 steps) '
        'plus 350 / 5000 x scale seeded ones of 1..6 formulas evaluated one after another on ONE long-lived parser; a seeded '
        'step is a bare range (20%), a bare cell (15%) or a tree of depth 1..3 (70% of the sessions) or 1..4 quick / 1..6 '
        'thorough, 20% fully parenthesised, 20% with white space; 80% of its leaves are references drawn from the '
        'session\'s pool of 1..3 columns x 1..3 rows, at least 2 labels (the $ marker travelling with its column / row, p 0 '
        'in half of the sessions, else 0.3 / 0.6, flipped with p 0.06 per use, case mixed), so that the same label comes '
        'back as a plain cell, as a written corner and as a normalised corner of ranges in all corner orders, inside one '
        'formula and across formulas, many times. One case per step: the oracle of (a) is applied to EVERY event of EVERY '
        'step (post-order list of that step, upper-cased label, independent coordinates, $ flags, normalised corners whose '
        'labels recompose; the full count for a total seeded step even when its record carries an error), whatever was '
        'evaluated before (the once-tracer and the self-unsubscribing listener leave during the first event of each kind of '
        'the session); each step is compared with the (stateless) model\'s `eval` of its formula alone. (e) kind `reent`, '
        're-entrant hosts, 16 fixed scenarios (use at the beginning / in the middle / at the end, the same cell three times, '
        'cells and names using one another, two INDIRECT-like calls, inner #NAME?, inner 1/0 raised under IFERROR, two inner '
        'syntax errors, a range before the call) plus 400 / 6000 x scale seeded attempts '
        '(the few that yield no usable acyclic layout are dropped): the host stores formulas (numeric trees of depth 0..2 '
        'over a pool of 2..3 x 2..3 labels) in 1..4 ranked things - cells (the cell listener evaluates the stored formula '
        'ON THE SAME PARSER while the outer evaluation is in progress and hands over its result), defined names (variable '
        'listener) and INDIRECT-like custom functions that evaluate their text argument (returning the result or, in half '
        'of the scenarios, raising the error) - which may use one another (rank order, a leaf of a stored formula is a '
        'later thing with p 0.3, a function\'s text holds no INDIRECT-like call and no text literal, no cycles, nesting '
        'depth up to 4; a cell hands its result over through the call script of its label, a name by one setter call); '
        'the outer formula uses them at its beginning / in the middle (operand, call argument of ARGS / SUM / ID / MAX) / '
        'at its end or (2 shapes of 6) anywhere in a seeded tree (depths as in (d)), 20% fully parenthesised, 20% (when it '
        'holds no text literal) with white space. The recording listeners attribute each event to its '
        'nesting depth. Oracle: the depth-0 events are the post-order list of the OUTER formula (oracle of (a) without the '
        'total-tree strengthening: a prefix whenever the record carries an error; incl. the '
        'references after the re-entrant call), and record and event list (with call arguments; equal types and values, '
        'errors by text) of the outer evaluation equal those of the same formula evaluated on the real implementation with '
        'every inner formula evaluated on a parser of its own, i.e. with the inner results as constants; the same two '
        'demands for every inner evaluation at its own depth. Compared with the model: `eval` of the outer formula in an '
        'environment where the inner results are constants. Non-trivial = at least two events raised (for a later session '
        'step: one), or at least one setter call planned; for (e) at least two depth-0 events and at least one inner '
        'evaluation; every case counts once, no time or step budget. When a proof or the correspondence broke, the whole '
        'quick family is regenerated with scale 6 (9000 trees + the debug copies of 12% of them, all 64 grid pairs, 2100 sessions, 2400 re-entrant attempts, '
        '4200 setter plans) and judged by the oracle alone, up to the first failure; a failing generated tree / session / '
        'outer formula is replaced by a smaller failing one (sub-tree; the step alone or after 1..2 of its predecessors; the sub-trees '
        'of a `debug` tree are tried on a parser without debug=True - when none fails there the case is reported as it is; a sub-tree keeps the `fnset` of its case). '
        '(f) generated after (a)-(e) from the same stream (their draws are what they were without it): zero-argument calls of the '
        'registered builtins PI TRUE FALSE NA NOW TODAY RAND (reduced by the grammar rule of its own `FUNCTION ( )`) and ranges whose two '
        'corners share the row index, the column index or both while their $ markers differ. Kind `tree`: 36 fixed texts with the '
        'values a listener fixes (each builtin alone; SUM(A1,PI()*0,va), IF(TRUE(),A1,B2), IFERROR(NA(),A1)+B1, ARGS(NOW(),A1,RAND()), '
        'K7()+PI(), {PI(),TRUE()}, -PI(), NOSUCH(), SUM(), AND(), Vat(), ...; one on a debug parser), 16 fixed tied ranges (A$1:C1 A1:C$1 C$1:A1 '
        '$B2:B9 $B9:B2 $b$2:b9 $D$4:D4 $D4:D$4 A$1048576:XFD1048576, inside COUNT / ARGS / SUM), 420 / 7000 x scale seeded trees of (a) '
        'generated with two more leaf kinds: 16% of the leaves are a call with empty parentheses of PI (2 of 12) TRUE (2) FALSE NA NOW '
        '(2) TODAY RAND (2) or the custom K7, and 40% of the ranges are tied (one row / one column / one cell, equally likely; for a '
        'shared coordinate 3 of 4 with $ on one corner only - the first or the second, equally likely - else the same marker; a '
        'coordinate that is not shared written in either order with independent markers, mixed case); 8% of them are repeated on a '
        'debug parser; 90 / 1200 x scale seeded sessions of (d) generated the same way (30% of the pool ranges tied) and one '
        'fixed session of 7 steps. Each seeded tree / session carries `fnset`: for the zero-argument calls it holds (K7 only when '
        'all its K7 calls are written with empty parentheses) none (30%), all (20%) or each with p 0.6 gets one of 9 values {None, 0, '
        'False, 0.25, 7, True, "", "abc", 1999.5}; a callFunction listener (registered with the recording listeners) hands it '
        'to the setter of exactly the calls of that name that have no argument, through the call script of the name. Oracle as in '
        '(a) / (d): one callFunction event per call, the zero-argument ones with an empty argument list, in post-order; the total-tree '
        'strengthening also for trees holding zero-argument PI / TRUE / FALSE / RAND calls (and NOW / TODAY when the listener '
        'replaces the date), never NA. The RESULT of a clock / random call nobody fixes is judged by nothing (the '
        'model answers no-opinion at the first of them: its events must be a prefix). Grid of tied ranges: 8 x scale sampled / all 64 '
        'ordered pairs of the 8 grid labels, each giving a one-row, a one-column and a one-cell range, written with all 16 marker '
        'patterns of the two corners (each corner its own $ pattern, second corner lower case) plus one ARGS call per shape: 408 / 3264. '
        'Kind `reent`: 3 fixed scenarios (PI() / TRUE() / NA() / FALSE() and tied ranges in outer and stored formulas; no clock or random '
        'call, the two runs must agree). Kind `setter`: 260 / 2000 x scale plans (as in (b), 17 pool values) for NAME() of the 7 builtins, '
        'bare or handed to the capturing function CAP alone or inside SUM(A1,CAP(.),va)&K7(), ARGS(B2,CAP(.),va.vb), CAP(.)+nosuchvar, '
        'IF(TRUE,CAP(.),K7()); the plan\'s listeners act on the event of that name with no arguments only. Oracle: last non-None value, else '
        'what the builtin returns by itself (pi, TRUE, FALSE, #N/A; for NOW / TODAY / RAND nothing is demanded of the value then), same type, and '
        'exactly one callFunction event of that name; model: applySetters (for a clock / random call only when a value was supplied - the '
        'initial value, which cannot matter then, is sent as an unmodelled value). The scale-6 search family regenerates (f) alike '
        '(2520 trees, 540 sessions, 48 grid pairs, 1560 plans).')
TRUSTED = ['ply evaluates semantic actions bottom-up, left to right (the model evaluates the tree in post-order); tied by this '
           'correspondence check, not proved',
           'the tree the model parser builds for the formula text is the generating tree (C04/C05 correspondence); for fixed '
           'texts (fixed list, grid, fixed sessions and scenarios) the expected order is read off the tree the real ply '
           'tables build once the semantic actions are replaced by tree builders (fx.TreeParser), i.e. replacing the actions '
           'is trusted not to change what is reduced when',
           'hotxlfp.tinyemitter.Emitter.emit calls the registered listeners in registration order (C20); the model receives '
           'the setter calls already flattened in that order',
           'the one-shot tracer (once) and the self-unsubscribing listener (off) registered ahead of the recording listeners '
           'for each event set nothing and record nothing and are no part of the model request (the model knows no listener '
           'list): that their leaving during the first delivery of each kind costs no later listener its call, nor its '
           'value, is judged only through the log and the record (a skipped recording listener is a missing event)',
           'never_aborts, which decides for which seeded trees the oracle demands every event although the record carries '
           'an error, is a hand-written syntactic classification of the generating tree (not derived from the model; the '
           'model comparison demands the full event list independently)',
           'the model is stateless and has no notion of an evaluation in progress: sessions (d) and re-entrant hosts (e) '
           'are tied to it only by this check (each step / the outer formula with inner results as constants = `eval`); '
           'that a parser keeps no state between or across evaluations is not a Lean theorem',
           'the reference run of (e) uses the real implementation with one fresh Parser per inner formula (the pattern of '
           'tests/test_parser.py); both runs use the same deterministic listeners',
           'the values the listeners hand over (numbers, the text "abc" for one cell label in 20, lists of numbers for '
           'ranges) are functions of the upper-cased label(s) alone (zlib.crc32) and reach the '
           'model as its cell / range environment (for fixed texts through a token scan of the text); float results and the float '
           'arguments of function events are accepted within 4 ulps or 1e-9 relative (1e-9 * max(1, |model value|): the double arithmetic '
           'of the code against the model\'s exact rationals - a difference of nearly equal numbers loses more than a few ulps); values the model does not model '
           '(host objects, results of unmodelled builtins) are accepted as such',
           'harness mechanisms: copy.deepcopy for the recorded call arguments and the handed-over pool values (the host '
           'objects with their own equality copy to themselves and are looked at by identity only); the steps of a session '
           'are run once, in order, on one parser and each per-step case reads its slice of that log; a re-entrant host '
           'that nests beyond depth 12 is stopped by the harness (RuntimeError)',
           'key fnset: the model\'s `eval` has no function setter (setters are modelled by applySetters alone); a zero-argument call whose value '
           'a callFunction listener fixes to v (not None) reaches the model as a host function of that name returning v, which gives the '
           'same event (name, no arguments) and the value v; that the BUILTIN was still consulted or not is invisible to both sides. What '
           'NOW / TODAY / RAND return when nobody fixes them is compared with nothing; PI() is an unmodelled builtin (no-opinion); '
           'the generators\' switch _EXT is process state of the harness, set only while family (f) is generated',
           'key debug: what a parser constructed with debug=True prints goes to sys.stdout / sys.stderr only '
           '(contextlib.redirect_stdout / redirect_stderr into io.StringIO around the one parse); the model has no debug flag - the '
           'request of a debug case is that of the same formula without it']
ASSUMPTIONS = ['labels with a zero row or leading zeros (A0, A01) are outside the statement\'s label domain: order, multiplicity '
               'and the upper-cased cell label are still checked for them, coordinates (and a range with such a corner) only '
               'against the model; columns beyond XFD and rows beyond 1048576 are inside it',
               'when parse reports an error, the references after the point of failure are not required to raise events '
               '(the log must be a prefix of the post-order list); the oracle grants this whenever the record carries an '
               'error, an error VALUE (1/0, BOOM) included - there the full count is demanded by the model comparison only; '
               'except for seeded trees made only of constructs taken to be unable to RAISE (number literals, cell references, '
               'single defined variables, + - * / on them, flat SUM / ID / ARGS / K7 / Vat / net_of calls, ranges directly under SUM): there '
               'an error in the record can only be an error VALUE (division by zero is #DIV/0!, arithmetic on text - a text '
               'cell - is #VALUE!), nothing was aborted, and the oracle itself demands one event for every '
               'reference and call',
               'in a range the $ flag belongs to the row / column part it was written on; `the top-left and bottom-right cells however '
               'the corners were written` with `its absolute markers` is read per coordinate: rows (columns) are exchanged only when the '
               'first written row (column) lies below (right of) the second, and then the parts travel whole, index with marker; when it '
               'does not - in particular when both corners lie in the same row (column) - nothing is exchanged in that coordinate and each '
               'delivered corner carries the marker it was written with (A$1:C1 is A$1 : C1 and A1:C$1 is A1 : C$1; C$1:A1 is A$1 : C1, the '
               'columns exchanged, the rows not; $D$4:D4 is $D$4 : D4). This replaces the earlier reading that for a shared row (column) '
               'either part may be reported as the start (the Lean theorem range_corner_order_irrelevant still excludes that case; '
               'the rule itself is the definition of callRange in the model and is compared event by event). A corner label agrees with its '
               'coordinates when it is $-flag + column letters + $-flag + row number of exactly those parts, in upper case',
               'a function call written with empty parentheses is a function call like any other: it raises exactly one callFunction '
               'event with an empty argument list, whether the name is a registered builtin or a host function, and the last non-None '
               'value handed to that event\'s setter becomes the value of the call; for NOW / TODAY / RAND the statement fixes the value '
               'only when a listener supplies one',
               '`corresponding event` for a call = its name (and the number of argument slots for a flat argument list); the '
               'argument values are compared with the model only (and, for re-entrant hosts, with the non-re-entrant run); '
               'for a variable = the first name of a dotted sequence, once; literals, operators, arrays and omitted slots '
               'raise nothing; an unknown function raises no event (the evaluation ends there), an undefined variable does',
               '`becomes the value of the reference` is observed as the record of the bare reference or as the one argument a '
               'capturing function receives, and means the same type too (0, 0.0, False, "" pairwise different, a text that '
               'spells a number - "02134", "1e3", " 7 ", "12" - stays that text, character for character, lists '
               'element-wise, host objects the same object); the last non-None value over ALL listeners counts; handing over '
               'None equals not calling; without a value a cell / range is blank, a defined variable keeps its stored value, '
               'a call its return value or raised error; an undefined variable left without a value is #NAME? (C09, not '
               'judged here)',
               'the statement quantifies over formulas, not over parser histories: it is read as holding for every formula '
               'evaluated on a parser that has evaluated other formulas before, and for a formula whose host callbacks '
               'evaluate other formulas on the same parser meanwhile',
               'the statement holds whatever the debug setting the parser was constructed with: events, their order and fields, '
               'and the record of a parser constructed with debug=True are those of one constructed without (what it prints is no part of either)',
               'for re-entrant hosts the exemption for references after a point of failure covers only failures of the '
               'formula itself: whether one occurs is decided by the same formula evaluated with the inner results as '
               'constants; events of inner evaluations belong to the inner formulas (nesting-depth attribution)']
EXHAUSTIVE = {'quick': False, 'thorough': False}

UP = string.ascii_uppercase
DATE = datetime.datetime(2020, 2, 29, 12, 30)
class _OwnEq(object):
    """host values with an equality of their own: `mode` all = equal to everything, raise = comparing with a foreign
    operand raises, array = == / != are element-wise and their outcome has no truth value (numpy style).  The harness looks at
    them by identity only (deepcopy hands back the same object)."""

    class _Ambiguous(object):
        def __bool__(self):
            raise ValueError('The truth value of an array with more than one element is ambiguous')

    def __init__(self, mode):
        self.mode = mode

    def _cmp(self, other, eq):
        if self.mode == 'all':
            return eq
        if self.mode == 'raise':
            if isinstance(other, _OwnEq):
                return (self is other) == eq
            raise TypeError('_OwnEq can only be compared with _OwnEq')
        return _OwnEq._Ambiguous()

    def __eq__(self, other):
        return self._cmp(other, True)

    def __ne__(self, other):
        return self._cmp(other, False)

    __hash__ = object.__hash__

    def __deepcopy__(self, memo):
        return self

    def __repr__(self):
        return '_OwnEq(%r)' % self.mode


POOL = [None, 0, 0.0, False, '', 'x', 5, [], [1], DATE,     # setter values, by index
        _OwnEq('all'), _OwnEq('raise'), _OwnEq('array'),
        '02134', '1e3', ' 7 ', '12']                         # text that spells a number is text (a post code keeps its zero)
VARS = {'va': 53, 'vb': 2, 'v_c': 0.5, 'rate_x': 0, 'flag': True, 'txt': 'q7'}
CUSTOM = {'ID': '(first)', 'ARGS': '(args)', 'K7': '(const (i 7))', 'BOOM': '(raisexl div0)',
          'Vat': '(first)', 'net_of': '(args)'}          # host functions registered under names with lower-case letters
# registered builtins that take no argument: written with EMPTY parentheses they are reduced by the grammar rule of its own
# `FUNCTION ( )`.  CLOCK: what they return is not fixed by the formula (only a listener's setter fixes it)
ZERO = ['PI', 'TRUE', 'FALSE', 'NA', 'NOW', 'TODAY', 'RAND']
CLOCK = ('NOW', 'TODAY', 'RAND')
# what a callFunction listener hands over for a zero-argument call (case key `fnset`: name -> index), by index
FNVALS = [None, 0, False, 0.25, 7, True, '', 'abc', 1999.5]
_EXT = [False]          # generator switch: the scenario classes of (f) (zero-argument builtins, tied range corners)
MODELLED = ['SUM', 'IF', 'AND', 'OR', 'NOT', 'ISNUMBER', 'ISBLANK', 'N', 'IFERROR', 'ISTEXT']
UNMODELLED = ['MAX', 'ABS', 'COUNT']
_levels = [None]


def levels():
    if _levels[0] is None:
        _levels[0] = fx.prec_table()
    return _levels[0]


# ------------------------------------------------------------------ independent reference for labels

def ref_split(label):
    """'$ab$12' -> (col_abs, 'ab', row_abs, '12') or None; written without `re`"""
    i = 0
    ca = i < len(label) and label[i] == '$'
    if ca:
        i += 1
    j = i
    while j < len(label) and label[j] in string.ascii_letters:
        j += 1
    if j == i:
        return None
    letters = label[i:j]
    ra = j < len(label) and label[j] == '$'
    if ra:
        j += 1
    digits = label[j:]
    if digits == '' or any(c not in string.digits for c in digits):
        return None
    return ca, letters, ra, digits


def in_domain(label):
    """a label of the statement's domain: positive row number without leading zeros"""
    s = ref_split(label)
    return s is not None and s[3][0] != '0'


def usable(label):
    """a label whose row number is at least 1 (leading zeros allowed): its range corners recompose to labels"""
    s = ref_split(label)
    return s is not None and int(s[3]) >= 1


def ref_col_index(letters):
    n = 0
    for ch in letters.upper():
        n = n * 26 + (ord(ch) - 64)
    return n - 1


def ref_col_label(idx):
    s = ''
    n = idx + 1
    while n > 0:
        n, r = divmod(n - 1, 26)
        s = chr(65 + r) + s
    return s


def ref_parts(label):
    """-> (row part, col part) as (index, is_absolute) pairs"""
    ca, letters, ra, digits = ref_split(label)
    return (int(digits) - 1, ra), (ref_col_index(letters), ca)


def ref_compose(row, col):
    """label of a (row part, col part) pair, each (index, is_absolute)"""
    return ('$' if col[1] else '') + ref_col_label(col[0]) + ('$' if row[1] else '') + str(row[0] + 1)


def ref_range(a, b):
    """the two corner labels of the range written a:b (one admissible choice on ties)"""
    ra, ca = ref_parts(a)
    rb, cb = ref_parts(b)
    r1, r2 = (ra, rb) if ra[0] <= rb[0] else (rb, ra)
    c1, c2 = (ca, cb) if ca[0] <= cb[0] else (cb, ca)
    return ref_compose(r1, c1), ref_compose(r2, c2)


# ------------------------------------------------------------------ values the listeners hand over

def _h(s):
    return zlib.crc32(s.encode('utf-8'))


def cell_value(label_upper):
    h = _h('c' + label_upper) % 20
    if h < 3:
        return None          # no value: blank
    if h == 3:
        return 0
    if h == 4:
        return 0.5
    if h == 5:
        return 'abc'         # text: arithmetic on it is #VALUE! (an error VALUE: the references after it are still evaluated)
    return h - 4             # 2..15


def range_value(l1, l2):
    h = _h('r' + l1 + ':' + l2) % 5
    if h == 0:
        return None
    return [[1, 2, 3], [4], [2, 0.25], [7, 7, 7, 7]][h - 1]


def setter_script(key):
    """how the listener hands over the value v: a list of transformations (all end with v as the last non-None)"""
    return _h('s' + key) % 4


def hand_over(setter, v, mode):
    if v is None:
        if mode % 2:
            setter(None)         # handing over None is the same as not calling the setter
        return
    if mode == 0:
        setter(v)
    elif mode == 1:
        setter('junk')
        setter(v)
    elif mode == 2:
        setter(v)
        setter(None)
    else:
        setter(None)
        setter(99)
        setter(v)
        setter(None)


# ------------------------------------------------------------------ recording parser

def snapshot(v):
    try:
        return copy.deepcopy(v)
    except Exception:
        return v


def part(p):
    return (p.index, p.label, bool(p.is_absolute))


class DepthLog(list):
    """the ordered event log of one parser; each entry is attributed to the nesting depth at which it was raised
    (0 = the evaluation the harness started, d+1 = an evaluation started by a host callback during depth d)"""

    def __init__(self):
        list.__init__(self)
        self.d = 0
        self.depths = []

    def append(self, e):
        list.append(self, e)
        self.depths.append(self.d)


def new_parser(log, values=True, host=None, debug=False, fnset=None):
    """a fresh hotxlfp.Parser with one recording listener per event.  `host` (re-entrant scenarios): an object
    with `cells` / `names` (label / variable name -> formula the host stores there), `fns` (names of INDIRECT-like
    functions) and `evaluate(parser, formula) -> record`"""
    common.load_repo()
    import hotxlfp
    from hotxlfp.formulas import error
    p = hotxlfp.Parser(debug=True) if debug else hotxlfp.Parser()
    for k, v in VARS.items():
        p.set_variable(k, v)
    p.set_function('ID', lambda *a: a[0] if a else None)
    p.set_function('ARGS', lambda *a: list(a))
    p.set_function('K7', lambda *a: 7)
    p.set_function('Vat', lambda *a: a[0] if a else None)
    p.set_function('net_of', lambda *a: list(a))

    def boom(*a):
        raise error.DIV_ZERO
    p.set_function('BOOM', boom)

    def on_cell(cell, setter):
        log.append(('cell', cell.label, part(cell.row), part(cell.col)))
        if host is not None and cell.label in host.cells:
            # a cell that holds a formula: the host evaluates it and hands over its value
            rec = host.evaluate(p, host.cells[cell.label])
            hand_over(setter, rec['result'], setter_script(cell.label))
        elif values:
            hand_over(setter, cell_value(cell.label), setter_script(cell.label))

    def on_range(s, e, setter):
        log.append(('range', s.label, part(s.row), part(s.col), e.label, part(e.row), part(e.col)))
        if values and ref_split(s.label) is not None and ref_split(e.label) is not None:
            hand_over(setter, range_value(s.label, e.label), setter_script(s.label + e.label))

    def on_var(name, setter):
        log.append(('var', name))
        if host is not None and name in host.names:
            # a defined name that holds a formula
            setter(host.evaluate(p, host.names[name])['result'])

    def on_fn(name, args, setter):
        log.append(('fn', name, snapshot(args)))
        if fnset and name in fnset and len(args) == 0:
            # a host that fixes the value of exactly that call (freezes the clock, seeds the random number)
            hand_over(setter, snapshot(FNVALS[fnset[name]]), setter_script('f' + name))
    # ahead of the recording listeners: a one-shot tracer (once) and a listener that unsubscribes itself at its first call - hosts
    # do that - so that the listener list changes WHILE the first event of each kind is being delivered
    for ev in ('callCellValue', 'callRangeValue', 'callVariable', 'callFunction'):
        p.once(ev, lambda *a: None)

        def selfoff(*a, **kw):
            p.off(kw['_ev'], kw['_me'][0])
        me = []
        ctx = {'_ev': ev, '_me': me}
        me.append(selfoff)
        p.on(ev, selfoff, ctx)
    p.on('callCellValue', on_cell)
    p.on('callRangeValue', on_range)
    p.on('callVariable', on_var)
    p.on('callFunction', on_fn)
    if host is not None:
        def indirect(*a):
            # INDIRECT-like: evaluates its text argument as a formula
            rec = host.evaluate(p, a[0])
            if rec['error'] is not None and host.onerr:
                raise error.from_message(rec['error'])
            return rec['result']
        for name in host.fns:
            p.set_function(name, indirect)
    return p


# ------------------------------------------------------------------ generation

def gen_letters(rng):
    r = rng.random()
    if r < 0.35:
        return rng.choice(UP)
    if r < 0.55:
        return ''.join(rng.choice(UP) for _ in range(2))
    if r < 0.70:
        return ''.join(rng.choice(UP) for _ in range(3))
    if r < 0.78:
        return ''.join(rng.choice(UP) for _ in range(4))
    return rng.choice(['XFD', 'XFE', 'XFC', 'Z', 'AA', 'AZ', 'BA', 'ZZ', 'AAA', 'ZZZ', 'AAAA', 'ZZZZ', 'IV', 'A'])


def gen_row(rng):
    r = rng.random()
    if r < 0.5:
        return rng.randrange(1, 100)
    if r < 0.8:
        return rng.randrange(1, 1048577)
    if r < 0.9:
        return rng.choice([1, 9, 10, 99, 100, 65536, 1048575, 1048576])
    return rng.choice([1048577, 10 ** 7, 10 ** 9 + 7, 10 ** 12])


def mix_case(rng, letters):
    r = rng.random()
    if r < 0.4:
        return letters
    if r < 0.7:
        return letters.lower()
    return ''.join(rng.choice([c, c.lower()]) for c in letters)


def gen_label(rng, letters=None, row=None):
    letters = letters or gen_letters(rng)
    row = row or gen_row(rng)
    return ('$' if rng.random() < 0.4 else '') + mix_case(rng, letters) + ('$' if rng.random() < 0.4 else '') + str(row)


def gen_tied_range(rng, pool=None):
    """a range whose corners share the row index, the column index or both (one row / one column / one cell); for a shared
    coordinate the two corners carry DIFFERENT $ markers 3 times of 4 ($ on the first or on the second corner only), the same
    marker otherwise; a coordinate that is not shared is written in either order with independent markers"""
    if pool is not None:
        c1, c2 = rng.choice(pool['cols'])[0], rng.choice(pool['cols'])[0]
        r1, r2 = rng.choice(pool['rows'])[0], rng.choice(pool['rows'])[0]
    else:
        c1, c2 = gen_letters(rng), gen_letters(rng)
        r1, r2 = gen_row(rng), gen_row(rng)
    shape = rng.choice(['row', 'col', 'cell'])
    if shape != 'row':
        c2 = c1
    if shape != 'col':
        r2 = r1

    def markers(tied):
        if tied and rng.random() < 0.75:
            m = rng.random() < 0.5
            return m, not m
        if tied:
            m = rng.random() < 0.5
            return m, m
        return rng.random() < 0.4, rng.random() < 0.4
    ca, cb = markers(c1 == c2)
    ra, rb = markers(r1 == r2)
    if rng.random() < 0.5:
        (c1, ca), (c2, cb) = (c2, cb), (c1, ca)
    if rng.random() < 0.5:
        (r1, ra), (r2, rb) = (r2, rb), (r1, ra)
    return ('range', ('$' if ca else '') + mix_case(rng, c1) + ('$' if ra else '') + str(r1),
            ('$' if cb else '') + mix_case(rng, c2) + ('$' if rb else '') + str(r2))


def gen_range(rng):
    """two corners of a rectangle written in one of the four corner orders"""
    if _EXT[0] and rng.random() < 0.4:
        return gen_tied_range(rng)
    c1, c2 = gen_letters(rng), gen_letters(rng)
    r1, r2 = gen_row(rng), gen_row(rng)
    if rng.random() < 0.15:
        c2 = c1
    if rng.random() < 0.15:
        r2 = r1
    order = rng.randrange(4)
    (ca, ra), (cb, rb) = [((c1, r1), (c2, r2)), ((c2, r2), (c1, r1)), ((c1, r2), (c2, r1)), ((c2, r1), (c1, r2))][order]
    return ('range', gen_label(rng, ca, ra), gen_label(rng, cb, rb))


ANY, SCALAR, NUM = 0, 1, 2
# what a sub-expression may evaluate to: ANY (lists allowed), SCALAR (no list), NUM (no list, no text).  Lists under
# operators, text under arithmetic (dateutil parses "8a" as a time of day TODAY) are the business of C06/C07/C13;
# here they would only blur the comparison of values with the model.


def gen_pool(rng, big=False):
    """the labels one session talks about: a few columns x a few rows, the $ marker travelling with its column / row,
    so that the same label keeps coming back as a cell, as a written corner and as a normalised corner of ranges"""
    small_cols = ['A', 'B', 'C', 'D', 'E', 'Z', 'AA', 'AB', 'XFD', 'ZZ']
    nc, nr = rng.randrange(1, 4), rng.randrange(1, 4)
    if big:
        nc, nr = max(nc, 2), max(nr, 2)
    elif nc * nr == 1:
        nc = 2
    cols, rows = [], []
    while len(cols) < nc:
        x = rng.choice(small_cols) if rng.random() < 0.7 else gen_letters(rng)
        if x not in cols:
            cols.append(x)
    while len(rows) < nr:
        y = rng.randrange(1, 10) if rng.random() < 0.7 else gen_row(rng)
        if y not in rows:
            rows.append(y)
    pd = rng.choice([0.0, 0.0, 0.3, 0.6])            # half of the sessions write no $ at all
    return {'cols': [(x, rng.random() < pd) for x in cols], 'rows': [(y, rng.random() < pd) for y in rows],
            'reent': [], 'p_re': 0.0, 'forbid': set()}


def pool_label(rng, pool, col=None, row=None):
    (letters, ca) = col or rng.choice(pool['cols'])
    (rownum, ra) = row or rng.choice(pool['rows'])
    if rng.random() < 0.06:
        ca = not ca                                  # now and then another $ pattern of the same cell
    if rng.random() < 0.06:
        ra = not ra
    return ('$' if ca else '') + mix_case(rng, letters) + ('$' if ra else '') + str(rownum)


def pool_cell(rng, pool):
    for _ in range(20):
        lab = pool_label(rng, pool)
        if lab.upper() not in pool['forbid']:
            return ('cell', lab)
    return ('num', 'int', '1', '')


def pool_range(rng, pool):
    """both corners from the pool, picked independently: all four corner orders, one-row / one-column / one-cell ranges"""
    if _EXT[0] and rng.random() < 0.3:
        return gen_tied_range(rng, pool)
    return ('range', pool_label(rng, pool), pool_label(rng, pool))


def gen_leaf(rng, mode=ANY, pool=None):
    if _EXT[0] and rng.random() < 0.16:
        # a registered builtin called with EMPTY parentheses (half of the draws one whose value the formula does not fix)
        return ('call', rng.choice(['PI', 'PI', 'TRUE', 'TRUE', 'FALSE', 'NA', 'NOW', 'NOW', 'TODAY', 'RAND', 'RAND', 'K7']), 'empty', [], [])
    if pool is not None:
        if pool['reent'] and rng.random() < pool['p_re']:
            return _use(rng, rng.choice(pool['reent']))
        if rng.random() < 0.8:
            if rng.random() < 0.62:
                return pool_cell(rng, pool)
            rg = pool_range(rng, pool)
            return rg if mode == ANY else ('call', 'SUM', 'flat', [rg], [])
    r = rng.random()
    if r < 0.38:
        return ('cell', gen_label(rng))
    if r < 0.50:
        # a range may hold a list: where a scalar is needed it is summed
        return gen_range(rng) if mode == ANY else ('call', 'SUM', 'flat', [gen_range(rng)], [])
    if r < 0.62:
        return ('var', [rng.choice([k for k in VARS if mode != NUM or k != 'txt'])])
    if r < 0.65:
        return ('var', [rng.choice(['TRUE', 'FALSE', 'NULL'])])
    if r < 0.67:
        return ('var', [rng.choice(['va', 'vb', 'rate_x']), rng.choice(['b', 'vb'])])   # dotted sequence: one event, first name
    if r < 0.69:
        return ('var', [rng.choice(['nosuchvar', 'true', 'undefined_1'])])     # aborts with #NAME? after its event
    if r < 0.88 or (mode == NUM and r < 0.95):
        return ('num', 'int', str(rng.choice([0, 1, 2, 3, 5, 7, 10, 12])), '')
    if r < 0.91:
        return ('num', 'dec', str(rng.choice([1, 2, 3])), rng.choice(['5', '25']))
    if r < 0.95:
        return ('str', rng.choice(['', 'a', 'A1', 'x y', '12']))
    return ('call', 'K7', 'empty', [], [])


def gen_args(rng, depth, lo=1, hi=3, mode=ANY, pool=None):
    n = rng.randrange(lo, hi + 1)
    return [gen(rng, depth, mode, pool) for _ in range(n)]


def gen_call(rng, depth, mode=ANY, pool=None):
    r = rng.random()
    if r < 0.40 and mode == ANY:
        name = rng.choice(['ID', 'ARGS', 'ARGS', 'ID', 'ARGS', 'ARGS', 'Vat', 'net_of'])
    elif r < 0.50:
        name = 'K7'
    elif r < 0.80:
        name = rng.choice(MODELLED)
    elif r < 0.92:
        name = rng.choice(UNMODELLED)
    elif r < 0.96:
        name = 'BOOM'
    else:
        name = rng.choice(['NOSUCH', 'XYZZY'])
    sub = max(mode, SCALAR)
    if name == 'IF':
        args = gen_args(rng, depth - 1, 3, 3, sub, pool)
    elif name in ('NOT', 'N', 'ABS'):
        args = gen_args(rng, depth - 1, 1, 1, sub, pool)
    elif name in ('ISNUMBER', 'ISBLANK', 'ISTEXT'):
        args = gen_args(rng, depth - 1, 1, 1, ANY, pool)
    elif name == 'IFERROR':
        args = gen_args(rng, depth - 1, 2, 2, sub, pool)
    else:
        args = gen_args(rng, depth - 1, 1, 3, ANY, pool)
    r = rng.random()
    if name in ('ARGS', 'ID', 'net_of') and r < 0.12 and len(args) >= 2:
        k = rng.randrange(0, len(args) - 1)
        args = args[:k + 1] + ['blank'] + args[k + 1:]          # an omitted slot in the middle
        return ('call', name, 'flat', args, [])
    if name in ('ARGS', 'ID') and r < 0.2:
        return ('call', name, 'rows', gen_args(rng, depth - 1, 2, 3, ANY, pool), gen_args(rng, depth - 1, 2, 2, ANY, pool), ',')
    if r < 0.3:
        return ('call', name, 'flat', args, [], ';')
    return ('call', name, 'flat', args, [])


def gen(rng, depth, mode=ANY, pool=None):
    if depth <= 0 or rng.random() < 0.15:
        return gen_leaf(rng, mode, pool)
    r = rng.random()
    if r < 0.07:
        return ('neg', gen(rng, depth - 1, NUM, pool))
    if r < 0.27:
        op = rng.choice(['+', '+', '-', '*', '*', '/'])
        return ('bin', op, gen(rng, depth - 1, NUM, pool), gen(rng, depth - 1, NUM, pool))
    if r < 0.45:
        op = rng.choice(['=', '<>', '<', '>', '<=', '>='] if mode == NUM else ['&', '&', '=', '<>', '<', '>', '<=', '>='])
        return ('bin', op, gen(rng, depth - 1, SCALAR, pool), gen(rng, depth - 1, SCALAR, pool))
    if r < 0.92 or mode != ANY:
        return gen_call(rng, depth, mode, pool)
    return ('arr', 'flat', gen_args(rng, depth - 1, 1, 3, SCALAR, pool), [])


# ---- (d) sessions: several formulas, one after another, on one long-lived parser

def gen_session(rng, maxd):
    pool = gen_pool(rng)
    steps = []
    for _ in range(rng.choice([1, 2, 2, 3, 3, 4, 5, 6])):
        r = rng.random()
        if r < 0.2:
            t = pool_range(rng, pool)                # a bare range / a bare cell: the shortest way to meet a label again
        elif r < 0.35:
            t = pool_cell(rng, pool)
        else:
            t = gen(rng, rng.randrange(1, maxd + 1), ANY, pool)
        steps.append({'t': t, 'full': rng.random() < 0.2, 'ws': rng.randrange(1 << 30) if rng.random() < 0.2 else 0})
    return steps


SESSIONS = [
    ['SUM(B2:A1)+b2'], ['SUM(A2:B1)', 'a2'], ['B2:A1', 'A1', 'B2', 'b2:a1', 'A1:B2', 'a2:b1', 'B1:A2', 'A2', 'B1', 'a1'],
    ['$B$2:a1', '$b$2', 'A1', '$B2', 'B$2', '$A$1:$B$2', 'a1:$b$2'], ['A1', 'A1', 'a1+A1', 'SUM(A1,a1,A1:A1)'],
    ['ARGS(C3:A1,c3,a1,C1,A3,A1:C3)', 'ARGS(A3:C1,a3,c1,A1,C3)'], ['XFD1048576:A1', 'xfd1048576+A1', 'A1048576', 'XFD1'],
    ['nosuchvar+A1', 'A1', 'B2:A1', 'BOOM(b2)+a1', 'b2'], ['A1:B2', 'B2:A1', 'A2:B1', 'B1:A2', 'A1:B2'], ['b1:A1', 'B1', 'A1:a1', 'A1'],
]


# ---- (e) re-entrant hosts: callbacks that evaluate further formulas on the same parser

HOST_NAMES = ['nf_a', 'nf_b', 'named_c']             # defined names that hold a formula
HOST_FNS = ['EVALF', 'INDIR', 'REF_TO']               # INDIRECT-like custom functions


def _use(rng, item):
    """a reference to a host-evaluated thing, as a leaf of a tree"""
    if item[0] == 'cell':
        return ('cell', ''.join(rng.choice([ch, ch.lower()]) for ch in item[1]))
    if item[0] == 'name':
        return ('var', [item[1]])
    return ('call', item[1], 'flat', [('str', item[2])], [])


def _labels_of(t, acc):
    """upper-cased labels of the plain cell references and names of the variables of a tree"""
    if t == 'blank':
        return acc
    k = t[0]
    if k == 'cell':
        acc.add(('cell', t[1].upper()))
    elif k == 'var':
        acc.add(('name', t[1][0]))
    elif k == 'neg':
        _labels_of(t[1], acc)
    elif k == 'bin':
        _labels_of(t[2], acc)
        _labels_of(t[3], acc)
    elif k == 'call':
        if t[1] in HOST_FNS and t[3] and t[3][0] != 'blank' and t[3][0][0] == 'str':
            acc.add(('fn', t[1], t[3][0][1]))
        for x in list(t[3]) + list(t[4]):
            _labels_of(x, acc)
    elif k == 'arr':
        for x in list(t[2]) + list(t[3]):
            _labels_of(x, acc)
    return acc


def gen_reent(rng, maxd):
    """-> case or None.  The host stores formulas in some cells / defined names and offers INDIRECT-like functions;
    the things are ranked, the formula of a thing only uses things of higher rank (no cycles)."""
    pool = gen_pool(rng, big=True)
    n = rng.choice([1, 1, 2, 2, 3, 4])
    kinds = [rng.choice(['cell', 'cell', 'cell', 'fn', 'fn', 'name']) for _ in range(n)]
    labels = sorted(set(('$' if ca else '') + x + ('$' if ra else '') + str(y) for x, ca in pool['cols'] for y, ra in pool['rows']))
    rng.shuffle(labels)
    labels = labels[:max(1, len(labels) - 1)]          # at least one plain cell stays
    names, fns = list(HOST_NAMES), list(HOST_FNS)
    items = [None] * n
    for i in range(n):
        if kinds[i] == 'cell' and labels:
            items[i] = ['cell', labels.pop()]
        elif kinds[i] == 'name' and names:
            items[i] = ['name', names.pop(0)]
        elif fns:
            items[i] = ['fn', fns.pop(0), None]
        else:
            return None
    host_cells = set(it[1] for it in items if it[0] == 'cell')
    c = {'kind': 'reent', 'cells': {}, 'names': {}, 'fns': {}, 'texts': {}, 'onerr': rng.randrange(2)}
    for i in reversed(range(n)):
        later = [tuple(x) for x in items[i + 1:]]
        it = items[i]
        for _ in range(30):
            sub = dict(pool, forbid=host_cells, p_re=0.3,
                       reent=[x for x in later if it[0] != 'fn' or x[0] != 'fn'])
            t = gen(rng, rng.randrange(0, 3), NUM, sub)
            f = fx.render(t, levels=levels())
            if it[0] != 'fn' or ('"' not in f and "'" not in f and f not in c['texts']):
                break
        else:
            return None
        st = {'t': t, 'f': f}
        if it[0] == 'cell':
            c['cells'][it[1]] = st
        elif it[0] == 'name':
            c['names'][it[1]] = st
        else:
            it[2] = f
            c['fns'][it[1]] = f
            c['texts'][f] = st
    allitems = [tuple(x) for x in items]
    out_pool = dict(pool, forbid=host_cells, reent=allitems, p_re=0.3)

    def plain(d):
        return gen(rng, rng.randrange(0, d + 1), NUM, dict(out_pool, p_re=0.1))
    shape = rng.randrange(6)
    R = _use(rng, rng.choice(allitems))
    op = rng.choice(['+', '+', '-', '*', '=', '<', '>='])
    op2 = rng.choice(['+', '-', '*'])
    if shape == 0:
        t = ('bin', op, R, plain(maxd - 1))                                          # first thing the outer formula does
    elif shape == 1:
        t = ('bin', op, plain(maxd - 1), R)                                          # last thing
    elif shape == 2:
        t = ('bin', op2, ('bin', op2, plain(maxd - 2), R), plain(maxd - 2))          # in the middle
    elif shape == 3:
        t = ('call', rng.choice(['ARGS', 'SUM', 'ID', 'MAX']), 'flat', [plain(maxd - 2), R, plain(maxd - 2)], [])
        if rng.random() < 0.5:
            t = ('bin', op, t, plain(1))
    else:
        for _ in range(20):
            t = gen(rng, rng.randrange(1, maxd + 1), ANY, out_pool)
            if any(x in allitems for x in _labels_of(t, set())):
                break
        else:
            t = ('bin', op, R, plain(maxd - 1))
    f = fx.render(t, full=rng.random() < 0.2, levels=levels())
    if '"' not in f and rng.random() < 0.2:
        f = c04.add_space(random.Random(rng.randrange(1 << 30)), f)
    c['outer'] = {'t': t, 'f': f}
    return c if _acyclic(c) else None


def _acyclic(c):
    """no host-evaluated thing reaches itself"""
    graph = {}
    for kind, d in (('cell', c['cells']), ('name', c['names'])):
        for key, st in d.items():
            graph[(kind, key)] = _labels_of(_fix(st['t']), set()) if 't' in st else None
    for fname, text in c['fns'].items():
        st = c['texts'][text]
        graph[('fn', fname, text)] = _labels_of(_fix(st['t']), set()) if 't' in st else None
    if any(v is None for v in graph.values()):
        return True                                   # fixed corpus entries are acyclic by hand
    state = {}

    def visit(k):
        if state.get(k) == 1:
            return False
        if state.get(k) == 2:
            return True
        state[k] = 1
        for j in graph[k]:
            if j in graph and not visit(j):
                return False
        state[k] = 2
        return True
    return all(visit(k) for k in graph)


REENT = [
    # the two witnesses of the missed change, then begin / middle / end, nesting, errors inside
    {'outer': 'REF_TO("B1")+C1*rate_x', 'fns': {'REF_TO': 'B1'}},
    {'outer': 'SUM(A1,C1)+D1', 'cells': {'A1': 'B1*2'}},
    {'outer': 'A1', 'cells': {'A1': 'B1*2'}}, {'outer': 'C1+A1', 'cells': {'A1': 'B1*2'}},
    {'outer': 'A1+C1', 'cells': {'A1': 'B1*2'}}, {'outer': 'C1+A1+va*D1', 'cells': {'A1': 'B1*2'}},
    {'outer': 'ARGS(C1,a1,D1:C2,vb)&K7()', 'cells': {'A1': 'B1*2'}},
    {'outer': 'SUM(A1,B1,D1)&va', 'cells': {'A1': 'B1+1', 'B1': 'SUM(C1:D2)*nf_a', }, 'names': {'nf_a': 'D1+vb'}},
    {'outer': 'A1+A1+a1', 'cells': {'A1': 'B1+C1'}}, {'outer': 'nf_a*2+B1', 'names': {'nf_a': 'A1+1'}},
    {'outer': 'EVALF("A1+B1")+INDIR("SUM(B2:A1)")+C1', 'fns': {'EVALF': 'A1+B1', 'INDIR': 'SUM(B2:A1)'}},
    {'outer': 'A1+C1', 'cells': {'A1': 'nosuchvar+B1'}}, {'outer': 'IFERROR(EVALF("1/0"),B1)+C1', 'fns': {'EVALF': '1/0'}, 'onerr': 1},
    {'outer': 'A1+C1', 'cells': {'A1': 'B1+'}}, {'outer': 'ID(EVALF("B1)"))+C1', 'fns': {'EVALF': 'B1)'}},
    {'outer': 'B2:A1+EVALF("b2")+a1', 'fns': {'EVALF': 'b2'}},
]


def _reent_fixed(d):
    c = {'kind': 'reent', 'outer': {'f': d['outer']}, 'cells': {k: {'f': v} for k, v in d.get('cells', {}).items()},
         'names': {k: {'f': v} for k, v in d.get('names', {}).items()}, 'fns': dict(d.get('fns', {})),
         'texts': {v: {'f': v} for v in d.get('fns', {}).values()}, 'onerr': d.get('onerr', 0)}
    return c


def _fix(t):
    """JSON round trip turns tuples into lists"""
    if isinstance(t, (list, tuple)) and t and isinstance(t[0], str) and t[0] in (
            'num', 'str', 'neg', 'bin', 'call', 'var', 'cell', 'range', 'arr', 'errlit'):
        k = t[0]
        if k == 'neg':
            return ('neg', _fix(t[1]))
        if k == 'bin':
            return ('bin', t[1], _fix(t[2]), _fix(t[3]))
        if k == 'call':
            return ('call', t[1], t[2], [_fix(x) for x in t[3]], [_fix(x) for x in t[4]]) + tuple(t[5:])
        if k == 'arr':
            return ('arr', t[1], [_fix(x) for x in t[2]], [_fix(x) for x in t[3]]) + tuple(t[4:])
        if k == 'var':
            return ('var', list(t[1]))
        return tuple(t)
    return t


def postorder(t):
    """the reference / call nodes of the tree in post-order"""
    if t == 'blank':
        return []
    k = t[0]
    if k in ('num', 'str', 'errlit'):
        return []
    if k == 'neg':
        return postorder(t[1])
    if k == 'bin':
        return postorder(t[2]) + postorder(t[3])
    if k == 'call':
        res = []
        for x in t[3]:
            res += postorder(x)
        for x in t[4]:
            res += postorder(x)
        nslots = len(t[3]) if t[2] in ('flat', 'empty') else None
        return res + [('fn', t[1], nslots)]
    if k == 'arr':
        res = []
        for x in t[2]:
            res += postorder(x)
        for x in t[3]:
            res += postorder(x)
        return res
    if k == 'var':
        return [('var', t[1][0])]
    if k == 'cell':
        return [('cell', t[1])]
    if k == 'range':
        return [('range', t[1], t[2])]
    raise ValueError(t)


def formula_of(c):
    if c.get('kind') == 'session':
        c = c['steps'][c['k']]
    elif c.get('kind') == 'reent':
        c = c['outer']
    if 'f' in c:
        return c['f']
    t = _fix(c['t'])
    s = fx.render(t, full=bool(c.get('full')), levels=levels())
    if c.get('ws'):
        s = c04.add_space(random.Random(c['ws']), s)
    return s


def gen_fnset(rng, trees):
    """which of the zero-argument calls of the trees a callFunction listener fixes, and to which FNVALS index: none (30%), all
    (20%) or each with p 0.6; K7 only when every K7 call of the trees is written with empty parentheses (the listener fixes the
    call without arguments, the model knows a fixed call only as a host function of that name)"""
    names, k7_args = set(), False
    for t in trees:
        for e in postorder(t):
            if e[0] == 'fn' and e[2] == 0 and (e[1] in ZERO or e[1] == 'K7'):
                names.add(e[1])
            elif e[0] == 'fn' and e[1] == 'K7':
                k7_args = True
    if k7_args:
        names.discard('K7')
    mode = rng.random()
    p = 0.0 if mode < 0.3 else (1.0 if mode < 0.5 else 0.6)
    fs = {}
    for n in sorted(names):
        if rng.random() < p:
            fs[n] = rng.randrange(len(FNVALS))
    return fs


# (f) fixed texts: zero-argument builtins alone and inside larger formulas (with the FNVALS indexes a listener fixes them to),
# ranges whose corners share a row / column index with $ on one corner only
ZERO_FIXED = [
    ('PI()', {}), ('TRUE()', {}), ('FALSE()', {}), ('NA()', {}), ('NOW()', {}), ('TODAY()', {}), ('RAND()', {}),
    ('SUM(A1,PI()*0,va)', {}), ('SUM(A1,PI()*0,va)', {'PI': 4}), ('IF(TRUE(),A1,B2)', {}), ('IF(TRUE(),A1,B2)', {'TRUE': 2}),
    ('IFERROR(NA(),A1)+B1', {}), ('IFERROR(NA(),A1)+B1', {'NA': 1}), ('ARGS(NOW(),A1,RAND())', {}),
    ('ARGS(NOW(),A1,RAND())', {'NOW': 8, 'RAND': 1}), ('RAND()+1', {'RAND': 1}), ('A1+RAND()+B1', {}), ('A1+NOW()+B1', {'NOW': 3}),
    ('TODAY()-A1', {'TODAY': 8}), ('K7()+PI()', {'K7': 1, 'PI': 1}), ('ID(PI())&K7()', {'PI': 6}), ('{PI(),TRUE()}', {'TRUE': 2}),
    ('NOT(FALSE())', {'FALSE': 5}), ('-PI()', {'PI': 4}), ('PI()*PI()+pi', {'PI': 3}), ('SUM(B2:A1,RAND(),TODAY())', {'RAND': 1}),
    ('NOSUCH()', {}), ('BOOM()+PI()', {}), ('Vat()', {}), ('net_of()', {}), ('ARGS()', {}), ('SUM()', {}), ('AND()', {}),
    ('SUM(A1,K7(),va)', {'K7': 1}), ('vb+TRUE()*2', {}), (' PI() + A1 ', {}),
]
TIED_FIXED = ['A$1:C1', 'A1:C$1', 'C$1:A1', 'C1:A$1', '$B2:B9', 'B2:$B9', '$B9:B2', 'B9:$b2', '$b$2:b9', '$D$4:D4', 'D4:$D$4',
              '$D4:D$4', 'A$1048576:XFD1048576', 'SUM(1,2)+COUNT(A$1048576:XFD1048576)', 'ARGS(A$1:C1,a1,C$1)', 'SUM($B2:B9)+SUM(B2:$B9)']


GRID_LABELS = [('A', 1), ('B', 5), ('Z', 9), ('AA', 10), ('XFD', 1048576), ('XFE', 1048577), ('ZZZZ', 100), ('iv', 65536)]


def cases(rng, ctx):
    thorough = ctx['tier'] == 'thorough'
    scale = ctx['scale']
    out = []
    # fixed formulas (the defect that was repaired, the extremes, aborts, omitted slots, rows, arrays)
    for f in ['B5:a1', 'A1:B5', 'a5:B1', 'B1:A5', '$B$5:a1', 'b$5:$A1', 'SUM(B5:a1)', '$xfd$1048576', 'xfd1048576', 'XFE1048577',
              'SUM(A1,ID(B5:a1,va))=K7($xfd$1048576)', 'A1+B2*C3', 'A1+A1+a1', 'ID(ID(ID(A1)))', 'ARGS(A1,B1:C2,va,K7())',
              'IF(A1,B1,C1)', 'va.vb+1', 'nosuchvar+A1', 'A1+nosuchvar+B1', 'NOSUCH(A1)+B1', 'A1+#REF!+B1', 'BOOM(A1)+B1',
              'IFERROR(BOOM(A1),B1)', 'ID(,A1)', 'ARGS(A1,,B1)', 'ARGS(A1;B1)', 'ARGS(A1,B1;C1,D1)', 'SUM({A1,B2;C3,D4})',
              '{A1,b2}', '-A1', '-(A1:B2)', 'TRUE', 'K7()', 'A1:A1', '$A1:A$1', 'A$1:$A1', 'A1:$A$1', 'A1/0+B1', '1/A0',
              'A0', 'A01', 'a007:B03', 'MAX(A1,B2)+C3', ' A1 + B2 ', 'A1&B1&va']:
        out.append({'kind': 'tree', 'f': f})
    n = (30000 if thorough else 1500) * scale
    maxd = 7 if thorough else 5
    for _ in range(n):
        t = gen(rng, rng.randrange(0, maxd + 1))
        out.append({'kind': 'tree', 't': t, 'full': rng.random() < 0.3, 'ws': rng.randrange(1 << 30) if rng.random() < 0.3 else 0})
        if rng.random() < 0.12:
            out.append(dict(out[-1], debug=True))          # the same tree on a parser constructed with debug=True
    for f in ['SUM(A1:A3)*B1+K7()*nosuchvar', 'B1+NOSUCH(A1,A1:A3)', 'A1+#N/A', 'A1+B2*C3', 'BOOM(A1)+B1', 'va+A1']:
        out.append({'kind': 'tree', 'f': f, 'debug': True})
    # (c) grid: label pairs x $ patterns x case x corner orders, alone and inside a call
    pats = [(a, b) for a in ('', '$') for b in ('', '$')]
    pairs = [(p, q) for p in GRID_LABELS for q in GRID_LABELS]
    if not thorough:
        pairs = rng.sample(pairs, min(len(pairs), 12 * scale))
    for (c1, r1), (c2, r2) in pairs:
        for (ca, ra) in pats:
            for (cb, rb) in (pats if thorough else [rng.choice(pats)]):
                for order in range(4):
                    (x1, y1, x2, y2) = [(c1, r1, c2, r2), (c2, r2, c1, r1), (c1, r2, c2, r1), (c2, r1, c1, r2)][order]
                    # the marker travels with its row / column
                    m = {c1: ca, c2: cb, r1: ra, r2: rb}
                    a = m[x1] + (x1.lower() if order % 2 else x1.upper()) + m[y1] + str(y1)
                    b = m[x2] + x2 + m[y2] + str(y2)
                    out.append({'kind': 'tree', 'f': '%s:%s' % (a, b)})
        out.append({'kind': 'tree', 'f': 'ARGS(%s%d,%s$%d)' % (c1, r1, c2.lower(), r2)})
    # (d) sessions on one long-lived parser: one case per step, every step carries the whole session
    for fs in SESSIONS:
        steps = [{'f': f} for f in fs]
        out += [{'kind': 'session', 'steps': steps, 'k': k} for k in range(len(steps))]
    for _ in range((5000 if thorough else 350) * scale):
        steps = gen_session(rng, 3 if rng.random() < 0.7 else maxd - 1)
        out += [{'kind': 'session', 'steps': steps, 'k': k} for k in range(len(steps))]
    # (e) re-entrant hosts
    out += [_reent_fixed(d) for d in REENT]
    for _ in range((6000 if thorough else 400) * scale):
        c = gen_reent(rng, 3 if rng.random() < 0.7 else maxd - 1)
        if c is not None:
            out.append(c)
    # (b) setter protocols
    m = (6000 if thorough else 700) * scale
    for _ in range(m):
        ev = rng.choice(['cell', 'range', 'var', 'fn'])
        c = {'kind': 'setter', 'ev': ev, 'wrap': rng.random() < 0.4,
             'plan': [[rng.randrange(len(POOL)) for _ in range(rng.randrange(0, 4))] for _ in range(rng.randrange(0, 4))]}
        if rng.random() < 0.25:      # mostly-None plans: the default must survive
            c['plan'] = [[0 for _ in p] for p in c['plan']]
        if ev == 'cell':
            c['target'] = gen_label(rng)
        elif ev == 'range':
            r = gen_range(rng)
            c['target'] = r[1] + ':' + r[2]
        elif ev == 'var':
            c['target'] = 'vx'
            c['init'] = rng.choice([None, 1, 2, 3, 4, 5, 6, 7, 8, 9, 13, 14, 15, 16])      # POOL index of the stored value; None = undefined
        else:
            c['fnkind'] = rng.choice(['custom', 'custom', 'builtin', 'raise'])
            c['init'] = rng.randrange(len(POOL))                            # POOL index of the custom function's return value
            c['target'] = {'custom': 'FN(1)', 'builtin': 'SUM(1,2)', 'raise': 'BOOM(1)'}[c['fnkind']]
        out.append(c)
    out += cases_f(rng, thorough, scale, maxd)
    return out


def cases_f(rng, thorough, scale, maxd):
    """(f) zero-argument calls of registered builtins and ranges whose corners share a row / column index; generated AFTER
    the families (a)-(e) so that their random stream is what it was"""
    out = []
    for f, fs in ZERO_FIXED:
        out.append({'kind': 'tree', 'f': f, 'fnset': fs})
    out += [{'kind': 'tree', 'f': f} for f in TIED_FIXED]
    out.append({'kind': 'tree', 'f': 'A1+PI()*TRUE()', 'fnset': {'PI': 4}, 'debug': True})
    _EXT[0] = True
    try:
        # seeded trees whose leaves include zero-argument builtins and tied ranges
        for _ in range((7000 if thorough else 420) * scale):
            t = gen(rng, rng.randrange(0, maxd + 1))
            c = {'kind': 'tree', 't': t, 'full': rng.random() < 0.3, 'ws': rng.randrange(1 << 30) if rng.random() < 0.3 else 0,
                 'fnset': gen_fnset(rng, [t])}
            out.append(c)
            if rng.random() < 0.08:
                out.append(dict(c, debug=True))
        # seeded sessions of such formulas on one long-lived parser; the listener's fixings hold for the whole session
        for _ in range((1200 if thorough else 90) * scale):
            steps = gen_session(rng, 3 if rng.random() < 0.7 else maxd - 1)
            fs = gen_fnset(rng, [st['t'] for st in steps])
            for st in steps:
                st['fnset'] = fs
            out += [{'kind': 'session', 'steps': steps, 'k': k} for k in range(len(steps))]
    finally:
        _EXT[0] = False
    out.append({'kind': 'session', 'k': 0, 'steps': [{'f': f, 'fnset': {'NOW': 8, 'TRUE': 2}} for f in
                                                      ['NOW()', 'A$1:C1', 'NOW()+A1', 'C$1:A1', 'IF(TRUE(),PI(),RAND())', 'A1:C$1', 'TRUE()']]})
    out += [dict(out[-1], k=k) for k in range(1, 7)]
    # grid of tied ranges: every ordered pair of grid labels gives a one-row, a one-column and a one-cell range, written with
    # all 16 marker patterns of the two corners (each corner its own $ pattern); one pattern per shape inside a call
    pats = [(a, b) for a in ('', '$') for b in ('', '$')]
    pairs = [(p, q) for p in GRID_LABELS for q in GRID_LABELS]
    if not thorough:
        pairs = rng.sample(pairs, min(len(pairs), 8 * scale))
    for (c1, r1), (c2, r2) in pairs:
        for (x2, y2) in ((c2, r1), (c1, r2), (c1, r1)):
            for (ca, ra) in pats:
                for (cb, rb) in pats:
                    out.append({'kind': 'tree', 'f': '%s%s%s%d:%s%s%s%d' % (ca, c1, ra, r1, cb, x2.lower(), rb, y2)})
            (ca, ra), (cb, rb) = rng.choice(pats), rng.choice(pats)
            out.append({'kind': 'tree', 'f': 'ARGS(%s%s%s%d:%s%s%s%d,%s%d)' % (ca, c1.lower(), ra, r1, cb, x2, rb, y2, x2, y2)})
    # re-entrant hosts whose stored formulas / outer formula call zero-argument builtins with a value of their own
    out += [_reent_fixed(d) for d in [
        {'outer': 'A1+PI()*0+C1', 'cells': {'A1': 'B1*TRUE()'}},
        {'outer': 'IF(TRUE(),EVALF("PI()+B1"),NA())+C1', 'fns': {'EVALF': 'PI()+B1'}},
        {'outer': 'SUM(A$1:C1)+nf_a', 'names': {'nf_a': 'SUM($B2:B9)+FALSE()'}}]]
    # setter protocols for a zero-argument builtin call, bare, captured, captured inside a larger formula
    for _ in range((2000 if thorough else 260) * scale):
        c = {'kind': 'setter', 'ev': 'fn', 'fnkind': 'zero', 'zname': rng.choice(ZERO), 'frame': rng.randrange(len(ZFRAMES)),
             'plan': [[rng.randrange(len(POOL)) for _ in range(rng.randrange(0, 4))] for _ in range(rng.randrange(0, 4))]}
        if rng.random() < 0.25:
            c['plan'] = [[0 for _ in p] for p in c['plan']]
        c['wrap'] = c['frame'] != 0
        c['target'] = c['zname'] + '()'
        c['init'] = 0
        out.append(c)
    return out


ZFRAMES = ['%s', 'CAP(%s)', 'SUM(A1,CAP(%s),va)&K7()', 'ARGS(B2,CAP(%s),va.vb)', 'CAP(%s)+nosuchvar', 'IF(TRUE,CAP(%s),K7())']


# ------------------------------------------------------------------ running

def _setter_formula(c):
    if 'frame' in c:
        return ZFRAMES[c['frame']] % c['target']     # frame 0 is the bare call, the others hand it to the capturing function
    return ('CAP(%s)' % c['target']) if c['wrap'] else c['target']


_last_session = [None, None]


def _session_fnset(steps):
    """what the callFunction listener of the session's parser fixes (the same for all steps)"""
    for st in steps:
        if st.get('fnset'):
            return st['fnset']
    return None


def _fnset_of(c):
    if c['kind'] == 'session':
        return _session_fnset(c['steps'])
    return c.get('fnset') if c['kind'] == 'tree' else None


def run_session(steps):
    """all formulas of the session, in order, on ONE parser; -> per step its record and the events it raised"""
    key = json.dumps(steps, sort_keys=True)
    if _last_session[0] != key:
        log = []
        p = new_parser(log, fnset=_session_fnset(steps))
        res = []
        for st in steps:
            f = formula_of(st)
            a = len(log)
            rec = p.parse(f)
            res.append({'f': f, 'rec': rec, 'log': log[a:]})
        _last_session[0], _last_session[1] = key, res
    return _last_session[1]


class Host(object):
    """what the host stores / offers in a re-entrant scenario.  `nested`: evaluate on the SAME parser while the outer
    evaluation is in progress; otherwise every inner formula gets a parser of its own (the reference behaviour: the
    inner results are mere constants for the outer evaluation)"""
    MAX_DEPTH = 12

    def __init__(self, c, log, nested):
        self.cells = {k: formula_of(v) for k, v in c['cells'].items()}
        self.names = {k: formula_of(v) for k, v in c['names'].items()}
        self.fns = dict(c['fns'])
        self.onerr = c.get('onerr', 0)
        self.log = log
        self.nested = nested
        self.inner = []
        self.memo = {}
        self.c = c

    def evaluate(self, p, formula):
        if not self.nested:
            if formula not in self.memo:
                self.memo[formula] = run_flat(self.c, formula, self.memo)
            return self.memo[formula]['rec']
        log = self.log
        if log.d >= self.MAX_DEPTH:
            raise RuntimeError('harness: runaway nesting')
        log.d += 1
        d, a = log.d, len(log)
        try:
            rec = p.parse(formula)
        finally:
            log.d -= 1
        self.inner.append({'f': formula, 'depth': d, 'rec': rec,
                           'log': [e for e, dd in zip(log[a:], log.depths[a:]) if dd == d]})
        return rec


def run_flat(c, formula, memo):
    log = DepthLog()
    host = Host(c, log, False)
    host.memo = memo
    p = new_parser(log, host=host)
    rec = p.parse(formula)
    return {'f': formula, 'rec': rec, 'log': list(log)}


def run_reent(c):
    log = DepthLog()
    host = Host(c, log, True)
    p = new_parser(log, host=host)
    f = formula_of(c)
    rec = p.parse(f)
    memo = {}
    flat = run_flat(c, f, memo)
    for i in host.inner:
        if i['f'] not in memo:
            memo[i['f']] = run_flat(c, i['f'], memo)
    return {'f': f, 'rec': rec, 'log': [e for e, d in zip(log, log.depths) if d == 0], 'inner': host.inner,
            'flat': flat, 'flat_inner': memo}


def impl(c):
    if c['kind'] == 'tree':
        log = []
        p = new_parser(log, debug=bool(c.get('debug')), fnset=c.get('fnset'))
        f = formula_of(c)
        if c.get('debug'):
            # a parser constructed with debug=True prints what it meets; the events and the record are what they are without it
            import contextlib
            import io
            with contextlib.redirect_stderr(io.StringIO()), contextlib.redirect_stdout(io.StringIO()):
                rec = p.parse(f)
        else:
            rec = p.parse(f)
        return {'f': f, 'rec': rec, 'log': log}
    if c['kind'] == 'session':
        res = dict(run_session(c['steps'])[c['k']])
        res['before'] = [formula_of(st) for st in c['steps'][:c['k']]]
        return res
    if c['kind'] == 'reent':
        return run_reent(c)
    # setter protocol
    from hotxlfp.formulas import error
    log = []
    p = new_parser(log, values=False)
    captured = []
    p.set_function('CAP', lambda *a: captured.append(a[0] if a else None))
    ev = c['ev']
    if ev == 'var' and c.get('init') is not None:
        p.set_variable('vx', POOL[c['init']])
    if ev == 'fn':
        p.set_function('FN', lambda *a: snapshot(POOL[c['init']]))
    name = {'cell': 'callCellValue', 'range': 'callRangeValue', 'var': 'callVariable', 'fn': 'callFunction'}[ev]
    fname = c['target'].split('(')[0] if ev == 'fn' else None
    calls = []

    def make(plan):
        def listener(*args):
            if ev == 'fn' and (args[0] != fname or (c.get('fnkind') == 'zero' and len(args[1]) != 0)):
                return
            if ev == 'var' and args[0] != 'vx':
                return
            for i in plan:
                v = snapshot(POOL[i])
                calls.append(v)
                args[-1](v)
        return listener
    for plan in c['plan']:
        p.on(name, make(plan))
    f = _setter_formula(c)
    rec = p.parse(f)
    return {'f': f, 'rec': rec, 'log': log, 'calls': calls, 'captured': captured}


def _init_value(c):
    """what result['value'] holds before emit: (known?, value)"""
    from hotxlfp.formulas import error
    ev = c['ev']
    if ev in ('cell', 'range'):
        return True, None
    if ev == 'var':
        if c.get('init') is None:
            return False, None          # undefined variable
        return True, POOL[c['init']]
    if c['fnkind'] == 'custom':
        return True, POOL[c['init']]
    if c['fnkind'] == 'zero':
        # what the builtin returns by itself; the clock and the random number are not fixed by the formula
        import math
        if c['zname'] in CLOCK:
            return False, None
        return True, {'PI': math.pi, 'TRUE': True, 'FALSE': False, 'NA': error.NOT_AVAILABLE}[c['zname']]
    if c['fnkind'] == 'builtin':
        return True, 3
    return True, error.DIV_ZERO


def same(a, b):
    """equal with equal types (0, 0.0, False and '' are all different)"""
    if a is b:
        return True
    if type(a) is not type(b) or isinstance(a, _OwnEq):
        return False
    if isinstance(a, list):
        return len(a) == len(b) and all(same(x, y) for x, y in zip(a, b))
    return a == b


def _step(c):
    """the formula descriptor a tree-like case is about"""
    if c['kind'] == 'session':
        return c['steps'][c['k']]
    if c['kind'] == 'reent':
        return c['outer']
    return c


def request(c):
    if c['kind'] in ('tree', 'session', 'reent'):
        # a session step: the model is stateless, the step is compared with `eval` of its formula alone.
        # a re-entrant case: `eval` of the outer formula, the inner results (taken from evaluations of the inner
        # formulas on parsers of their own) supplied as constants
        st = _step(c)
        f = formula_of(st)
        cells, ranges = {}, {}
        variables, fns = VARS, CUSTOM
        fnset = _fnset_of(c)
        if fnset:
            # the model's `eval` has no function setter: a zero-argument call whose value a listener fixes reaches it as a host
            # function of that name returning that value (one event, the fixed value)
            fns = dict(CUSTOM)
            for name, i in fnset.items():
                if FNVALS[i] is not None:
                    fns[name] = '(const %s)' % fx.to_wire(FNVALS[i])
        flat = None
        if c['kind'] == 'reent':
            memo = {}
            run_flat(c, f, memo)
            flat = {g: r['rec'] for g, r in memo.items()}
            variables, fns = dict(VARS), dict(CUSTOM)
            for name, stn in c['names'].items():
                v = flat.get(formula_of(stn), {'result': None})['result']
                if v is not None:
                    variables[name] = v
            for name, text in c['fns'].items():
                r = flat.get(text)
                if r is None:
                    continue
                if r['error'] is not None and c.get('onerr'):
                    fns[name] = '(raisexl %s)' % fx.ERR_TAGS.get(r['error'], 'error')
                else:
                    fns[name] = '(const %s)' % fx.to_wire(r['result'])
        for e in postorder(_fix(st['t'])) if 't' in st else _scan_refs(f):
            if e[0] == 'cell' and ref_split(e[1]) is not None:
                lab = e[1].upper()
                if flat is not None and lab in c['cells']:
                    v = flat.get(formula_of(c['cells'][lab]), {'result': None})['result']
                else:
                    v = cell_value(lab)
                if v is not None:
                    cells[lab] = v
            elif e[0] == 'range' and usable(e[1]) and usable(e[2]):
                l1, l2 = ref_range(e[1], e[2])
                v = range_value(l1, l2)
                if v is not None:
                    ranges[(l1, l2)] = v
        return 'eval %s %s' % (enc_str(f), fx.env_wire(variables=variables, fns=fns, cells=cells, ranges=ranges))
    known, init = _init_value(c)
    vals = [POOL[i] for plan in c['plan'] for i in plan]
    if not known and c.get('fnkind') == 'zero' and any(v is not None for v in vals):
        # the clock / the random number: what the call returned is outside the comparison, a supplied value replaces it whatever it was
        return 'setters (o clock-or-random) ' + ' '.join(fx.to_wire(v) for v in vals)
    if not known:
        return None
    return 'setters ' + ' '.join(fx.to_wire(v) for v in [init] + vals)


def _scan_refs(f):
    """cell / range references of a fixed formula text (for the environment only): every maximal
    $?letters$?digits token, and pairs joined by ':'"""
    out = []
    toks = []
    i = 0
    n = len(f)
    while i < n:
        if f[i] in string.ascii_letters or f[i] == '$':
            j = i
            while j < n and (f[j] in string.ascii_letters or f[j] in string.digits or f[j] in '$_.'):
                j += 1
            toks.append((f[i:j], i, j))
            i = j
        else:
            i += 1
    k = 0
    while k < len(toks):
        t, a, b = toks[k]
        if ref_split(t) is not None and not (b < n and f[b] == '('):
            if k + 1 < len(toks) and f[b:toks[k + 1][1]] == ':' and ref_split(toks[k + 1][0]) is not None:
                out.append(('range', t, toks[k + 1][0]))
                k += 2
                continue
            out.append(('cell', t))
        k += 1
    return out


def _event_agrees(m, e):
    """model event (parsed sexp) vs recorded event"""
    def pl(mp, p):
        return isinstance(mp, list) and len(mp) == 3 and int(mp[0]) == p[0] and dec_str(mp[1]) == p[1] and (mp[2] == '1') == p[2]
    if not isinstance(m, list) or not m or m[0] != e[0]:
        return False
    if e[0] == 'cell':
        return len(m) == 4 and dec_str(m[1]) == e[1] and pl(m[2], e[2]) and pl(m[3], e[3])
    if e[0] == 'range':
        return (len(m) == 7 and dec_str(m[1]) == e[1] and pl(m[2], e[2]) and pl(m[3], e[3]) and
                dec_str(m[4]) == e[4] and pl(m[5], e[5]) and pl(m[6], e[6]))
    if e[0] == 'var':
        return len(m) == 2 and dec_str(m[1]) == e[1]
    if e[0] == 'fn':
        if not (len(m) == 3 and dec_str(m[1]) == e[1] and isinstance(m[2], list) and len(m[2]) == len(e[2])):
            return False
        # (a float argument is the double arithmetic of the code against the model's exact rationals: 1e-9 relative, absolute below 1,
        # as for the record - a difference of nearly equal numbers loses more than a few ulps)
        return all(fx.value_matches(mm, vv, rel=1e-9) is not False for mm, vv in zip(m[2], e[2]))
    return False


def agree(c, ans, model_ans):
    m = fx.parse_sexp(model_ans)
    if c['kind'] in ('tree', 'session', 'reent'):
        if not (isinstance(m, list) and len(m) == 2):
            return False
        mrec, mlog = m
        if fx.logical_reaches_aggregate((e[1], e[2]) for e in ans['log'] if e[0] == 'fn'):
            return True      # see fx.AGGREGATES: a logical item of an aggregate is outside the value-level comparison
        r = fx.record_matches(mrec, ans['rec'], rel=1e-9)
        if r is False:
            return False
        log = ans['log']
        if r is None:
            # the model stopped at an unmodelled builtin / unmodelled text: its events are a prefix
            return len(mlog) <= len(log) and all(_event_agrees(a, b) for a, b in zip(mlog, log))
        return len(mlog) == len(log) and all(_event_agrees(a, b) for a, b in zip(mlog, log))
    # setter: the model's applySetters vs the value the reference ended up with
    ok, v = _observed(c, ans)
    if not ok:
        return False
    if isinstance(v, _OwnEq):
        return isinstance(m, list) and len(m) == 2 and m[0] == 'o'      # a host object on both sides; the oracle judges WHICH
    return fx.value_matches(m, v) is True


def _observed(c, ans):
    """the value the reference ended up with, as seen by a capturing function or in the record"""
    from hotxlfp.formulas import error
    rec = ans['rec']
    if c['wrap']:
        if len(ans['captured']) != 1:
            return False, None
        return True, ans['captured'][0]
    if rec['error'] is not None:
        for e in (error.ERROR, error.DIV_ZERO, error.NAME, error.NOT_AVAILABLE, error.NULL, error.NUM, error.REF,
                  error.VALUE):
            if str(e) == rec['error']:
                return True, e
        return False, None
    return True, rec['result']


# ------------------------------------------------------------------ the oracle (statement on the implementation only)

def _check_cell(e, written):
    if e[1] != written.upper():
        return 'cell %r: event label %r is not the upper-cased label' % (written, e[1])
    if not in_domain(written):
        return None
    (ri, ra), (ci, ca) = ref_parts(written)
    if e[2][0] != ri or e[3][0] != ci:
        return 'cell %r: event coordinates (row %r, col %r), expected zero-based (%d, %d)' % (written, e[2][0], e[3][0], ri, ci)
    if e[2][2] != ra or e[3][2] != ca:
        return 'cell %r: absolute markers (row %r, col %r), expected (%r, %r)' % (written, e[2][2], e[3][2], ra, ca)
    return None


def _check_range(e, a, b):
    if not (in_domain(a) and in_domain(b)):
        return None
    pa_r, pa_c = ref_parts(a)
    pb_r, pb_c = ref_parts(b)
    sr, sc, er, ec = (e[2][0], e[2][2]), (e[3][0], e[3][2]), (e[5][0], e[5][2]), (e[6][0], e[6][2])
    w = '%s:%s' % (a, b)
    if not (sr[0] <= er[0] and sc[0] <= ec[0]):
        return 'range %s: start (%d,%d) is not top-left of end (%d,%d)' % (w, sr[0], sc[0], er[0], ec[0])
    if sorted([sr, er]) != sorted([pa_r, pb_r]):
        return 'range %s: row parts %r/%r are not the written rows %r/%r (index, $)' % (w, sr, er, pa_r, pb_r)
    if sorted([sc, ec]) != sorted([pa_c, pb_c]):
        return 'range %s: column parts %r/%r are not the written columns %r/%r (index, $)' % (w, sc, ec, pa_c, pb_c)
    # a coordinate whose first written part does not lie below / right of the second (a shared row / column included) is NOT
    # exchanged: each delivered corner carries the part - index and $ marker - it was written with; else the parts travel whole
    for what, (s_, e_), (pa, pb) in (('row', (sr, er), (pa_r, pb_r)), ('column', (sc, ec), (pa_c, pb_c))):
        want = (pa, pb) if pa[0] <= pb[0] else (pb, pa)
        if (s_, e_) != want:
            return ('range %s: delivered %s parts (index, $) top-left %r / bottom-right %r; written first %r / second %r, so the '
                    'top-left cell must carry %r and the bottom-right cell %r (%s)' % (
                        w, what, s_, e_, pa, pb, want[0], want[1],
                        'same index: nothing to exchange, each corner keeps the marker it was written with' if pa[0] == pb[0]
                        else 'the parts travel with their markers'))
    if e[1] != ref_compose(sr, sc):
        return 'range %s: start cell labelled %r but its coordinates (row %d, col %d) denote %r' % (
            w, e[1], sr[0], sc[0], ref_compose(sr, sc))
    if e[4] != ref_compose(er, ec):
        return 'range %s: end cell labelled %r but its coordinates (row %d, col %d) denote %r' % (
            w, e[4], er[0], ec[0], ref_compose(er, ec))
    return None


def _expected(st):
    """the reference / call nodes of a formula descriptor in post-order (None: the text is no formula)"""
    if 't' in st:
        return postorder(_fix(st['t']))
    if 'exp' in st:
        return [tuple(x) for x in st['exp']]
    return _expected_fixed(st['f'])


def never_aborts(t, fnset=None):
    """is the tree made only of constructs that cannot RAISE (numbers, cells, bound variables, + - * / on them, SUM / ID / ARGS /
    K7 calls, ranges as arguments of SUM)?  Then an error in its record is an error VALUE (a division by zero, text under
    arithmetic): nothing was aborted and every reference and call is still evaluated and reported"""
    if t == 'blank':
        return True
    k = t[0]
    if k == 'num':
        return True
    if k == 'cell':
        return ref_split(t[1]) is not None
    if k == 'var':
        return t[1][0] in VARS and len(t[1]) == 1
    if k == 'bin':
        return t[1] in ('+', '-', '*', '/') and never_aborts(t[2], fnset) and never_aborts(t[3], fnset)
    if k == 'call':
        if t[2] == 'empty' and t[1] in ZERO:
            # a number or a logical (or the number / logical / text a listener fixes it to: text under arithmetic is #VALUE!);
            # the date of NOW / TODAY only when a listener replaces it; NA never (an error)
            fixed = bool(fnset) and FNVALS[fnset.get(t[1], 0)] is not None
            return t[1] in ('PI', 'TRUE', 'FALSE', 'RAND') or (t[1] in ('NOW', 'TODAY') and fixed)
        if t[1] not in ('SUM', 'ID', 'ARGS', 'K7', 'Vat', 'net_of') or t[2] not in ('flat', 'empty') or t[4]:
            return False
        for x in t[3]:
            if x != 'blank' and x[0] == 'range':
                if t[1] != 'SUM' or ref_split(x[1]) is None or ref_split(x[2]) is None:
                    return False
            elif not never_aborts(x, fnset):
                return False
        return True
    return False


def _check_events(f, rec, log, exp, total=False):
    """one event per reference / call node, in post-order, each with the fields the statement prescribes"""
    if rec['error'] is None or total:
        if len(log) != len(exp):
            return 'formula %r raised %d events, its tree has %d reference/call nodes: %r' % (f, len(log), len(exp), _brief(log))
    elif len(log) > len(exp):
        return 'formula %r raised %d events, more than its %d reference/call nodes: %r' % (f, len(log), len(exp), _brief(log))
    for i, (e, x) in enumerate(zip(log, exp)):
        if e[0] != x[0]:
            return 'formula %r: event %d is %r, expected the %s node %r (post-order)' % (f, i, _brief([e]), x[0], x[1:])
        if x[0] == 'cell':
            msg = _check_cell(e, x[1])
        elif x[0] == 'range':
            msg = _check_range(e, x[1], x[2])
        elif x[0] == 'var':
            msg = None if e[1] == x[1] else 'event %d: variable %r, expected %r' % (i, e[1], x[1])
        else:
            msg = None if e[1] == x[1] else 'event %d: function %r, expected %r' % (i, e[1], x[1])
            if msg is None and x[2] is not None and len(e[2]) != x[2]:
                msg = 'event %d: call of %s with %d arguments, the formula has %d slots' % (i, x[1], len(e[2]), x[2])
        if msg:
            return 'formula %r: %s' % (f, msg)
    return None


def same_v(a, b):
    """equal values of equal types; error values by their text"""
    from hotxlfp.formulas import error
    if isinstance(a, error.XLError) and isinstance(b, error.XLError):
        return str(a) == str(b)
    if type(a) is not type(b):
        return False
    if isinstance(a, (list, tuple)):
        return len(a) == len(b) and all(same_v(x, y) for x, y in zip(a, b))
    if isinstance(a, dict):
        return sorted(a) == sorted(b) and all(same_v(a[k], b[k]) for k in a)
    return a == b or (a != a and b != b)


def _same_run(f, what, got, ref):
    """the evaluation `got` (made while another evaluation was in progress on the parser, or interrupted by such
    evaluations) against `ref`: the same formula with every inner result supplied as a constant"""
    if not same_v(got['rec'], ref['rec']):
        return '%s %r gave %r, but %r when the inner formulas are evaluated apart and their results supplied as constants' % (
            what, f, got['rec'], ref['rec'])
    if len(got['log']) != len(ref['log']) or not all(same_v(x, y) for x, y in zip(got['log'], ref['log'])):
        return '%s %r raised %r, but %r when the inner formulas are evaluated apart and their results supplied as constants' % (
            what, f, _brief(got['log']), _brief(ref['log']))
    return None


def _host_text(c):
    out = ['cell %s holds %r' % (k, formula_of(v)) for k, v in sorted(c['cells'].items())]
    out += ['name %s holds %r' % (k, formula_of(v)) for k, v in sorted(c['names'].items())]
    if c['fns']:
        out.append('%s evaluate their text argument' % '/'.join(sorted(c['fns'])))
    return 'host evaluates on the same parser: ' + '; '.join(out)


def _inner_descr(c):
    d = {}
    for st in list(c['cells'].values()) + list(c['names'].values()) + list(c['texts'].values()):
        d[formula_of(st)] = st
    return d


def oracle(c, ans):
    if c['kind'] == 'tree':
        exp = _expected(c)
        if exp is None:
            return None
        return _check_events(ans['f'], ans['rec'], ans['log'], exp, total='t' in c and never_aborts(_fix(c['t']), c.get('fnset')))
    if c['kind'] == 'session':
        # the statement, on every event of this step, whatever the parser evaluated before
        exp = _expected(_step(c))
        if exp is None:
            return None
        st = _step(c)
        msg = _check_events(ans['f'], ans['rec'], ans['log'], exp, total='t' in st and never_aborts(_fix(st['t']), _fnset_of(c)))
        if msg and ans['before']:
            msg = 'after %r on the same parser: %s' % (ans['before'], msg)
        return msg
    if c['kind'] == 'reent':
        # the outer formula: its own events (depth 0), all of them, in post-order, value as without re-entrancy
        exp = _expected(c['outer'])
        msg = None
        if exp is not None:
            msg = _check_events(ans['f'], ans['rec'], ans['log'], exp)
        if msg is None:
            msg = _same_run(ans['f'], 'outer formula', ans, ans['flat'])
        # every inner evaluation is an evaluation of a formula too
        if msg is None:
            descr = _inner_descr(c)
            for i in ans['inner']:
                iexp = _expected(descr[i['f']]) if i['f'] in descr else None
                if iexp is not None:
                    msg = _check_events(i['f'], i['rec'], i['log'], iexp)
                if msg is None:
                    msg = _same_run(i['f'], 'inner formula (depth %d)' % i['depth'], i, ans['flat_inner'][i['f']])
                if msg:
                    msg = 'while evaluating %r: %s' % (ans['f'], msg)
                    break
        if msg:
            msg = '%s [%s]' % (msg, _host_text(c))
        return msg
    # setter protocol: last non-None value wins, else the default
    known, init = _init_value(c)
    vals = [v for v in ans['calls'] if v is not None]
    judged = True
    if vals:
        expected = vals[-1]
    elif known:
        expected = init
    elif c.get('fnkind') == 'zero':
        judged = False           # the clock / a random number nobody fixed: only the event is judged
    else:
        return None              # undefined variable nobody supplied: #NAME? (C09)
    ok, got = _observed(c, ans)
    if judged and not ok:
        return '%s with setter calls %r: no value observed (record %r)' % (ans['f'], ans['calls'], ans['rec'])
    if judged and not same(got, expected):
        return '%s with setter calls %r (before emit: %r): the reference has value %r, expected %r' % (
            ans['f'], ans['calls'], init if known else '<not fixed by the formula>' if c.get('fnkind') == 'zero' else '<undefined>',
            got, expected)
    # exactly one event for the reference itself
    tag = {'cell': 'cell', 'range': 'range', 'var': 'var', 'fn': 'fn'}[c['ev']]
    if c.get('fnkind') == 'zero':
        k = len([e for e in ans['log'] if e[0] == 'fn' and e[1] == c['zname']])
        if k != 1:
            return '%s raised %d callFunction events for %s()' % (ans['f'], k, c['zname'])
        return None
    k = len([e for e in ans['log'] if e[0] == tag and (tag != 'fn' or e[1] != 'CAP')])
    if k != 1:
        return '%s raised %d %s events' % (ans['f'], k, tag)
    return None


def _expected_fixed(f):
    """expected post-order of a fixed formula: from the tree the REAL ply tables build (semantic actions replaced)"""
    tp = c04.tree_parser()
    s = tp.tree(f)
    if s.startswith('!'):
        return None
    return postorder(_sexp_tree(fx.parse_sexp(s)))


def _sexp_tree(m):
    if m == 'blank':
        return 'blank'
    k = m[0]
    if k in ('num', 'str', 'errlit'):
        return (k,) + tuple(m[1:])
    if k == 'neg':
        return ('neg', _sexp_tree(m[1]))
    if k == 'bin':
        return ('bin', dec_str(m[1]), _sexp_tree(m[2]), _sexp_tree(m[3]))
    if k == 'call':
        return ('call', dec_str(m[1]), m[2], [_sexp_tree(x) for x in m[3]], [_sexp_tree(x) for x in m[4]])
    if k == 'arr':
        return ('arr', m[1], [_sexp_tree(x) for x in m[2]], [_sexp_tree(x) for x in m[3]])
    if k == 'var':
        return ('var', [dec_str(x) for x in m[1:]])
    if k == 'cell':
        return ('cell', dec_str(m[1]))
    if k == 'range':
        return ('range', dec_str(m[1]), dec_str(m[2]))
    raise ValueError(m)


def _brief(log):
    out = []
    for e in log:
        if e[0] == 'cell':
            out.append('cell %s(%d,%d)' % (e[1], e[2][0], e[3][0]))
        elif e[0] == 'range':
            out.append('range %s(%d,%d):%s(%d,%d)' % (e[1], e[2][0], e[3][0], e[4], e[5][0], e[6][0]))
        elif e[0] == 'var':
            out.append('var %s' % e[1])
        else:
            out.append('fn %s/%d' % (e[1], len(e[2])))
    return out


def nontrivial(c, ans):
    if c['kind'] == 'tree':
        return len(ans['log']) >= 2
    if c['kind'] == 'session':
        return len(ans['log']) >= 2 or (len(ans['log']) >= 1 and c['k'] >= 1)
    if c['kind'] == 'reent':
        return len(ans['inner']) >= 1 and len(ans['log']) >= 2
    return any(len(p) for p in c['plan'])


def search(rng, ctx, disagreements):
    c2 = dict(ctx)
    c2['scale'] = 6
    c2['tier'] = 'quick'
    return cases(rng, c2)


def _kids(t):
    if t == 'blank' or not isinstance(t, (list, tuple)):
        return []
    if t[0] == 'neg':
        return [t[1]]
    if t[0] == 'bin':
        return [t[2], t[3]]
    if t[0] == 'call':
        return [k for k in list(t[3]) + list(t[4]) if k != 'blank']
    if t[0] == 'arr':
        return [k for k in list(t[2]) + list(t[3]) if k != 'blank']
    return []


def _shrink_tree(t, fails):
    """descend into sub-trees as long as one of them still fails; -> (tree, message) or None"""
    best = None
    todo = [_fix(t)]
    while todo:
        t = todo.pop()
        for k in _kids(t):
            m = fails(k)
            if m:
                best = (k, m)
                todo.append(k)
                break
    return best


def _fails(cc):
    m = oracle(cc, impl(cc))
    return (cc, m) if m else None


def shrink(c, msg):
    """smaller failing input, if one fails too"""
    kind = c.get('kind')
    if kind == 'tree' and 't' in c:
        extra = {'fnset': c['fnset']} if c.get('fnset') else {}
        r = _shrink_tree(c['t'], lambda k: oracle(dict(extra, kind='tree', t=k), impl(dict(extra, kind='tree', t=k))))
        return (dict(extra, kind='tree', t=r[0], full=False, ws=0), r[1]) if r else (c, msg)
    if kind == 'session':
        # fewer steps before the failing one, then smaller formulas
        best = (c, msg)
        steps, k = c['steps'], c['k']
        cands = [[steps[k]]] + [[steps[j], steps[k]] for j in range(k)] + \
                [[steps[i], steps[j], steps[k]] for i in range(k) for j in range(i + 1, k)]
        for cand in cands:
            r = _fails({'kind': 'session', 'steps': cand, 'k': len(cand) - 1})
            if r:
                best = r
                break
        steps = [dict(st) for st in best[0]['steps']]
        for i in range(len(steps)):
            if 't' not in steps[i]:
                continue

            def fails(sub, i=i):
                cand = steps[:i] + [dict({'fnset': steps[i]['fnset']} if steps[i].get('fnset') else {}, t=sub, full=False, ws=0)] + steps[i + 1:]
                r = _fails({'kind': 'session', 'steps': cand, 'k': len(cand) - 1})
                return r[1] if r else None
            r = _shrink_tree(steps[i]['t'], fails)
            if r:
                steps[i] = dict({'fnset': steps[i]['fnset']} if steps[i].get('fnset') else {}, t=r[0], full=False, ws=0)
                best = ({'kind': 'session', 'steps': [dict(st) for st in steps], 'k': len(steps) - 1}, r[1])
        return best
    if kind == 'reent' and 't' in c['outer']:
        def fails(sub):
            cc = dict(c, outer={'t': sub, 'f': fx.render(_fix(sub), levels=levels())})
            r = _fails(cc)
            return r[1] if r else None
        r = _shrink_tree(c['outer']['t'], fails)
        if r:
            return dict(c, outer={'t': r[0], 'f': fx.render(_fix(r[0]), levels=levels())}), r[1]
    return c, msg
