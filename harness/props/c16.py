# -*- coding: utf-8 -*-
"""C16 - real-valued math and PV return the mathematically defined value or an error
(hotxlfp/formulas/mathtrig.py: ABS ... DEGREES, RAND, RANDBETWEEN; financial.py: PV)

Three layers (DESIGN.md, section C16):
 L1 dispatch / coercion / domain  -> model (generic functions over ElemOps, Float instance in the
    driver op `math`; ABS through the exact-rational model of `fn`, POWER on two ints through
    `math.powint`) compared with the implementation; the oracle classifies error-vs-number by the
    mathematical domain, computed here with exact rationals;
 L2 identities among the functions -> theorems (real instance) + identities evaluated through real
    formulas by the oracle;
 L3 "to within floating-point rounding" -> NOT proved (trusted base: libm approximates the reals); it is
    monitored: every in-domain result is compared with an independent 60-digit reference written here
    with `decimal` (series / argument reduction with a long pi), relative 1e-9 plus absolute 1e-12.

Case kinds (model = compared with the Lean model through the named driver op; every kind goes to the oracle):
 fn           one call NAME(args): the one- and two-argument functions and PI; model `math` (<= 4 ulps); judge_fn
 abs          the same for ABS; model `fn` (ints exactly, floats <= 1 ulp); judge_fn
 powint       POWER on two Python ints with exponent >= 0; model `math.powint` (exact); judge_fn
 pv           one call PV(args), the arguments bound to variables; model `math` (<= 4 ulps); judge_pv (the annuity
              equation).  A pv case with a `formula` is the same call WRITTEN with one of the three argument
              separators (, ; \\), a blank future value before a type being an empty slot of the text; it is sent
              to the model as its argument list (the empty slot as a blank) and judged by judge_pv on that list
 ident        the formulas of one entry of IDENT at one argument tuple; oracle only (judge_ident)
 rand         n draws of RAND(); oracle only (judge_rand)
 randbetween  n draws of RANDBETWEEN(a, b); oracle only (judge_rand)
A fn / pv / abs case without a formula of its own may carry a `route`: `cell` = the call is written NAME(A1,B1,...) and the
arguments are the values of the cells A1..F1, answered by the host's callCellValue listener; `ws` = the call is written over
several lines, NAME(<LF><blank>xa<blank>,<tab>xb<blank>)<CR LF> (without arguments: <blank>NAME(<blank>)<LF>); `nest` = every
argument that nest_text can write as a number text is the undefined name na..nf instead of its variable, resolved by the host's
callVariable listener, which evaluates that text ON THE SAME PARSER during the outer evaluation.  Same model
request (the argument list) and same oracle as the case without route.  Before every evaluation a second parser of the host
(the decoy, which evaluates nothing) is given OTHER values under the same variable names xa..
"""
import decimal
import math
import struct
from decimal import Decimal, localcontext
from fractions import Fraction

from .. import common, fx
from ..common import enc_str

ID = 'C16'
LEAN_MODULES = ['HotXL.Props.C16']
_MT = ['ABS', 'ACOS', 'ACOSH', 'ACOT', 'ACOTH', 'SIN', 'SINH', 'ASIN', 'ASINH', 'COS', 'COSH', 'COT', 'TAN', 'TANH',
       'ATAN', 'ATAN2', 'ATANH', 'SQRT', 'EXP', 'LN', 'LOG', 'LOG10', 'PI', 'POWER', 'RADIANS', 'DEGREES', 'RAND',
       'RANDBETWEEN']
FUNCTIONS = ['hotxlfp.formulas.mathtrig:%s' % n for n in _MT] + [
    'hotxlfp.formulas.financial:PV', 'hotxlfp.formulas.utils:parse_number', 'hotxlfp.formulas.utils:any_is_error',
    'hotxlfp.helper.number:to_number']
RULE = ('case kinds fn / abs (fn for ABS) / powint / pv / ident / rand / randbetween; arguments are bound to variables, one '
        'Parser.parse per formula (NAME(xa,xb,...) unless the case carries its own formula text: the 20 written function calls '
        'and the written PV calls below; the routes cell, ws and nest at the end of this text write the same call otherwise). '
        'Per one-argument function (21 unary ones, LOG with its default base, ABS): 44 special points '
        '(0, +-1, +-1/2, +-2, 3, 10, 100, the floats next to +-1, float multiples of pi/4 up to 2pi, +-1e-5, +-1e-300, +-1e300, '
        '1e15, 1e22, e, +-709, 690, 745, -745.13, 0.1, 0.3, logicals), 5e-324 / -5e-324 / 1e-310 where harmless (not ACOSH, '
        'ACOTH, COT), the ints +-10^20, 2^53, 2^53+1, 12 numeric texts ("0.5", " 12 ", "1_000", "1e3", "+3", ".5", "007", '
        '"1e-320" ...), 19 non-numeric texts ("abc", "", " ", "1,5", "nan", "inf", "TRUE", "0x10", "1e400", non-ASCII digits '
        '...), blank, 3 lists, 4 error values, no and 3 arguments, plus n seeded arguments (n = 25*scale quick, 4000 thorough): '
        'reals sign*m*2^k with 52-bit or (40%) 10-bit fractions over k in [-40,40], [-3,3] or (7%) [-990,990], ints up to 50 / '
        '10^6 / 10^30, padded or signed numeric text, logicals, special points; for ASIN, ACOS, ATANH, ACOTH, ACOSH 60% in '
        '[-1.2,1.2] or at +-(1 +- 2^k), k >= -54; for EXP, SINH, COSH 40% uniform in [-760,760]; for SIN, COS, TAN, COT 30% at '
        'k*pi/2 (|k| <= 40) plus 0 or 2^[-50,-20]. DEGREES beyond 1e300 and COT at 0 < |x| < 1e-300 are not generated (known '
        'findings), nor the texts float() reads so: DEGREES of "inf", "infinity", "-inf", "1e400", "-1e999", COT of "1e-320". '
        '20 calls with the argument written in the formula (1/0, "abc", "0.25", TRUE). ATAN2 / LOG / POWER: a 17x17 grid (0, '
        '+-1, +-2, +-1/2, 3, 10, 0.0, 1e-300, +-1e300, 1e-5, the floats next to 1, TRUE), 3n seeded rounds (ATAN2: any pair and '
        'one with zero coordinates; LOG: positive x in 2^+-200, base in 2^+-60 or (15%) 1 +- 2^-k; POWER: positive base with '
        'real exponent, negative base with integer / fractional exponent, zero base, int base up to 30 with int exponent in '
        '[-8,40], base +-2^[-300,300] with exponent +-2^[-3,9]), texts / blank / lists / errors in either position, wrong '
        'arity, LOG with one argument, PI() and PI(1). powint: every POWER case on two Python ints (not logicals) with exponent '
        '>= 0 is repeated for the exact comparison, plus 10 fixed pairs (10^308, 10^309, +-2^1023, 2^1024, 0^0 ...). The '
        'integer-overflow guard of POWER and PV (two Python ints - logicals and integer text count - with |base| >= 2, exponent '
        '>= 1 and (bit_length(|base|)-1)*exponent >= 1024 give #NUM! at once): for every bit length 2..70 of the base and g '
        'seeded ones in 71..1201 (g = 40*scale quick, 2000 thorough; both signs) the smallest exponent that meets it and the '
        'one below, up to 53 bits also the float twin of the base (which must NOT meet it) and PV with rate = base-1 (growth of '
        'either sign), payment 1, at both exponents and at one up to 10^6 beyond with seeded payment / future value / type; 66 '
        'fixed POWER pairs (bases up to +-10^400, exponents up to 10^18, 0 and negative exponents, bases 0 / 1 / -1 with huge '
        'exponents, 13 pairs whose power is below 1e300 although bit_length*exponent > 1024), 19 pairs mixing logicals, integer text, floats and float text, g seeded int pairs (base up to 2^53, '
        'exponent up to 10^18); 49 fixed PV calls (four with growth factors 2^900, 3^500, 10^250, 8^300 well inside the range; integer, logical, text and float rate x periods on both sides of the bound, '
        'periods up to 10^15+1 and negative, a non-number payment, future value 10^400). PV: 32 fixed calls (optional arguments '
        'omitted / blank, text and logical arguments, rate 0 / -1, 5000 periods, non-numbers, blank or list in a required '
        'position, 2 and 6 arguments) and p seeded ones (p = 600*scale quick, 80000 thorough): rate 0 in three spellings (15%), '
        'one of 20 fixed rates in [-0.9, 10] incl. the ints 1, 2, 3 (50%) or uniform in (-0.95, 1.5) with |rate| >= 1e-4; '
        'periods int in [0,400] or [-20,-1], fractional in [0.25,60], 0.5, 360, kept at |periods*ln(1+rate)| <= 600 (int rate '
        'with int periods: periods in [-10,20]); payment and future value ints or reals; type in {0, 1, TRUE, FALSE, 0.0, 1.0}; '
        '3 / 4 / 5 arguments (15 / 15 / 70%). Written PV calls: after these, every fixed call with 3 to 5 arguments (30 of '
        'the 32) and each seeded one with probability 1/2 is repeated as a further pv case that carries the formula text '
        '"PV(" + slots joined by one separator + ")", the separator of the whole call being "," (25%), ";" (25%) or "\\" '
        '(50%) and the slots the variable names xa..xe; before writing, a 5-argument call whose future value is the int or '
        'float 0 (not a logical) gets it replaced by a blank with probability 60%, and blanks at the end beyond the third '
        'argument are dropped from the argument list (PV(0.05,10,-100,blank,blank) is written with 3 arguments); a blank '
        'future value in front of a type is an EMPTY SLOT of the text (PV(xa;xb;xc;;xe)), not a variable holding None, '
        'whereas a blank among the first three arguments stays a variable holding None; about 30 + p/2 cases (some 310 '
        'quick, 40000 thorough), judged and compared with the model like the others, on the argument list with the blank in '
        'it. ident: 28 identities (sin^2+cos^2, TAN=SIN/COS, COT=1/TAN, EXP(LN x), LN(EXP x), '
        'LOG(x,b)=LN x/LN b, LOG10 x=LN x/LN 10=LOG x, f(f^-1 y)=y and f^-1(f x)=x on the principal ranges for the 7 circular / '
        'hyperbolic pairs, TANH(ACOTH x)=1/x, DEGREES(RADIANS x) and back, the angle of ATAN2, SQRT(x)^2, SQRT(POWER(x,2))=ABS '
        'x, PI()=ACOS(-1)=4*ATAN(1)) evaluated through real formulas with the argument bound to a variable: 44 arguments per '
        'round, i rounds (i = 40*scale quick, 6000 thorough), 15 fixed points for the ATAN2 angle (the origin is left out). '
        'RAND(): 4d draws; RANDBETWEEN(a,b): 17 fixed pairs (ints, equal bounds, +-10^12, integral floats, text, logicals, a > '
        'b, non-integral, non-numbers) and r seeded int pairs with b-a in {0, 1, 2, 5, 100, 10^6} (r = 10*scale quick, 800 '
        'thorough), d draws each (d = 40 quick, 400 thorough). About 7700 cases quick (22900 at scale 5), 541000 thorough before the routes. '
        'Compared with the Lean model: fn and pv (driver op `math`, equal or <= 4 ulps apart, errors by code), abs (op `fn`: '
        'ints exactly, floats <= 1 ulp), powint (op `math.powint`, exactly) - about 5600 quick, 273000 thorough before the routes; a case with a '
        'formula text is sent as the argument list it denotes (an empty slot as the blank `nil`), the text itself is not part '
        'of the request - unless an '
        'argument is text the model does not read (exponent form, non-ASCII, beyond the float range) or an int above 2^53 '
        '(ACOT, ACOTH, POWER, PV) / 10^30 (the others); ident, rand, randbetween are oracle-only. When a proof or the '
        'correspondence broke, search() adds (oracle only, up to the first failure) the function cases with n = 400 for the '
        'disagreeing function names (all if none), the PV cases with p = 5000 (the 32 fixed, 5000 seeded and about 2500 '
        'written ones; if PV disagreed or no name), 300 identity rounds and the guard cases with g = 400: about 41000 cases. '
        'No time budget, no shrinking, each case counts once. Non-trivial = the '
        'implementation returned a finite number (ident: every formula did; rand: at least two distinct draws; randbetween: '
        'every draw an int and at least two distinct ones or a one-point range); distinct = distinct case dict. '
        'Routes (added last, over the whole list of cases in its order, index i): a fn / pv / abs case without a formula text of '
        'its own and with at most 6 arguments is given once more with route = cell when i is divisible by 9, or when i is even '
        'and one of its arguments (not text, not blank, not a list or error value) equals 0 - the ints and floats 0, 0.0, -0.0 '
        'and FALSE -, once more with route = ws when i is divisible by 11, and once more with route = nest when i is divisible by 7 and at least one '
        'of its arguments is a number nest_text can write. cell: the formula is NAME(A1,B1,...) and the one '
        'callCellValue listener of the shared parser answers the argument values for A1..F1 (setter called with the value, a '
        'blank argument with None; another label gets no answer); the variables xa.. are set as well. ws: the formula is '
        'NAME( LF blank xa blank , tab xb ... blank ) CR LF, without arguments blank NAME( blank ) LF. nest: nest_text(a) = the text of a '
        'formula worth exactly the number a - an int 0 <= a < 10^15 as its digits, a negative int above -10^15 as (0-n), a finite '
        'float that is 0 or has 1e-15 < |a| < 1e15 as its positional decimal (no exponent, .0 appended to a whole one; only if float() '
        'reads it back as |a|), negative ones and -0.0 as (0-t); logicals, texts, blanks, lists, error values and the other numbers '
        'have none; the formula is NAME(..) with the name na, nb, .. nf in the position of every argument that has such a text and the '
        'variable xa.. elsewhere; na.. are not registered, the one callVariable listener of the shared parser answers them with '
        'setter(parse(text)[result]) evaluated ON THE SAME PARSER in the middle of the outer evaluation (the table _nestvals is '
        'refilled before every evaluation, whatever the route). All three are judged by the '
        'same oracle on the argument list and sent to the model as the same request as the case without route (the route is not '
        'part of it). DECOY: the host has a second hotxlfp.Parser that evaluates nothing; before EVERY evaluation of every kind '
        '(_eval) it gets, under each variable name xa.. of the call, another value (7.25, or -v-1 when the argument v is a float), so '
        'that a value taken from another parser\'s variables shows in the result. About 940 cell, 480 ws and 540 nest cases quick, '
        '56400, 20900 and 30800 thorough; with them about 9700 cases quick (27900 '
        'at scale 5), 649000 thorough, about 7500 quick / 379000 thorough compared with the model. search() generates no routes.')
TRUSTED = ['L3 is not proved: libm (sin, cos, tan, asin, acos, atan, atan2, sinh, cosh, tanh, asinh, acosh, atanh, sqrt, log, '
           'pow) approximates the real functions the theorems are about; monitored by the 60-digit reference of this '
           'plugin (relative 1e-9 plus absolute 1e-12: a result below 1e-12 in magnitude is only held to the absolute bound)',
           'the reference itself: AGM pi, argument reduction by pi/2 at a precision grown with the argument, Taylor series, '
           'decimal ln / exp / sqrt at 70 digits, arguments taken as exact rationals',
           'the Float instance of the model (Lean `Float` = IEEE double, the same libm) with CPython\'s math-module error '
           'conventions written by hand (math_1: NaN from non-NaN / inf from finite = exception; m_log; float_pow); a model '
           'double and the implementation\'s number agree when equal or at most 4 ulps apart, a NaN / inf of the model must be '
           'the same non-finite number',
           'random.random / random.randint obey their documented contracts (hypotheses of rand_range / randbetween_range); RAND '
           'and RANDBETWEEN are not compared with the model, their draws are judged for type and range only',
           'Python ints are compared with the model up to 2^53 in ACOT, ACOTH, POWER, PV (int arithmetic on the argument before '
           'any conversion to float; exact big-int arithmetic is not modelled) and up to 10^30 elsewhere - except POWER on two '
           'ints with a non-negative exponent, which is compared exactly at every size (driver op math.powint: the guard, the '
           'exact power, the OverflowError of float()); ABS goes through the exact-rational model (driver op fn: ints exactly, '
           'floats within 1 ulp); numeric text is compared in the forms the model reads (ASCII decimal, inner underscores '
           'allowed, no exponent, inside the float range)',
           'the written calls (20 function calls with the argument in the text, the PV calls written with ",", ";" or "\\" '
           'and an empty slot for a blank future value) reach the model as the argument list the generator says the text '
           'denotes: the parser\'s reading of the text (the three separators, an empty slot handed on as a blank argument) is '
           'not modelled here, it is exercised by the comparison of the result and by the annuity equation only',
           'routes: a case with route cell or ws reaches the model as the same argument list as the case without route; that '
           'a cell reference hands the listener\'s value to the function as a variable does (0, 0.0 and FALSE as values, not as '
           'blanks) and that blanks, tabs, LF and CR LF between the tokens of a call change nothing is not modelled here '
           '(C10 / C05), it is exercised by the comparison of the result and by the oracle only; the listener answers from a '
           'table the harness refills before every evaluation (_cellvals, cleared first)',
           'route nest: nest_text is the harness\'s own writer of number texts (decimal.Decimal(repr(x)) in positional form, checked '
           'with float() to read back as |x|; a negative number as (0-t), so -0.0 arrives as 0.0); that the inner Parser.parse of such '
           'a text yields exactly that number (C05 literals, C04 subtraction) and that the listener\'s setter value becomes the '
           'value of the undefined name (C10) is not modelled here - the model gets the argument list; the callVariable listener is '
           'registered on the shared parser for all cases and acts only on the names in _nestvals (na..nf, never used by a case '
           'without route nest)',
           'decoy: the second parser only receives set_variable calls, it never evaluates; the values it holds (7.25 / -v-1) are '
           'the harness\'s choice, different from the real argument except by coincidence (an argument that is itself 7.25)',
           'PV with 1+rate < 0 and a non-integral number of periods returns a Python complex number; the model says #ERROR! '
           '(outside the statement\'s rate > -1; not generated)',
           'the runner classifies the parser\'s answer as error code / int / finite float / nan or inf / other (a logical, '
           'complex or list result is not a number); the 4 known findings (DEGREES(1e308), COT(1e-320), PV(0.5,10,1e308), '
           'PV(1e-10,7.09e12,0)) are replayed from known_findings.json on every run and reported as known']
ASSUMPTIONS = ['arguments are confined to magnitudes where the true result and the obvious intermediates are representable: '
               'an argument above 10^300 in magnitude is not judged (the floats +-1e300 exceed 10^300 and are not), a result '
               'whose true magnitude exceeds 1e300 (EXP / SINH / COSH beyond 720, a power with y*ln x > 700, PV with '
               '|periods*ln(1+rate)| > 690 or a term above 1e300) may be a number or an error; a NaN or inf NUMBER is flagged '
               'wherever it is returned, also for blank / list arguments and wrong arity',
               'a finite int or float result is "the value" when within relative 1e-9 + absolute 1e-12 of the 60-digit '
               'reference; a logical denotes 0 / 1, numeric text (sign, digits, fraction, exponent, surrounding blanks; any '
               'Unicode digits) the number it spells; every other text ("", " ", "nan", "inf", "TRUE", "0x10") and an error '
               'value require an error result',
               'domains: SQRT x >= 0, LN x > 0, LOG x > 0 with base > 0 and != 1 (default 10), ASIN / ACOS |x| <= 1, ACOSH '
               'x >= 1, ATANH |x| < 1, ACOTH |x| > 1, COT x != 0 (no other float is a pole of COT or TAN), ATAN2 not at the '
               'origin; ACOT x = atan(1/x) in (-pi/2, pi/2] with pi/2 at 0; ATAN2(x, y) = the angle of the point (x, y) in '
               '(-pi, pi], x first',
               '"the real power exists": x>0, or x=0 and y>0, or x<0 and y an integer; 0^0 is not judged',
               'which error code is returned outside the domain or for a non-number is not judged, except #DIV/0! for ATAN2 at '
               'the origin',
               'blank and list arguments, text with an underscore ("1_000"), numeric text beyond the float range ("1e400") and '
               'wrong arity are not judged by the oracle (the model is still compared, except for exponent-form text)',
               'identities are judged with relative 1e-9 of the larger side + absolute 1e-12 and every formula must return a '
               'finite number; the ATAN2 angle a by COS a = x/r, SIN a = y/r with r = hypot(x, y) in doubles; PI() must equal '
               'the double pi exactly. f(f^-1(y)) = y and f^-1(f(x)) = x are generated where the composition is well '
               'conditioned: TAN(ATAN y) for |y| < 2^20, SIN(ASIN y) / COS(ACOS y) / TANH(ATANH y) on [-1,1] resp. inside it, '
               'SINH(ASINH y) and COT(ACOT y) up to 2^+-900, COSH(ACOSH y) for y >= 1, ASIN(SIN x) / ACOS(COS x) 1e-3 inside '
               'the principal range, ATAN(TAN x) inside (-pi/2, pi/2), ACOT(COT x) there with |x| > 1e-6, ASINH(SINH x) and '
               'LN(EXP x) for |x| <= 700, ATANH(TANH x) for |x| <= 6, ACOSH(COSH x) for 1e-3 <= x <= 690',
               'PV is judged by the annuity equation pv*R + pmt*(1+rate*type)*(R-1)/rate + fv = 0, R = (1+rate)^periods (rate 0: '
               'pv + pmt*periods + fv = 0), residual within 1e-9 of the largest term + 1e-12, for rate > -1 and type in {0,1}; '
               'an omitted or blank future value / type counts as 0 - so does an empty slot of a written call, and ",", ";" and '
               '"\\" separate the arguments of a call alike -, a blank among the first three arguments is not judged, '
               'a non-number among the five requires an error; the generator keeps |rate| >= 1e-4 (or rate = 0): '
               'for smaller rates the subtraction 1-(1+rate)^periods loses accuracy (candidate finding, witness '
               'PV(1e-12,1,-100) = 100.0089 instead of 99.9999999999)',
               'an integer argument beyond 2^53 and numeric text are judged at the double they are converted to',
               'the value of a call does not depend on the route of its arguments or on its layout: an argument that is the '
               'value of a cell the host\'s listener answers (0, 0.0 and FALSE are values, a blank is a blank) counts as '
               'the same argument held by a variable, and the call written over several lines with blanks, tabs, LF and CR LF '
               'between its tokens is the same call; an argument that is an undefined name the host\'s callVariable listener '
               'resolves by a nested evaluation on the same parser counts as that number, and what another parser of the same '
               'process holds under the same variable names has no influence on the value',
               'RAND: every draw is a float in [0,1). RANDBETWEEN is judged for integer-valued bounds a <= b (ints, integral '
               'floats, integer text, logicals): every draw is an int in [a,b]; with a non-number bound every draw must be '
               'an error; a > b, non-integral and blank bounds are not judged']
EXHAUSTIVE = {'quick': False, 'thorough': False}

REL = 1e-9
ABSTOL = 1e-12
HUGE = Decimal('1e300')
VARS = ['xa', 'xb', 'xc', 'xd', 'xe', 'xf']

# --------------------------------------------------------------------------- implementation access

_parser = [None]


CELLS = ['A1', 'B1', 'C1', 'D1', 'E1', 'F1']
_cellvals = {}


def _p():
    if _parser[0] is None:
        common.load_repo()
        import hotxlfp
        p = hotxlfp.Parser()

        def on_cell(cell, setter):
            # route 'cell': the arguments are the values of the cells A1..F1, answered by the host's listener
            if cell.label in _cellvals:
                setter(_cellvals[cell.label])
        p.on('callCellValue', on_cell)

        def on_var(name, setter):
            # route 'nest': a defined name the host resolves by evaluating a formula ON THIS PARSER, in the middle of the evaluation
            # that asked for it
            if name in _nestvals:
                setter(p.parse(_nestvals[name])['result'])
        p.on('callVariable', on_var)
        _parser[0] = p
        # a second parser of the same host, holding OTHER values under the same variable names (another sheet)
        _decoy[0] = hotxlfp.Parser()
    return _parser[0]


_nestvals = {}
_decoy = [None]
NEST_NAMES = ['na', 'nb', 'nc', 'nd', 'ne', 'nf']


def nest_text(a):
    """a formula that evaluates to exactly the number a (ints and floats that can be written without an exponent), or None"""
    import decimal
    if isinstance(a, bool) or not isinstance(a, (int, float)):
        return None
    if isinstance(a, int):
        return str(a) if 0 <= a < 10 ** 15 else ('(0-%d)' % -a if -10 ** 15 < a < 0 else None)
    if a != a or a in (float('inf'), float('-inf')) or not (a == 0 or 1e-15 < abs(a) < 1e15):
        return None
    t = format(decimal.Decimal(repr(abs(a))), 'f')
    if '.' not in t:
        t += '.0'
    if float(t) != abs(a):
        return None
    return t if a >= 0 and str(a)[0] != '-' else '(0-%s)' % t


def _pyval(a):
    """case argument (JSON) -> Python object handed to the parser as a variable"""
    if isinstance(a, dict):
        if 'e' in a:
            common.load_repo()
            from hotxlfp.formulas import error
            return {'#DIV/0!': error.DIV_ZERO, '#NUM!': error.NUM, '#N/A': error.NOT_AVAILABLE, '#VALUE!': error.VALUE,
                    '#REF!': error.REF, '#NAME?': error.NAME, '#NULL!': error.NULL, '#ERROR!': error.ERROR}[a['e']]
        raise ValueError(a)
    return a


def _eval(formula, values):
    p = _p()
    _cellvals.clear()
    _nestvals.clear()
    for k, lab, nn, v in zip(VARS, CELLS, NEST_NAMES, values):
        p.set_variable(k, _pyval(v))
        _decoy[0].set_variable(k, 7.25 if not isinstance(v, float) else -v - 1)
        _cellvals[lab] = _pyval(v)
        t = nest_text(v)
        if t is not None:
            _nestvals[nn] = t
    r = p.parse(formula)
    res = r['result']
    if r['error'] is not None:
        return {'err': r['error']}
    if isinstance(res, bool):
        return {'other': 'bool:%r' % res}
    if isinstance(res, int):
        return {'int': res}
    if isinstance(res, float):
        if math.isnan(res):
            return {'nonfinite': 'nan'}
        if math.isinf(res):
            return {'nonfinite': 'inf' if res > 0 else '-inf'}
        return {'flt': res}
    return {'other': repr(res)[:80]}


def _num(a):
    """finite number of an evaluation, or None"""
    if 'int' in a:
        return a['int']
    if 'flt' in a:
        return a['flt']
    return None


def formula_of(name, args, route=None):
    """the call with its arguments taken from the variables xa.. (default), from the cells A1.. (route cell), or written over
    several lines with blanks, tabs, LF and CR LF between the tokens (route ws)"""
    names = CELLS if route == 'cell' else VARS
    if route == 'nest':
        names = [nn if nest_text(a) is not None else v for nn, v, a in zip(NEST_NAMES, VARS, args)]
    if route == 'ws':
        return '%s(\n %s )\r\n' % (name, ' ,\t'.join(names[:len(args)])) if args else ' %s( )\n' % name
    return '%s(%s)' % (name, ','.join(names[:len(args)]))


# --------------------------------------------------------------------------- 60-digit reference

P = 60
_pi = {}


class Unjudged(Exception):
    """true value outside the judged magnitude region"""


def hp_pi(prec):
    k = (prec // 100 + 1) * 100
    if k not in _pi:
        with localcontext() as c:
            c.prec = k + 20
            a, b, t, p = Decimal(1), 1 / Decimal(2).sqrt(), Decimal(1) / 4, Decimal(1)
            for _ in range(int(math.log2(k + 20)) + 3):
                an = (a + b) / 2
                b = (a * b).sqrt()
                t -= p * (a - an) ** 2
                a = an
                p *= 2
            _pi[k] = (a + b) ** 2 / (4 * t)
    return _pi[k]


def _dec(q, prec=P + 10):
    if isinstance(q, Decimal):
        return q
    q = Fraction(q)
    with localcontext() as c:
        c.prec = prec
        return Decimal(q.numerator) / Decimal(q.denominator)


def _series(first, ratio_fn, prec):
    """sum of terms t0=first, t_{n+1} = t_n * ratio_fn(n)"""
    s = term = first
    n = 0
    eps = Decimal(10) ** (-(prec + 5))
    while True:
        term = term * ratio_fn(n)
        if term == 0:
            break
        s += term
        n += 1
        if abs(term) <= abs(s) * eps or n > 400:
            break
    return s


def hp_sincos(q):
    """(sin, cos) of the exact rational q"""
    x = _dec(q, P + 400)
    prec = P + 10 + max(0, x.adjusted() + 1)
    with localcontext() as c:
        c.prec = prec
        x = _dec(q, prec)
        half = hp_pi(prec) / 2
        k = (x / half).to_integral_value(decimal.ROUND_HALF_EVEN)
        r = x - k * half
    with localcontext() as c:
        c.prec = P + 10
        r = +r
        r2 = r * r
        s = _series(r, lambda n: -r2 / ((2 * n + 2) * (2 * n + 3)), P) if r != 0 else Decimal(0)
        co = _series(Decimal(1), lambda n: -r2 / ((2 * n + 1) * (2 * n + 2)), P)
        m = int(k) % 4
        if m == 0:
            return s, co
        if m == 1:
            return co, -s
        if m == 2:
            return -s, -co
        return -co, s


def hp_atan(y):
    with localcontext() as c:
        c.prec = P + 10
        y = _dec(y)
        if y == 0:
            return Decimal(0)
        sg = 1 if y > 0 else -1
        y = abs(y)
        if y > 1:
            return sg * (hp_pi(P + 10) / 2 - hp_atan(1 / y))
        k = 0
        while y > Decimal('0.05'):
            y = y / (1 + (1 + y * y).sqrt())
            k += 1
        y2 = y * y
        # y - y^3/3 + y^5/5 ...: term_n = (-1)^n y^(2n+1)/(2n+1)
        s = Decimal(0)
        pw = y
        n = 0
        eps = Decimal(10) ** (-(P + 5))
        while True:
            t = pw / (2 * n + 1)
            s += t if n % 2 == 0 else -t
            pw *= y2
            n += 1
            if pw == 0 or abs(t) <= abs(s) * eps or n > 400:
                break
        return sg * s * (2 ** k)


def hp_atanh(z):
    with localcontext() as c:
        c.prec = P + 10
        z = _dec(z)
        if abs(z) < Decimal('0.1'):
            if z == 0:
                return Decimal(0)
            z2 = z * z
            s = Decimal(0)
            pw = z
            n = 0
            eps = Decimal(10) ** (-(P + 5))
            while True:
                t = pw / (2 * n + 1)
                s += t
                pw *= z2
                n += 1
                if pw == 0 or abs(t) <= abs(s) * eps or n > 400:
                    break
            return s
        return ((1 + z) / (1 - z)).ln() / 2


def hp_sinh(x):
    with localcontext() as c:
        c.prec = P + 10
        x = _dec(x)
        if abs(x) > 720:
            raise Unjudged()
        if abs(x) < Decimal('0.5'):
            if x == 0:
                return Decimal(0)
            x2 = x * x
            return _series(x, lambda n: x2 / ((2 * n + 2) * (2 * n + 3)), P)
        e = x.exp()
        return (e - 1 / e) / 2


def hp_cosh(x):
    with localcontext() as c:
        c.prec = P + 10
        x = _dec(x)
        if abs(x) > 720:
            raise Unjudged()
        e = x.exp()
        return (e + 1 / e) / 2


def hp_tanh(x):
    with localcontext() as c:
        c.prec = P + 10
        x = _dec(x)
        if abs(x) > 200:
            return Decimal(1 if x > 0 else -1)
        return hp_sinh(x) / hp_cosh(x)


def hp_exp(x):
    with localcontext() as c:
        c.prec = P + 10
        x = _dec(x)
        if x > 720:
            raise Unjudged()
        if x < -2000:
            return Decimal(0)
        return x.exp()


def hp_ln(x):
    with localcontext() as c:
        c.prec = P + 10
        return _dec(x).ln()


def hp_pow(x, y):
    """x, y Fractions, the real power exists"""
    with localcontext() as c:
        c.prec = P + 10
        if x == 0:
            return Decimal(0)
        sg = 1
        if x < 0:
            if y.numerator % 2 == 1:
                sg = -1
            x = -x
        if x == 1:
            return Decimal(sg)
        t = _dec(y) * _dec(x).ln()
        if t > 700:
            raise Unjudged()
        if t < -2000:
            return Decimal(0)
        return sg * t.exp()


def hp_atan2(y, x):
    """angle of the point (x, y) != (0, 0)"""
    with localcontext() as c:
        c.prec = P + 10
        pi = hp_pi(P + 10)
        if x == 0:
            return pi / 2 if y > 0 else -pi / 2
        a = hp_atan(_dec(y) / _dec(x))
        if x > 0:
            return a
        return a + pi if y >= 0 else a - pi


class Domain(Exception):
    """argument outside the mathematical domain: an error is required"""


def reference(name, q):
    """q: list of Fractions.  Decimal value of the mathematical function; raises Domain / Unjudged"""
    with localcontext() as c:
        c.prec = P + 10
        pi = hp_pi(P + 10)
        x = q[0] if q else None
        if name == 'ABS':
            return _dec(abs(x))
        if name == 'SQRT':
            if x < 0:
                raise Domain()
            return _dec(x).sqrt()
        if name == 'EXP':
            return hp_exp(x)
        if name == 'LN':
            if x <= 0:
                raise Domain()
            return hp_ln(x)
        if name in ('LOG', 'LOG10'):
            b = q[1] if len(q) > 1 else Fraction(10)
            if x <= 0 or b <= 0 or b == 1:
                raise Domain()
            return hp_ln(x) / hp_ln(b)
        if name == 'PI':
            return pi
        if name == 'POWER':
            y = q[1]
            if x == 0 and y == 0:
                raise Unjudged()
            if x > 0 or (x == 0 and y > 0) or (x < 0 and y.denominator == 1):
                return hp_pow(x, y)
            raise Domain()
        if name == 'RADIANS':
            return _dec(x) * pi / 180
        if name == 'DEGREES':
            return _dec(x) * 180 / pi
        if name == 'SIN':
            return hp_sincos(x)[0]
        if name == 'COS':
            return hp_sincos(x)[1]
        if name == 'TAN':
            s, co = hp_sincos(x)
            return s / co
        if name == 'COT':
            if x == 0:
                raise Domain()
            s, co = hp_sincos(x)
            return co / s
        if name == 'ASIN' or name == 'ACOS':
            if abs(x) > 1:
                raise Domain()
            if abs(x) == 1:
                a = pi / 2 if x > 0 else -pi / 2
            else:
                d = _dec(x)
                a = hp_atan(d / (1 - d * d).sqrt())
            return a if name == 'ASIN' else pi / 2 - a
        if name == 'ATAN':
            return hp_atan(x)
        if name == 'ACOT':
            if x == 0:
                return pi / 2
            return hp_atan(1 / _dec(x))
        if name == 'ATAN2':
            xx, yy = q[0], q[1]
            if xx == 0 and yy == 0:
                raise Domain()
            return hp_atan2(yy, xx)
        if name == 'SINH':
            return hp_sinh(x)
        if name == 'COSH':
            return hp_cosh(x)
        if name == 'TANH':
            return hp_tanh(x)
        if name == 'ASINH':
            d = _dec(x)
            if abs(d) < Decimal('0.1'):
                return hp_atanh(d / (1 + d * d).sqrt())
            v = (abs(d) + (d * d + 1).sqrt()).ln()
            return v if d > 0 else -v
        if name == 'ACOSH':
            if x < 1:
                raise Domain()
            d = _dec(x)
            return (d + (d * d - 1).sqrt()).ln()
        if name == 'ATANH':
            if abs(x) >= 1:
                raise Domain()
            return hp_atanh(x)
        if name == 'ACOTH':
            if abs(x) <= 1:
                raise Domain()
            return hp_atanh(1 / _dec(x))
    raise KeyError(name)


NUMERIC_TEXT = __import__('re').compile(r'^\s*[+-]?(\d+(\.\d*)?|\.\d+)([eE][+-]?\d+)?\s*$')


def coerce(a):
    """the number an argument denotes per the statement: Fraction | 'nonnum' | 'error' | None (not judged)"""
    q = _coerce(a)
    if isinstance(q, Fraction) and abs(q) > 10 ** 300:
        return None
    return q


def _coerce(a):
    if isinstance(a, bool):
        return Fraction(1 if a else 0)
    if isinstance(a, int):
        # an integer beyond 2^53 is judged at the double it is converted to
        try:
            return Fraction(a) if abs(a) <= 2 ** 53 else Fraction(float(a))
        except OverflowError:
            return None
    if isinstance(a, float):
        return Fraction(a)
    if isinstance(a, str):
        if '_' in a:
            return None
        if NUMERIC_TEXT.match(a):
            # numeric text is judged at the double it denotes (int text exactly)
            try:
                t = a.strip()
                if __import__('re').match(r'^[+-]?\d+$', t) and abs(int(t)) <= 2 ** 53:
                    return Fraction(int(t))
                f = float(t)
                return None if (math.isinf(f) or math.isnan(f)) else Fraction(f)
            except (ValueError, OverflowError):
                return None
        return 'nonnum'
    if isinstance(a, dict):
        return 'error'
    return None


def close(v, ref):
    """is the finite Python number v within rounding of the Decimal ref?"""
    with localcontext() as c:
        c.prec = P
        d = abs(Decimal(v) - ref)
        return d <= Decimal(REL) * abs(ref) + Decimal(ABSTOL)


def closef(a, b):
    return abs(a - b) <= REL * max(abs(a), abs(b)) + ABSTOL


ARITY = {'PI': (0, 0), 'ATAN2': (2, 2), 'LOG': (1, 2), 'POWER': (2, 2), 'PV': (3, 5), 'RAND': (0, 0), 'RANDBETWEEN': (2, 2)}


def judge_fn(name, args, ans):
    """the statement on one call: None or a message"""
    if 'nonfinite' in ans:
        return '%s%r returned the non-finite number %s (a value or an error is required)' % (name, tuple(args), ans['nonfinite'])
    lo, hi = ARITY.get(name, (1, 1))
    if not (lo <= len(args) <= hi):
        return None
    qs = [coerce(a) for a in args]
    if any(q in ('nonnum', 'error') for q in qs):
        if 'err' not in ans:
            return '%s%r: an argument is not a number, yet the result is %r (an error is required)' % (name, tuple(args), ans)
        return None
    if any(q is None for q in qs):
        return None
    try:
        ref = reference(name, qs)
    except Domain:
        if 'err' not in ans:
            return '%s%r is outside the mathematical domain, yet the result is the number %r' % (name, tuple(args), ans)
        if name == 'ATAN2' and ans['err'] != '#DIV/0!':
            return 'ATAN2 at the origin must be #DIV/0!, got %s' % ans['err']
        return None
    except Unjudged:
        return None
    if abs(ref) > HUGE:
        return None
    if 'err' in ans:
        return '%s%r is defined (= %s) but the result is the error %s' % (name, tuple(args), '%.17g' % float(ref), ans['err'])
    v = _num(ans)
    if v is None:
        return '%s%r: result %r is not a number' % (name, tuple(args), ans)
    if not close(v, ref):
        return '%s%r = %r, the mathematical value is %.17g' % (name, tuple(args), v, float(ref))
    return None


# --------------------------------------------------------------------------- identities

# id -> (formulas evaluated, number of variables); judged by judge_ident
IDENT = {
    'pyth': ['SIN(xa)*SIN(xa)+COS(xa)*COS(xa)'],
    'tan': ['TAN(xa)', 'SIN(xa)/COS(xa)'],
    'cot': ['COT(xa)', '1/TAN(xa)'],
    'expln': ['EXP(LN(xa))'],
    'lnexp': ['LN(EXP(xa))'],
    'logbase': ['LOG(xa,xb)', 'LN(xa)/LN(xb)'],
    'log10': ['LOG10(xa)', 'LN(xa)/LN(10)', 'LOG(xa)'],
    'sin_asin': ['SIN(ASIN(xa))'],
    'cos_acos': ['COS(ACOS(xa))'],
    'tan_atan': ['TAN(ATAN(xa))'],
    'sinh_asinh': ['SINH(ASINH(xa))'],
    'cosh_acosh': ['COSH(ACOSH(xa))'],
    'tanh_atanh': ['TANH(ATANH(xa))'],
    'cot_acot': ['COT(ACOT(xa))'],
    'tanh_acoth': ['TANH(ACOTH(xa))', '1/xa'],
    'asin_sin': ['ASIN(SIN(xa))'],
    'acos_cos': ['ACOS(COS(xa))'],
    'atan_tan': ['ATAN(TAN(xa))'],
    'asinh_sinh': ['ASINH(SINH(xa))'],
    'acosh_cosh': ['ACOSH(COSH(xa))'],
    'atanh_tanh': ['ATANH(TANH(xa))'],
    'acot_cot': ['ACOT(COT(xa))'],
    'deg_rad': ['DEGREES(RADIANS(xa))'],
    'rad_deg': ['RADIANS(DEGREES(xa))'],
    'atan2_angle': ['COS(ATAN2(xa,xb))', 'SIN(ATAN2(xa,xb))'],
    'pi': ['PI()', 'ACOS(-1)', '4*ATAN(1)'],
    'sqrt_sq': ['SQRT(xa)*SQRT(xa)'],
    'abs_sq': ['SQRT(POWER(xa,2))', 'ABS(xa)'],
}
# identities whose value is the argument itself
SELF = {'expln', 'lnexp', 'sin_asin', 'cos_acos', 'tan_atan', 'sinh_asinh', 'cosh_acosh', 'tanh_atanh', 'cot_acot',
        'asin_sin', 'acos_cos', 'atan_tan', 'asinh_sinh', 'acosh_cosh', 'atanh_tanh', 'acot_cot', 'deg_rad', 'rad_deg',
        'sqrt_sq'}


def judge_ident(c, ans):
    vals = []
    for f, a in zip(IDENT[c['id']], ans):
        if 'nonfinite' in a:
            return '%s with %r returned the non-finite number %s' % (f, c['args'], a['nonfinite'])
        v = _num(a)
        if v is None:
            return '%s with %r should be a number, got %r' % (f, c['args'], a)
        vals.append(float(v))
    i = c['id']
    x = float(c['args'][0]) if c['args'] else None
    if i == 'pyth':
        ok = closef(vals[0], 1.0)
    elif i in SELF:
        ok = closef(vals[0], x)
    elif i == 'atan2_angle':
        y = float(c['args'][1])
        r = math.hypot(x, y)
        # scale first: the quotient of two huge or two tiny coordinates
        ok = closef(vals[0], (x / r)) and closef(vals[1], (y / r))
    elif i == 'pi':
        ok = vals[0] == math.pi and closef(vals[1], vals[0]) and closef(vals[2], vals[0])
    else:
        ok = all(closef(vals[0], w) for w in vals[1:])
    if not ok:
        return 'identity %s fails at %r: %s = %r' % (i, c['args'], ' ; '.join(IDENT[i]), vals)
    return None


# --------------------------------------------------------------------------- PV

def judge_pv(c, ans):
    args = c['args']
    if 'nonfinite' in ans:
        return 'PV%r returned the non-finite number %s' % (tuple(args), ans['nonfinite'])
    if not (3 <= len(args) <= 5):
        return None
    if any(a is None for a in args[:3]):
        return None
    full = list(args) + [0] * (5 - len(args))
    full = [0 if a is None else a for a in full]
    qs = [coerce(a) for a in full]
    if any(q in ('nonnum', 'error') for q in qs):
        return None if 'err' in ans else 'PV%r: an argument is not a number, yet the result is %r' % (tuple(args), ans)
    if any(q is None for q in qs):
        return None
    r, n, pmt, fv, ty = qs
    if r <= -1 or ty not in (0, 1):
        return None
    with localcontext() as ctx:
        ctx.prec = P + 10
        if r == 0:
            terms = [None, _dec(pmt) * _dec(n), _dec(fv)]
            R = Decimal(1)
        else:
            t = _dec(n) * _dec(1 + r).ln()
            if abs(t) > 690:
                return None
            R = t.exp()
            terms = [None, _dec(pmt) * _dec(1 + r * ty) * (R - 1) / _dec(r), _dec(fv)]
        if any(abs(x) > HUGE for x in terms[1:]):
            return None
        if 'err' in ans:
            return 'PV%r is defined but the result is the error %s' % (tuple(args), ans['err'])
        v = _num(ans)
        if v is None:
            return 'PV%r: result %r is not a number' % (tuple(args), ans)
        terms[0] = Decimal(v) * R
        res = sum(terms)
        scale = max(abs(x) for x in terms)
        if abs(res) > Decimal(REL) * scale + Decimal(ABSTOL):
            return ('PV%r = %r does not satisfy the annuity equation: pv(1+r)^n + pmt(1+r*type)((1+r)^n-1)/r + fv = %.6g '
                    '(terms up to %.6g)' % (tuple(args), v, float(res), float(scale)))
    return None


# --------------------------------------------------------------------------- random functions

def judge_rand(c, ans):
    if c['kind'] == 'rand':
        for a in ans:
            if 'flt' not in a or not (0.0 <= a['flt'] < 1.0):
                return 'RAND() returned %r, not a float in [0,1)' % (a,)
        return None
    lo, hi = coerce(c['args'][0]), coerce(c['args'][1])
    if not isinstance(lo, Fraction) or not isinstance(hi, Fraction):
        bad = [a for a in ans if 'err' not in a]
        if lo in ('nonnum', 'error') or hi in ('nonnum', 'error'):
            return 'RANDBETWEEN%r with a non-number returned %r' % (tuple(c['args']), bad[0]) if bad else None
        return None
    if lo.denominator != 1 or hi.denominator != 1 or lo > hi:
        return None
    for a in ans:
        if 'int' not in a or not (lo <= a['int'] <= hi):
            return 'RANDBETWEEN%r returned %r, not an integer in [%d,%d]' % (tuple(c['args']), a, lo, hi)
    return None


# --------------------------------------------------------------------------- plugin interface

def _wire(a):
    if isinstance(a, dict):
        return '(e %s)' % fx.ERR_TAGS[a['e']]
    return fx.to_wire(a)


def _modelled_text(s):
    """decimal text in the forms Model/Operators.pyFloat? / PyNum.pyInt? read (ASCII, no exponent);
    everything else the model calls text only if Python does too"""
    t = s.strip(' \t\n\r\x0b\x0c')
    if any(ord(ch) > 127 for ch in s):
        return False
    low = t.lower().lstrip('+-')
    if 'e' in low and NUMERIC_TEXT.match(s):
        return False          # exponent form: float() accepts it, the model does not read it
    if low in ('nan', 'inf', 'infinity'):
        return True           # non-finite: #VALUE! on both sides
    try:
        f = float(s)
        return not (math.isinf(f) or math.isnan(f))
    except ValueError:
        return True


def _comparable(args, big_ok):
    for a in args:
        if isinstance(a, str) and not _modelled_text(a):
            return False
        if isinstance(a, int) and not isinstance(a, bool) and abs(a) > (10 ** 30 if big_ok else 2 ** 53):
            return False
    return True


DIRECT = {'ABS', 'ACOS', 'ACOSH', 'SIN', 'SINH', 'ASIN', 'ASINH', 'COS', 'COSH', 'COT', 'TAN', 'TANH', 'ATAN', 'ATAN2', 'ATANH',
          'SQRT', 'EXP', 'LN', 'LOG', 'LOG10', 'RADIANS', 'DEGREES'}


def request(c):
    k = c['kind']
    if k in ('fn', 'pv'):
        name = c['name']
        if not _comparable(c['args'], name in DIRECT):
            return None
        return 'math %s %s' % (enc_str(name), ' '.join(_wire(a) for a in c['args']))
    if k == 'abs':
        if not _comparable(c['args'], True):
            return None
        return 'fn %s %s' % (enc_str('ABS'), ' '.join(_wire(a) for a in c['args']))
    if k == 'powint':
        return 'math.powint %s %s' % (_wire(c['args'][0]), _wire(c['args'][1]))
    return None


def impl(c):
    k = c['kind']
    if k in ('fn', 'pv', 'abs', 'powint'):
        name = c['name']
        if c.get('formula'):
            return _eval(c['formula'], c['args'])
        return _eval(formula_of(name, c['args'], c.get('route')), c['args'])
    if k == 'ident':
        return [_eval(f, c['args']) for f in IDENT[c['id']]]
    if k == 'rand':
        return [_eval('RAND()', []) for _ in range(c['n'])]
    if k == 'randbetween':
        return [_eval('RANDBETWEEN(xa,xb)', c['args']) for _ in range(c['n'])]
    raise ValueError(k)


def _bits_to_float(n):
    return struct.unpack('<d', struct.pack('<Q', int(n)))[0]


def ulps_apart(a, b):
    def key(x):
        n = struct.unpack('<q', struct.pack('<d', x))[0]
        return n if n >= 0 else -(n & 0x7FFFFFFFFFFFFFFF)
    return abs(key(a) - key(b))


def agree(c, ans, model):
    k = c['kind']
    m = fx.parse_sexp(model)
    if k == 'abs':
        if isinstance(m, list) and m and m[0] == 'raise':
            return ans.get('err') == fx.TAG_ERR.get(m[1])
        if isinstance(m, list) and m and m[0] == 'e':
            return ans.get('err') == fx.TAG_ERR.get(m[1])
        if 'int' in ans:
            return m == ['i', str(ans['int'])]
        if 'flt' in ans:
            return fx.value_matches(m, ans['flt'], ulps=1) is True
        return False
    if k == 'powint':
        if m == 'none':
            return True
        if m[0] == 'e':
            return ans.get('err') == fx.TAG_ERR.get(m[1])
        return m[0] == 'i' and ans.get('int') == int(m[1])
    if not isinstance(m, list) or not m:
        return False
    if m[0] == 'e':
        return ans.get('err') == fx.TAG_ERR.get(m[1])
    if m[0] == 'bits':
        f = _bits_to_float(m[1])
        if math.isnan(f):
            return ans.get('nonfinite') == 'nan'
        if math.isinf(f):
            return ans.get('nonfinite') == ('inf' if f > 0 else '-inf')
        v = _num(ans)
        if v is None:
            return False
        try:
            v = float(v)
        except OverflowError:
            return False
        return v == f or ulps_apart(v, f) <= 4
    return False


def oracle(c, ans):
    k = c['kind']
    if k in ('fn', 'abs', 'powint'):
        return judge_fn(c['name'], c['args'], ans)
    if k == 'pv':
        return judge_pv(c, ans)
    if k == 'ident':
        return judge_ident(c, ans)
    return judge_rand(c, ans)


def nontrivial(c, ans):
    k = c['kind']
    if k in ('fn', 'pv', 'abs', 'powint'):
        return _num(ans) is not None
    if k == 'ident':
        return all(_num(a) is not None for a in ans)
    if k == 'rand':
        return len(set(a.get('flt') for a in ans)) > 1
    lo, hi = coerce(c['args'][0]), coerce(c['args'][1])
    vals = set(a.get('int') for a in ans)
    return None not in vals and (len(vals) > 1 or lo == hi)


# --------------------------------------------------------------------------- generators

PI_F = math.pi
SPECIAL = [0, 1, -1, 2, -2, 0.5, -0.5, 0.0, 1.0, -1.0, 3, 10, 0.25, 1.5, -1.5, 100, 1e-5, -1e-5,
           1.0000000000000002, 0.9999999999999999, -1.0000000000000002, -0.9999999999999999,
           PI_F, PI_F / 2, -PI_F / 2, PI_F / 4, 3 * PI_F / 2, 2 * PI_F, 1e-300, -1e-300, 1e300, -1e300, 1e15, 1e22,
           2.718281828459045, 709.0, -709.0, 690.0, 745.0, -745.1332191019412, 0.1, 0.3, True, False]


def rnd_float(rng, kmin=-40, kmax=40, short=None):
    if short is None:
        short = rng.random() < 0.4
    m = 1 + (rng.randrange(1 << 10) / float(1 << 10) if short else rng.randrange(1 << 52) / float(1 << 52))
    k = rng.randint(kmin, kmax)
    return rng.choice([1, -1]) * math.ldexp(m, k)


def rnd_arg(rng, wide=True):
    r = rng.random()
    if r < 0.55:
        return rnd_float(rng)
    if r < 0.65:
        return rnd_float(rng, -3, 3)
    if r < 0.72 and wide:
        return rnd_float(rng, -990, 990)
    if r < 0.82:
        return rng.randint(-50, 50)
    if r < 0.88:
        return rng.randint(-10 ** 6, 10 ** 6)
    if r < 0.90 and wide:
        return rng.choice([1, -1]) * rng.randrange(10 ** 15, 10 ** 30)
    if r < 0.94:
        v = rng.choice([rng.randint(-999, 999) / 100.0, rng.randint(-50, 50)])
        s = repr(v)
        return rng.choice([s, ' ' + s, s + ' ', '+' + s if not s.startswith('-') else s])
    if r < 0.96:
        return rng.choice([True, False])
    return rng.choice(SPECIAL)


NONNUM = ['abc', '', ' ', '1,5', '1 2', '--1', 'nan', 'inf', 'infinity', '-inf', 'NaN', '1e', 'e5', '0x10', '1.2.3', 'TRUE',
          '١٢', '1e400', '-1e999']
NUMTEXT = ['0.5', '-0.5', ' 12 ', '1_000', '1e3', '2E-2', '+3', '.5', '5.', '007', '-0', '1e-320']
ODD = [None, [1.0, 2.0], [], [[1]], {'e': '#DIV/0!'}, {'e': '#N/A'}, {'e': '#VALUE!'}, {'e': '#NUM!'}]

# the functions called with one argument (LOG with its default base; ABS is added by gen_fn_cases);
# DENORMAL_OK: those that also get the denormals 5e-324 / -5e-324 / 1e-310
UNARY = ['ACOS', 'ACOSH', 'ACOT', 'ACOTH', 'SIN', 'SINH', 'ASIN', 'ASINH', 'COS', 'COSH', 'COT', 'TAN', 'TANH', 'ATAN',
         'ATANH', 'SQRT', 'EXP', 'LN', 'LOG10', 'RADIANS', 'DEGREES', 'LOG']
DENORMAL_OK = {'SIN', 'ASIN', 'SINH', 'ASINH', 'TAN', 'TANH', 'ATAN', 'ATANH', 'SQRT', 'ACOT', 'COS', 'COSH', 'ACOS', 'EXP',
               'LN', 'LOG10', 'LOG', 'RADIANS', 'DEGREES'}


def _safe(name, a):
    """keep the generator away from the known overflow findings: DEGREES beyond 1e300, COT at 0 < |x| < 1e-300
    (PV is kept in range by gen_pv_cases)"""
    if isinstance(a, str):
        try:
            a = float(a)
        except ValueError:
            return True
    if isinstance(a, (int, float)) and not isinstance(a, bool):
        if name == 'DEGREES' and abs(a) > 1e300:
            return False
        if name == 'COT' and a != 0 and abs(a) < 1e-300:
            return False
    return True


def fn_case(name, args, formula=None):
    k = 'abs' if name == 'ABS' else 'fn'
    c = {'kind': k, 'name': name, 'args': list(args)}
    if formula:
        c['formula'] = formula
    return c


def gen_fn_cases(rng, n_rand):
    out = []
    for name in UNARY + ['ABS']:
        pts = list(SPECIAL)
        if name in DENORMAL_OK or name == 'ABS':
            pts += [5e-324, -5e-324, 1e-310]
        pts += [10 ** 20, -10 ** 20, 2 ** 53, 2 ** 53 + 1] + NUMTEXT + NONNUM + ODD
        for a in pts:
            if _safe(name, a):
                out.append(fn_case(name, [a]))
        for _ in range(n_rand):
            a = rnd_arg(rng)
            if name in ('ASIN', 'ACOS', 'ATANH', 'ACOTH', 'ACOSH') and rng.random() < 0.6:
                # around the boundary 1 from both sides, and inside (-1, 1)
                sg = rng.choice([-1, 1])
                a = rng.choice([rng.uniform(-1.2, 1.2),
                                sg * (1 + math.ldexp(1 + rng.random(), rng.randint(-53, 1))),
                                sg * (1 - math.ldexp(1 + rng.random(), rng.randint(-54, -2)))])
            if name in ('EXP', 'SINH', 'COSH') and rng.random() < 0.4:
                a = rng.uniform(-760, 760)
            if name in ('SIN', 'COS', 'TAN', 'COT') and rng.random() < 0.3:
                a = rng.randint(-40, 40) * PI_F / 2 + rng.choice([0, rnd_float(rng, -50, -20)])
            if _safe(name, a):
                out.append(fn_case(name, [a]))
        out.append(fn_case(name, []))
        out.append(fn_case(name, [1, 2, 3]))
    # through a formula: an error produced inside the argument, text literals
    for name in ['SIN', 'SQRT', 'LN', 'ABS', 'ACOT']:
        out.append(fn_case(name, [{'e': '#DIV/0!'}], '%s(1/0)' % name))
        out.append(fn_case(name, ['abc'], '%s("abc")' % name))
        out.append(fn_case(name, ['0.25'], '%s("0.25")' % name))
        out.append(fn_case(name, [True], '%s(TRUE)' % name))
    # two-argument functions
    two = []
    grid = [0, 1, -1, 2, -2, 0.5, -0.5, 3, 10, 0.0, 1e-300, 1e300, -1e300, 1e-5, 1.0000000000000002, 0.9999999999999999, True]
    for a in grid:
        for b in grid:
            two.append(('ATAN2', [a, b]))
            two.append(('LOG', [a, b]))
            two.append(('POWER', [a, b]))
    for _ in range(n_rand * 3):
        two.append(('ATAN2', [rnd_arg(rng), rnd_arg(rng)]))
        two.append(('ATAN2', [rng.choice([0, 0.0, rnd_arg(rng)]), rng.choice([0, 0.0, rnd_arg(rng)])]))
        x = abs(rnd_float(rng, -200, 200)) if rng.random() < 0.8 else rnd_arg(rng)
        b = abs(rnd_float(rng, -60, 60)) if rng.random() < 0.8 else rnd_arg(rng)
        if rng.random() < 0.15:
            b = 1 + rng.choice([-1, 1]) * math.ldexp(1, rng.randint(-52, -1))
        two.append(('LOG', [x, b]))
        # POWER: positive base with real exponent, negative base with integer / fractional exponent, zero base
        r = rng.random()
        if r < 0.4:
            base = abs(rnd_float(rng, -20, 20))
            ex = rnd_float(rng, -6, 6)
        elif r < 0.6:
            base = -abs(rnd_float(rng, -8, 8))
            ex = rng.choice([rng.randint(-12, 12), float(rng.randint(-12, 12)), rnd_float(rng, -3, 3), 0.5, 1 / 3.0])
        elif r < 0.7:
            base = rng.choice([0, 0.0])
            ex = rng.choice([rng.randint(-3, 3), rnd_float(rng, -3, 3)])
        elif r < 0.85:
            base = rng.randint(-30, 30)
            ex = rng.randint(-8, 40)
        else:
            base = rnd_float(rng, -300, 300)
            ex = rnd_float(rng, -3, 9)
        two.append(('POWER', [base, ex]))
    for t in NUMTEXT[:6]:
        two += [('ATAN2', [t, 1]), ('LOG', [8, t]), ('POWER', [t, 2]), ('POWER', [2, t])]
    for t in NONNUM[:8] + ODD:
        two += [('ATAN2', [t, 1]), ('ATAN2', [1, t]), ('LOG', [t, 2]), ('LOG', [8, t]), ('POWER', [t, 2]), ('POWER', [2, t])]
    two += [('ATAN2', ['abc', {'e': '#NUM!'}]), ('ATAN2', [{'e': '#NUM!'}, 'abc']), ('ATAN2', [1]), ('POWER', [2]),
            ('LOG', [8, 2, 2]), ('PI', []), ('PI', [1]), ('LOG', [100]), ('LOG', [1000]), ('LOG', ['100']), ('LOG10', [1000])]
    for name, args in two:
        out.append(fn_case(name, args))
        if name == 'POWER' and all(isinstance(a, int) and not isinstance(a, bool) for a in args) and len(args) == 2 \
                and args[1] >= 0:
            out.append({'kind': 'powint', 'name': 'POWER', 'args': list(args)})
    for a, b in [(10, 308), (10, 309), (2, 1023), (2, 1024), (-2, 1023), (7, 30), (0, 0), (1, 5000), (-1, 5001), (3, 40)]:
        out.append({'kind': 'powint', 'name': 'POWER', 'args': [a, b]})
        out.append(fn_case('POWER', [a, b]))
    return out


def _bits(x):
    return abs(x).bit_length()


def gen_guard_cases(rng, n):
    """the integer-overflow guard of POWER and PV: both sides of `(bit_length(|x|) - 1) * y >= 1024`"""
    out = []

    def power(a, b):
        out.append(fn_case('POWER', [a, b]))
        if all(isinstance(v, int) and not isinstance(v, bool) for v in (a, b)) and b >= 0:
            out.append({'kind': 'powint', 'name': 'POWER', 'args': [a, b]})

    def pv(*args):
        out.append({'kind': 'pv', 'name': 'PV', 'args': list(args)})
    fixed = [(2, 1024), (2, 1023), (3, 1024), (3, 1023), (4, 512), (4, 511), (-2, 1024), (-2, 1023), (-2, 1025), (-3, 1024),
             (5, 512), (5, 511), (255, 147), (255, 146), (256, 128), (256, 127), (2 ** 53, 20), (2 ** 53, 19), (10, 308),
             (10, 309), (10, 341), (10, 342), (2, 10 ** 15), (-3, 10 ** 15 + 1), (7, 10 ** 18), (2, 2 ** 53), (36, 10 ** 15),
             (1, 10 ** 15), (-1, 10 ** 15 + 1), (-1, 10 ** 15), (0, 10 ** 15), (0, 1), (2, 0), (2 ** 60, 0), (2, -1024), (2, -5000),
             (10 ** 400, 1), (-10 ** 400, 1), (10 ** 400, 0), (2 ** 1024, 1), (-2 ** 1024, 1), (2 ** 1024 - 1, 1), (2 ** 1023, 1),
             (10 ** 308, 1), (2 ** 512, 2), (2 ** 512 - 1, 2), (-2 ** 512, 2), (10 ** 154, 2), (10 ** 155, 2), (2 ** 341, 3),
             (2 ** 342, 3), (10 ** 30, 34), (10 ** 30, 35),
             # well inside the range (the power is below 1e300, where the oracle judges) although bit_length * exponent > 1024
             (2, 513), (2, 900), (3, 400), (3, 518), (7, 300), (7, 342), (10, 257), (10, 300), (36, 150), (1000, 99),
             (2 ** 20, 45), (-2, 901), (-10, 299)]
    for a, b in fixed:
        power(a, b)
    # logicals and integer text are Python ints for the guard; floats (even integral ones) are not
    for a, b in [('2', '1024'), ('2', 1024), (2, '1024'), (' 2 ', '1_024'), ('2', '1023'), (True, 10 ** 15), (False, 10 ** 15),
                 (2, True), (2.0, 1024), (2, 1024.0), (2.0, 1024.0), ('2.0', '1024'), (2, '1024.0'), (2.0, 1023), (2, 1023.0),
                 (-2.0, 1025), (4.0, 512), (0.5, -1024), (0.5, -1080)]:
        power(a, b)
    pv_fixed = [(1, 1024, 1), (1, 1023, 1), (1, 1024, -100, 0, 1), (1, 2000, -100, 50, 1), (3, 512, 1), (3, 511, 1), (2, 1000, 1),
                (2, 1024, 1), (2, 1023, 1), (2, 646, 1), (-3, 1024, 1), (-3, 1023, 1), (-3, 1025, 1), (-4, 1024, 1), (-4, 1023, 1),
                (True, 1024, 1), (True, 1023, 1), ('1', '1024', 1), ('1', '1023', '1'), (1.0, 1024, 1), (1, 1024.0, 1),
                (1.0, 1023, 1), (1, 1023.0, 1), (35, 10 ** 15, 1), (1, 10 ** 15, 1), (-3, 10 ** 15, 1), (0, 10 ** 15, 1),
                (0, 10 ** 15, 1, 5), (-2, 10 ** 15, 1), (-2, 10 ** 15 + 1, 1), (-1, 10 ** 15, 1), (1, 0, 1), (1, -1000, 1),
                (1, -5000, 1), (255, 147, 1), (255, 146, 1), (2 ** 20 - 1, 52, 1), (2 ** 20 - 1, 51, 1), (1, 1024, 'x'),
                (1, 1024, {'e': '#N/A'}), (1, 1024, 1, 10 ** 400), (1, 1024), (9, 400, 1), (9, 341, 1), (9, 342, 1),
                # growth factors well inside the range: 2^900, 3^500, 10^250, 8^300
                (1, 900, 1), (2, 500, 1), (9, 250, 1), (7, 300, -100, 5, 1)]
    for args in pv_fixed:
        pv(*args)
    for L in list(range(1, 70)) + [rng.randint(70, 1200) for _ in range(n)]:
        # a base of bit length L + 1 (either sign); y0 = the smallest exponent that meets the guard
        base = rng.choice([1 << L, (1 << (L + 1)) - 1, rng.randint(1 << L, (1 << (L + 1)) - 1)])
        y0 = -(-1024 // L)
        sg = rng.choice([1, 1, -1])
        power(sg * base, y0)
        power(sg * base, y0 - 1)
        if L <= 52:
            power(float(sg * base), y0)
            # PV: growth = 1 + rate = sg * base; payment 1, type 0: no float overflow apart from the growth factor itself
            pv(sg * base - 1, y0, 1)
            pv(sg * base - 1, y0 - 1, 1)
            pv(sg * base - 1, y0 + rng.randint(1, 10 ** 6), rng.randint(-1000, 1000), rng.randint(-1000, 1000), rng.choice([0, 1]))
    for _ in range(n):
        a = rng.choice([rng.randint(-40, 40), rng.randint(-10 ** 6, 10 ** 6), rng.randint(2, 2 ** 53)])
        b = rng.choice([rng.randint(0, 1200), rng.randint(1000, 1100), 10 ** rng.randint(3, 18), rng.randint(0, 60)])
        power(a, b)
    return out


def gen_ident_cases(rng, n):
    out = []

    def add(i, *args):
        out.append({'kind': 'ident', 'id': i, 'args': list(args)})
    out.append({'kind': 'ident', 'id': 'pi', 'args': []})
    for _ in range(n):
        x = rnd_float(rng, -30, 30)
        add('pyth', x)
        add('pyth', rnd_float(rng, -300, 300))
        add('tan', x)
        add('tan', rng.randint(-20, 20) * PI_F / 2 + rnd_float(rng, -30, -3))
        xc = rnd_float(rng, -30, 30)
        add('cot', xc)
        add('cot', rng.randint(1, 20) * PI_F + rnd_float(rng, -30, -3))
        pos = abs(rnd_float(rng, -900, 900))
        add('expln', pos)
        add('expln', abs(rnd_float(rng, -5, 5)))
        add('lnexp', rng.uniform(-700, 700))
        b = abs(rnd_float(rng, -60, 60))
        if b != 1:
            add('logbase', pos, b)
        add('logbase', abs(rnd_float(rng, -5, 5)), 1 + rng.choice([-1, 1]) * math.ldexp(1, rng.randint(-40, -1)))
        add('log10', pos)
        y = rng.uniform(-1, 1)
        add('sin_asin', y)
        add('cos_acos', y)
        add('sin_asin', rng.choice([1.0, -1.0, 0.0, 1, -1, math.copysign(1 - math.ldexp(1, rng.randint(-53, -1)), y)]))
        add('cos_acos', rng.choice([1.0, -1.0, 0.0, 1, -1, math.copysign(1 - math.ldexp(1, rng.randint(-53, -1)), y)]))
        add('tan_atan', rnd_float(rng, -40, 19))
        add('sinh_asinh', rnd_float(rng, -60, 60))
        add('sinh_asinh', rnd_float(rng, -900, 900))
        add('cosh_acosh', 1 + abs(rnd_float(rng, -52, 60)))
        add('cosh_acosh', rng.choice([1, 1.0, 1.0000000000000002, 2, 1e300, abs(rnd_float(rng, 1, 900))]))
        add('tanh_atanh', rng.uniform(-1, 1))
        add('tanh_atanh', math.copysign(1 - math.ldexp(1, rng.randint(-53, -1)), y))
        add('tanh_atanh', rnd_float(rng, -60, -1))
        add('cot_acot', rnd_float(rng, -40, 40))
        add('cot_acot', rnd_float(rng, -900, 900))
        add('tanh_acoth', rng.choice([-1, 1]) * (1 + abs(rnd_float(rng, -52, 40))))
        add('asin_sin', rng.uniform(-PI_F / 2 + 1e-3, PI_F / 2 - 1e-3))
        add('acos_cos', rng.uniform(1e-3, PI_F - 1e-3))
        add('atan_tan', rng.uniform(-PI_F / 2, PI_F / 2))
        add('atan_tan', rnd_float(rng, -60, -1))
        add('asinh_sinh', rng.uniform(-700, 700))
        add('asinh_sinh', rnd_float(rng, -60, 3))
        add('acosh_cosh', rng.uniform(1e-3, 690))
        add('atanh_tanh', rng.uniform(-6, 6))
        xx = rng.uniform(-PI_F / 2, PI_F / 2)
        if abs(xx) > 1e-6:
            add('acot_cot', xx)
        add('deg_rad', rnd_float(rng, -60, 60))
        add('deg_rad', rnd_float(rng, -900, 900))
        add('rad_deg', rnd_float(rng, -60, 60))
        add('sqrt_sq', abs(rnd_float(rng, -400, 400)))
        add('abs_sq', rnd_float(rng, -400, 400))
        ax, ay = rnd_float(rng, -30, 30), rnd_float(rng, -30, 30)
        add('atan2_angle', ax, ay)
        add('atan2_angle', rnd_float(rng, -900, 900), rnd_float(rng, -900, 900))
        add('atan2_angle', rng.choice([0, 0.0, ax]), rng.choice([0.0, 0, ay]) if rng.random() < 0.5 else ay)
    for ax, ay in [(1, 0), (-1, 0), (0, 1), (0, -1), (1, 1), (-1, -1), (-1, 1), (1, -1), (1e-300, 0), (0, 1e300), (-2.5, 0.0),
                   (0.0, -3), (1e300, 1e-300), (-1e-300, 1e300), (3, 4)]:
        add('atan2_angle', ax, ay)
    return [c for c in out if not (c['id'] == 'atan2_angle' and c['args'][0] == 0 and c['args'][1] == 0)]


def gen_pv_cases(rng, n):
    out = []

    def add(*args):
        out.append({'kind': 'pv', 'name': 'PV', 'args': list(args)})
    add(0.05, 10, -100)
    add(0.05, 10, -100, 0, 1)
    add(0.05, 10, -100, 1000)
    add(0, 10, -100, 5, 1)
    add(0.0, 10, -100.5, 5)
    add(1, 3, -100)
    add(1, 3, -100, 7, 1)
    add(-0.5, 4, 10, 3, 1)
    add(0.08 / 12, 12 * 20, 500, 0, 0)
    add(0.1, 0, -100, 50, 1)
    add(0.1, -3, -100, 50, 1)
    add(0.1, 2.5, -100, 50, 0)
    add('0.05', '10', '-100', True, False)
    add(True, 2, -100)
    add(False, 2, -100)
    add(0.05, 10, -100, None, 1)
    add(0.05, 10, -100, None, None)
    add(-1, 10, -100)
    add(-1.0, 2, 5, 1, 1)
    add(0.5, 5000, -100)
    add(-0.5, 5000, -100)
    add('abc', 10, -100)
    add(0.05, 'x', -100)
    add(0.05, 10, '')
    add(0.05, 10, -100, 'nan')
    add(0.05, 10, -100, 0, 'inf')
    add({'e': '#DIV/0!'}, 10, -100)
    add(0.05, 10, {'e': '#N/A'})
    add(0.05, 10)
    add(0.05, 10, 1, 2, 1, 3)
    add(None, 10, -100)
    add(0.05, [1], -100)
    for _ in range(n):
        r = rng.random()
        if r < 0.15:
            rate = rng.choice([0, 0.0, False])
        elif r < 0.65:
            rate = rng.choice([0.01, 0.05, 0.1, 0.005, 0.0025, 0.2, 0.5, 1.0, 2.5, 10.0, -0.01, -0.1, -0.5, -0.9, 0.001,
                               0.0001, -0.0001, 1, 2, 3])
        else:
            rate = rng.uniform(-0.95, 1.5)
            if abs(rate) < 1e-4:
                rate = 0.25
        per = rng.choice([rng.randint(0, 60), rng.randint(0, 400), rng.uniform(0.25, 60), rng.randint(-20, -1), 0.5, 360])
        if isinstance(rate, int) and not isinstance(rate, bool) and rate >= 1 and isinstance(per, int):
            per = max(-10, min(per, 20))
        if abs(per * math.log1p(float(rate))) > 600:
            per = 12            # keep (1+rate)^periods representable (PV overflow is a known finding)
        pmt = rng.choice([rng.randint(-1000, 1000), rnd_float(rng, -10, 30), 0, -100])
        fv = rng.choice([0, rng.randint(-10 ** 6, 10 ** 6), rnd_float(rng, -10, 40)])
        ty = rng.choice([0, 1, 0, 1, True, False, 0.0, 1.0])
        k = rng.random()
        if k < 0.15:
            add(rate, per, pmt)
        elif k < 0.3:
            add(rate, per, pmt, fv)
        else:
            add(rate, per, pmt, fv, ty)
    # the same calls WRITTEN with each of the three argument separators, an omitted future value / type being an empty slot
    # of the call's text (a blank argument), not a variable holding None
    written = []
    for i, c in enumerate(out):
        a = list(c['args'])
        if not (3 <= len(a) <= 5) or (i >= 32 and rng.random() < 0.5):
            continue
        if len(a) == 5 and a[3] is not None and not isinstance(a[3], bool) and a[3] == 0 and rng.random() < 0.6:
            a[3] = None
        while len(a) > 3 and a[-1] is None:
            a.pop()
        sep = rng.choice([',', ';', '\\', '\\'])
        slots = [VARS[j] if x is not None or j < 3 else '' for j, x in enumerate(a)]
        written.append({'kind': 'pv', 'name': 'PV', 'args': a, 'formula': 'PV(' + sep.join(slots) + ')'})
    return out + written


def gen_rand_cases(rng, n, draws):
    out = [{'kind': 'rand', 'n': draws * 4}]
    for a, b in [(1, 6), (0, 0), (-5, 5), (0, 1), (10, 10 ** 9), (-3, -3), (-10 ** 12, 10 ** 12), (1.0, 6.0), ('2', '4'),
                 (False, True), (0, '1'), (3, 1), ('abc', 3), (1, ''), (1.5, 3.7), ({'e': '#N/A'}, 3), (-2.0, 2)]:
        out.append({'kind': 'randbetween', 'args': [a, b], 'n': draws})
    for _ in range(n):
        a = rng.randint(-1000, 1000)
        out.append({'kind': 'randbetween', 'args': [a, a + rng.choice([0, 1, 2, 5, 100, 10 ** 6])], 'n': draws})
    return out


# the known findings (not repaired).  Documentation only: nothing reads this list; the harness replays the entries
# of known_findings.json (the first four below; the candidate is not listed there)
KNOWN_WITNESSES = [
    {'kind': 'fn', 'name': 'DEGREES', 'args': [1e308]},
    {'kind': 'fn', 'name': 'COT', 'args': [1e-320]},
    {'kind': 'pv', 'name': 'PV', 'args': [0.5, 10, 1e308]},
    {'kind': 'pv', 'name': 'PV', 'args': [1e-10, 7090000000000, 0]},
    {'kind': 'pv', 'name': 'PV', 'args': [1e-12, 1, -100]},      # candidate: cancellation at tiny rates
]


def cases(rng, ctx):
    thorough = ctx['tier'] == 'thorough'
    s = ctx['scale']
    if thorough:
        n_fn, n_id, n_pv, n_rb, draws = 4000, 6000, 80000, 800, 400
    else:
        n_fn, n_id, n_pv, n_rb, draws = 25 * s, 40 * s, 600 * s, 10 * s, 40
    out = gen_fn_cases(rng, n_fn) + gen_ident_cases(rng, n_id) + gen_pv_cases(rng, n_pv) + gen_rand_cases(rng, n_rb, draws)
    out += gen_guard_cases(rng, 2000 if thorough else 40 * s)
    # other routes to the same calls: the arguments as values of cells (answered by the host's listener: 0, 0.0 and FALSE are
    # values, not blanks), and the call written over several lines
    routed = []
    for i, c in enumerate(out):
        if c['kind'] in ('fn', 'pv', 'abs') and not c.get('formula') and len(c['args']) <= 6:
            falsy = any((a == 0 and not isinstance(a, str) and a is not None) for a in c['args'] if not isinstance(a, (dict, list)))
            if i % 9 == 0 or (falsy and i % 2 == 0):
                routed.append(dict(c, route='cell'))
            if i % 11 == 0:
                routed.append(dict(c, route='ws'))
            if i % 7 == 0 and len(c['args']) >= 1 and any(nest_text(a) is not None for a in c['args']):
                # route nest: the numeric arguments are defined names the host resolves by evaluating their text on the same parser
                routed.append(dict(c, route='nest'))
    return out + routed


def search(rng, ctx, disagreeing):
    out = []
    names = sorted(set(c.get('name') for c in disagreeing if c.get('name')))
    for c in gen_fn_cases(rng, 400):
        if not names or c.get('name') in names:
            out.append(c)
    if not names or 'PV' in names:
        out += gen_pv_cases(rng, 5000)
    out += gen_ident_cases(rng, 300)
    out += gen_guard_cases(rng, 400)
    return out
