# -*- coding: utf-8 -*-
"""C08 - error values propagate through operators and can be trapped

case kinds (both are sent to the Lean model, `request` never returns None):
  formula  one of 25 fixed formulas, evaluated as written; the oracle judges only the shape of the record
  tree     an expression tree (nodes err / num / arr / neg / call ID / bin) rendered fully parenthesised and evaluated under
           the 13 wrappings of WRAPS, followed by each of its family producers evaluated alone (the observed error code);
           sources: FIXED_TREES (among them arrays that HOLD error values and error values taken out of the host range
           A5:A7), text spelling an error code, random trees (gen), sweep 1 (producer families x operators),
           sweep 2 (error operand x array operand)
`gen` / `render` / WRAPS / CODES / `parser` / `model_env` are re-used by the plugins c01, c02 and c03.
"""
import random as _random
from fractions import Fraction

from .. import common, fx
from ..common import enc_str
from . import c04

ID = 'C08'
LEAN_MODULES = ['HotXL.Props.C08']
FUNCTIONS = ['hotxlfp.formulas.operators:evaluate_arithmetic', 'hotxlfp.formulas.operators:evaluate_logic',
             'hotxlfp.grammarparser.parser:FormulaParser.p_expression_arithmetic_operator',
             'hotxlfp.grammarparser.parser:FormulaParser.p_expression_uminus', 'hotxlfp.grammarparser.parser:FormulaParser.p_xlerror',
             'hotxlfp.parser:Parser.parse', 'hotxlfp.parser:Parser.call_function', 'hotxlfp.parser:Parser._throw_error',
             'hotxlfp.formulas.error:from_message',
             'hotxlfp.formulas.logic:IFERROR', 'hotxlfp.formulas.logic:IFNA', 'hotxlfp.formulas.information:ISERROR',
             'hotxlfp.formulas.information:ISERR', 'hotxlfp.formulas.information:ISNA', 'hotxlfp.formulas.information:ERROR_TYPE',
             'hotxlfp.formulas.utils:inumbers']
RULE = ('two case kinds, both compared with the Lean model (one c04.batch request per case carrying every form and the host '
        'environment shared with the implementation run: variables e_<tag> for the 9 codes, dates dt_a/dt_b/dt_c, blank, lists '
        'lst_a/b/c/n; cells C3 = #DIV/0!, D4 = #N/A, B2 = 7, any other cell empty; ranges A1:A3 = [[2],[3],[5]] and A5:A7 = [[#N/A],[#DIV/0!],[5]] (a column in which the host keeps error values beside a number); host functions RAISE_<TAG>(), '
        'PYRAISE(), ID()). Kind formula: 25 fixed formulas (operators, traps, nested traps, literals, raising host functions on '
        'errors). Kind tree: expression trees (all 11 binary operators, unary minus, ID() calls; skeleton depth 1..5 quick / '
        '1..7 thorough, number leaves = the 15 primes 2..47, rendered fully parenthesised) whose top is 56% a numeric '
        'expression (+ - *, / by a leaf, unary minus, ID(), comparison used as a number), 25% a comparison (a quarter of them '
        'between & concatenations), 15% a & concatenation, 4% a TEXT spelling one of the 9 error codes (30% lower-cased; one '
        'literal or a concatenation of two pieces cut at a random place, 30% through ID()): not an error. Each leaf is with '
        'probability 0.15 / 0.3 / 0.6 (drawn per tree) an error-producing sub-expression: 15% of them an error/array node (c), '
        'of the rest 55% a producer whose code is known by construction - one of 7 codes as a literal (not #ERROR!, '
        '#GETTING_DATA), one of 9 as an error-valued variable, produced by an operator (k/0, "a"+1), returned by a builtin '
        '(NA()), raised by a builtin (SUM(1/0)), handed through a host function (ID(1/0)), raised by a host function as an '
        'XLError (9 codes) or as an ordinary exception - and 45% one of 6 seeded families whose code is OBSERVED by evaluating '
        'the producer alone: (a) operator-produced errors through every path of the operator layer - date: 19 forms of date '
        'arithmetic whose result precedes 1900 (DATE()/date variable/date text with + - * / and a number, blank, empty cell or '
        'FALSE, both orders, i.e. the result conversion of the implicit-conversion table); text: one of 7 texts (the empty one '
        'included) that is neither number nor date under each of + - * / against number/text/numeric '
        'text/logical/blank/date/cell, both orders; div0: division of 11 kinds of numerator by 13 zero-like denominators (NULL, '
        'FALSE, "0", "0.0", 0, 0.0, blank variable, empty cell, k-k, 0*k, k=k+1, ID(0), SUM(0)); (b) builtin: 52 call templates '
        'returning or raising an error in the math, date, lookup, text, statistical, engineering, logic and information '
        'families (SQRT(-1), LN(0), DATE(10000,1,1), INDEX({..},9), MATCH(..), CHOOSE(9,1), ...), registered names only; '
        'nested: a date/text/div0/builtin producer inside one of 8 wrappers over SUM/ABS/MAX/ID/IF (the inner producer is '
        'probed alone too); cell: the error-valued cells in 6 spellings (relative, absolute, mixed, lower case). (c) ARRAY '
        'operands next to error operands: on one side of + - * / a tree of depth <= 2 every leaf of which is an error producer '
        '(any of the 11 operators, unary minus, ID()), on the other an error-free array-valued expression of depth <= 2 (array '
        'literal with , ; \\ separators, list-valued variable, range in 4 spellings; flat of length 1/2/3, nested 2x2, column; '
        'also + - * / of equal-shape arrays, one-element arrays and non-zero scalars) or another such node; both orders. Every '
        'tree is evaluated in 13 forms - bare, under IFERROR(x,777)/IFNA(x,555)/ISERROR/ISERR/ISNA/ERROR.TYPE, IFERROR(ID(x),777), '
        'ISERROR(-(x)), IFERROR((x)=1,777), and with fallbacks that are false-ish values: IFERROR(x,0), IFNA(x,FALSE), '
        'IFERROR(x,"") (on an error the answers must be the integer 0 - not FALSE, not 0.0 -, the logical FALSE for #N/A - for '
        'other codes IFNA(x,FALSE) is not judged - and the empty text; on an error-free value all five IFERROR / IFNA forms must '
        'hand the value back; when the bare value is a list and ISERROR, ISERR, ISNA all answer a logical without error, ISERROR must equal '
        'ISERR or ISNA, nothing else is demanded of the three on a list) - followed by each distinct family producer of the tree alone. Tree sources: 31 fixed trees (pre-1900 '
        'date arithmetic alone and to the right of another error, array next to error, error-free {1,2}+{3,4}; 7 arrays that HOLD '
        'error values and are judged as error-free arrays - {1,2}/0, {1,2}/{1,0}, {4,"a"}*2, {1,NA()}, A5:A7, A5:A7*2, lst_b/0: no '
        'trap may fire; 5 trees over an error value taken out of the host range, its code observed by evaluating the producer '
        'alone: INDEX(A5:A7,1,1), INDEX(A5:A7,2,1), INDEX(A5:A7,1,1)+1, INDEX(A5:A7,2,1)&INDEX(A5:A7,1,1), ID(INDEX(A5:A7,1,1)): '
        'every trap must see it); 18 fixed text '
        'trees (each code as a text literal and as a concatenation of two pieces); 700 quick / 8000 thorough random trees x '
        'scale (scale 5 in quick when a modelled function changed or the Lean build broke); 2 quick / 12 thorough rounds x '
        'scale of two sweeps. Sweep 1, 120 trees per round: each of date/text/div0/builtin 4 times, nested/cell twice: the '
        'producer alone, 3 times to the right of an error-VALUE producer, once to the left of a number or error-value producer '
        '(operators taken cyclically from a shuffled list of the 11, so the four larger families meet every operator in each '
        'round), once negated to the right of a number under a random operator. Sweep 2, 85 trees per round: every + - * / x 5 '
        'array shapes x both orders as a node (c) at the top and under a further random operator with a number or error-value '
        'producer on either side, plus one error-free array expression per shape (the traps must not fire). 1184 cases quick / '
        '10534 thorough at scale 1. Non-trivial = every fixed formula; a tree with at least one error leaf all of whose family '
        'producers report an error when evaluated alone. When a proof or the correspondence broke and no oracle failure was '
        'found, search() generates the whole family again at scale 8 (5600 / 64000 random trees, 16 / 96 rounds), judged by the '
        'oracle only, up to the first failure. A failing tree is shrunk to a sub-tree / simplification the same oracle still '
        'rejects (at most 300 candidates). No time or step budget is used.')
TRUSTED = ['the model has no opinion (result `(o ...)`) about some producers (unmodelled builtins, date text read by dateutil): '
           'a tree one of whose family producers gets no opinion is not compared with the model at all, a single form without '
           'opinion is skipped; these are judged by the oracle only',
           'the code of a family producer is the one the implementation reports when the producer is the whole formula (an '
           'error that reaches the top is reported under error); a producer that reports no error there is not an error leaf '
           'and the case is skipped',
           'the non-error parts of a tree are generated so that they cannot fail on their own (equal-shape arrays only, '
           'non-zero divisors, no unary minus / comparison / & directly on an array value)',
           'comparison with the model: error code and type of the value must match, floats within 4 ulps or 1e-9 relative, '
           'dates within 2 microseconds (+ 2^-49 relative); the oracle compares IFERROR/IFNA of an error-free value with the '
           'bare value up to 1e-12 relative for floats and otherwise by == and equal type; the expected trap results (777, 555, "", '
           'True/False of IS*, ERROR.TYPE number) are compared by == only, the fallback 0 by == and type int, the fallback FALSE '
           'by identity',
           'implementation and model receive the same host environment (env_values): the wire rendering of variables, cells and '
           'ranges and the model counterparts of the host functions (raisexl, raisepy, first) are trusted to describe the '
           'values, listeners and Python callables registered on the parser',
           'one Parser instance serves all cases of a run: an evaluation is taken not to depend on earlier ones (looked into by '
           'the fresh-process probe of the harness only when a disagreement with the model appears)']
ASSUMPTIONS = ['an expression "is an error" when Parser.parse reports exactly that code under error and an empty result; a '
               'record with both an error and a result is rejected for every form of every case (the only thing the oracle '
               'demands of the 25 fixed formulas)',
               'the leftmost error operand wins under all 11 binary operators (& and the comparisons included), whatever the '
               'other operand is; unary minus of an error and a host function handing an error through (ID) give that error',
               'an error LITERAL aborts the whole formula: it reports the code of the leftmost literal, whatever error value '
               'stands to its left and whatever trapping function encloses it (IFERROR / IFNA / IS* / ERROR.TYPE of it report '
               'that error too)',
               '#GETTING_DATA cannot be written as a literal (the lexer stops at the underscore); it is injected as a variable '
               'or raised by a host function, and so is #ERROR! (never generated as a literal)',
               'an ordinary Python exception raised inside a call counts as the error #ERROR!',
               'trapping an error value: IFERROR(x,y) = y for all 9 codes (also through ID(x) and (x)=1), whatever y is - a '
               'false-ish fallback (0, "", FALSE) is handed back as itself, same type; IFNA(x,y) = y for '
               '#N/A only and the error itself otherwise; ISERROR(x) and ISERROR(-(x)) TRUE; ISERR = the code is not #N/A; ISNA '
               '= the code is #N/A; ERROR.TYPE = 1..8 for #NULL! #DIV/0! #VALUE! #REF! #NAME? #NUM! #N/A #GETTING_DATA; '
               'ERROR.TYPE of #ERROR! is not judged',
               'an error-free scalar value: the bare formula reports no error, IFERROR/IFNA return the value unchanged, '
               'ISERROR/ISERR/ISNA are FALSE; ERROR.TYPE, IFERROR(ID(x)), ISERROR(-(x)) and IFERROR((x)=1) of it are not judged',
               'text that spells an error code (in either case, written out, concatenated or handed through ID) is text, not an '
               'error',
               'when an operand of + - * / is an error value the operation evaluates to that error also when the other operand '
               'is an array (not to an array of errors); an array that merely CONTAINS an error element is not an error operand '
               'and is not generated by gen or the sweeps; the 7 fixed trees that are such arrays (element-wise division by zero, '
               'text under *, NA() inside a literal, the host range A5:A7) count as error-free array values',
               'an error value the host keeps in a cell of a range it supplies (A5:A7) and a formula takes out with INDEX is '
               'that error: alone, as an operand of + and &, and handed through ID it is the error operand, with the code it '
               'reports when the INDEX call is the whole formula',
               'a call of a name that is not a registered function (#NAME? raised before any call happens) is not a function '
               'call in the sense of the statement: builtin producers are restricted to names registered in the tree under test',
               'for an error-free ARRAY value (an array holding error elements included) only "no error, and IFERROR/IFNA do '
               'not substitute" is demanded; of IS* of an array only the consistency ISERROR = ISERR or ISNA, when all three '
               'answer a logical; what each of them answers (FALSE, or TRUE for an error element) is not judged']

CODES = {'null': '#NULL!', 'div0': '#DIV/0!', 'value': '#VALUE!', 'ref': '#REF!', 'name': '#NAME?', 'num': '#NUM!',
         'na': '#N/A', 'data': '#GETTING_DATA', 'error': '#ERROR!'}
ERRTYPE = {'null': 1, 'div0': 2, 'value': 3, 'ref': 4, 'name': 5, 'num': 6, 'na': 7, 'data': 8}
LITERALS = ['null', 'div0', 'value', 'ref', 'name', 'num', 'na']
BINOPS = ['+', '-', '*', '/', '&', '=', '<>', '<', '>', '<=', '>=']

ARITH = ['+', '-', '*', '/']

_p = [None]


def env_values():
    """the variables, cells and ranges shared by the implementation run and the model request"""
    import datetime
    common.load_repo()
    from hotxlfp.formulas import error
    vs = {'e_' + tag: error.from_message(code) for tag, code in CODES.items()}
    vs.update({'dt_a': datetime.datetime(2020, 1, 1), 'dt_b': datetime.datetime(1900, 1, 5),
               'dt_c': datetime.datetime(1987, 6, 15), 'blank': None,
               'lst_a': [7], 'lst_b': [3, 5], 'lst_c': [2, 3, 5], 'lst_n': [[2, 3], [5, 7]]})
    # the listeners (and the model's host environment) are keyed by the label as it is handed over, `$` included
    dz, na = error.from_message('#DIV/0!'), error.from_message('#N/A')
    cells = {'C3': dz, '$C$3': dz, 'D4': na, 'D$4': na, '$D4': na, 'B2': 7}
    # A5:A7 is a column in which the host keeps error values (the results of its own earlier evaluations) beside a number
    ranges = {('A1', 'A3'): [[2], [3], [5]], ('$A$1', 'A3'): [[2], [3], [5]], ('A5', 'A7'): [[na], [dz], [5]]}
    return vs, cells, ranges


def parser():
    if _p[0] is None:
        common.load_repo()
        import hotxlfp
        from hotxlfp.formulas import error
        p = hotxlfp.Parser()
        vs, cells, ranges = env_values()
        for k, v in vs.items():
            p.set_variable(k, v)
        for tag, code in CODES.items():
            def mk(code=code):
                def f(*a):
                    raise error.from_message(code)
                return f
            p.set_function('RAISE_' + tag.upper(), mk())

        def pyraise(*a):
            raise ValueError('boom')
        p.set_function('PYRAISE', pyraise)
        p.set_function('ID', lambda x: x)
        p.on('callCellValue', lambda cell, setter: setter(cells.get(cell.label)))
        p.on('callRangeValue', lambda s, e, setter: setter(ranges.get((s.label, e.label))))
        _p[0] = p
    return _p[0]


_env = [None]


def model_env():
    if _env[0] is None:
        vs, cells, ranges = env_values()
        fns = {'RAISE_' + tag.upper(): '(raisexl %s)' % tag for tag in CODES}
        fns['PYRAISE'] = '(raisepy %s)' % enc_str('boom')
        fns['ID'] = '(first)'
        _env[0] = fx.env_wire(variables=vs, fns=fns, cells=cells, ranges=ranges)
    return _env[0]


# --------------------------------------------------------------------------- error producers

def classic_producer(rng):
    """-> ('err', tag, text, is_literal): the producers whose code is known by construction"""
    r = rng.random()
    if r < 0.25:
        tag = rng.choice(LITERALS)
        return ('err', tag, CODES[tag], True)
    if r < 0.50:
        tag = rng.choice(list(CODES))
        return ('err', tag, 'e_' + tag, False)
    if r < 0.60:
        return ('err', 'div0', '(%d/0)' % rng.randrange(1, 9), False)
    if r < 0.66:
        return ('err', 'value', '("a"+1)', False)
    if r < 0.72:
        return ('err', 'na', 'NA()', False)
    if r < 0.80:
        return ('err', 'div0', 'SUM(1/0)', False)
    if r < 0.92:
        tag = rng.choice(list(CODES))
        return ('err', tag, 'RAISE_%s()' % tag.upper(), False)
    if r < 0.96:
        return ('err', 'error', 'PYRAISE()', False)
    return ('err', 'div0', 'ID(1/0)', False)


def _prime(rng):
    return rng.choice(c04.PRIMES)


def _date_call(rng):
    return 'DATE(%d,%d,%d)' % (rng.randrange(1950, 2031), rng.randrange(1, 13), rng.randrange(1, 29))


def _date_text(rng):
    return '"%d-%02d-%02d"' % (rng.randrange(1950, 2031), rng.randrange(1, 13), rng.randrange(1, 29))


def fam_date(rng):
    """date arithmetic whose result precedes 1900: the 'result' conversion (parse_date) of the operator table
    turns the negative serial into an error.  Serials of 1950..2030 lie between 18264 and 47848."""
    k = rng.randrange(1, 9)
    big = rng.randrange(50000, 100000)
    e = rng.randrange(1, 28)
    dvar = rng.choice(['dt_a', 'dt_b', 'dt_c'])
    forms = [
        lambda: 'DATE(1900,1,%d)-%d' % (e, e + rng.randrange(3, 60)),
        lambda: 'DATE(1900,1,%d)+(-%d)' % (e, e + rng.randrange(3, 60)),
        lambda: '%d-%s' % (rng.randrange(0, 1000), _date_call(rng)),
        lambda: '%s-%d' % (dvar, big),
        lambda: '%s-%d' % (_date_call(rng), big),
        lambda: '(-%d)+%s' % (big, dvar),
        lambda: '%s+(-%d)' % (_date_call(rng), big),
        lambda: '%s*(-%d)' % (_date_call(rng), k),
        lambda: '(-%d)*%s' % (k, dvar),
        lambda: '(-%d)/%s' % (k, _date_call(rng)),
        lambda: '%s/(-%d)' % (dvar, k),
        lambda: 'NULL-%s' % _date_call(rng),
        lambda: 'blank-%s' % dvar,
        lambda: 'Z9-%s' % dvar,
        lambda: '%s-%d' % (_date_text(rng), big),
        lambda: '%s*(-%d)' % (_date_text(rng), k),
        lambda: '%d-%s' % (k, _date_text(rng)),
        lambda: '(%d-%d)-%s' % (k, k, dvar),
        lambda: 'FALSE-%s' % dvar,
    ]
    return rng.choice(forms)()


TEXTS = ['abc', 'x y', 'hello', 'qq', 'zz top', '', 'no?']


def fam_text(rng):
    """text that is neither a number nor a date under + - * /"""
    t = '"%s"' % rng.choice(TEXTS)
    other = rng.choice([str(_prime(rng)), '"%s"' % rng.choice(TEXTS), 'TRUE', 'FALSE', 'NULL', 'blank', 'dt_a',
                        _date_call(rng), '"12"', 'B2', 'Z9', '2.5', '(%d*%d)' % (_prime(rng), _prime(rng))])
    op = rng.choice(ARITH)
    return t + op + other if rng.random() < 0.5 else other + op + t


def fam_div0(rng):
    """division by something that counts as zero"""
    num = rng.choice([str(_prime(rng)), 'NULL', 'TRUE', '"3"', 'dt_a', _date_call(rng), 'B2', 'blank', '2.5', '0',
                      '(%d+%d)' % (_prime(rng), _prime(rng))])
    k = _prime(rng)
    den = rng.choice(['NULL', 'FALSE', '"0"', 'blank', 'Z9', '0', '0.0', '"0.0"', '(%d-%d)' % (k, k), '(0*%d)' % k,
                      '(%d=%d)' % (k, k + 1), 'ID(0)', 'SUM(0)'])
    return num + '/' + den


# builtin calls that return or raise an error (function name, argument text)
BUILTINS = [
    ('SQRT', '-%(k)d'), ('LN', '0'), ('LN', '-%(k)d'), ('LOG', '0'), ('LOG10', '-%(k)d'), ('ACOS', '%(p)d'), ('ASIN', '%(p)d'),
    ('POWER', '-%(k)d,0.5'), ('POWER', '0,-%(k)d'), ('EXP', '1000'), ('ATANH', '1'), ('ACOSH', '0'), ('MOD', '%(k)d,0'),
    ('QUOTIENT', '%(k)d,0'), ('FACT', '-%(k)d'), ('INT', '"abc"'), ('ABS', '"abc"'), ('ABS', ''), ('ROUND', '%(k)d'),
    ('DATE', '10000,1,%(k)d'), ('DATE', '"a",1,1'), ('YEAR', '-%(k)d'), ('DATEVALUE', '"abc"'), ('EDATE', '"abc",1'),
    ('WEEKDAY', '"abc"'),
    ('INDEX', '{%(k)d,%(p)d},%(big)d'), ('MATCH', '%(big)d,{%(k)d,%(p)d},0'), ('CHOOSE', '9,%(k)d'), ('CHOOSE', '0,%(k)d,%(p)d'),
    ('LEFT', '"abc",-%(k)d'), ('MID', '"abc",0,%(k)d'), ('CODE', '""'), ('SUBSTITUTE', '"a","a","b",0'), ('TEXT', '%(k)d'),
    ('ROMAN', '-%(k)d'), ('HEX2DEC', '"zz"'), ('IMREAL', '""'),
    ('AVERAGE', '"a"'), ('AVERAGE', ''), ('STDEV', '%(k)d'), ('VAR', '%(k)d'), ('MEDIAN', ''), ('LARGE', '{%(k)d,%(p)d},5'),
    ('GEOMEAN', '-%(k)d'), ('MAX', '%(k)d,1/0'), ('SUM', '%(k)d,e_num'), ('SUM', '"a"+1'),
    ('IF', ''), ('SWITCH', '1,2,3'), ('IFS', 'FALSE,%(k)d'), ('ERROR.TYPE', '%(k)d'), ('NA', ''),
]
_reg = {}


def registered(name):
    if name not in _reg:
        common.load_repo()
        from hotxlfp import formulas
        _reg[name] = formulas.get_for(name) is not None
    return _reg[name]


def fam_builtin(rng):
    for _ in range(20):
        name, args = rng.choice(BUILTINS)
        if registered(name):
            return '%s(%s)' % (name, args % {'k': rng.randrange(1, 9), 'p': rng.randrange(2, 9), 'big': rng.randrange(50, 99)})
    return 'SUM(1/0)'


NESTS = ['SUM(%s)', 'ABS(%s)', 'MAX(1,%s)', 'ID(%s)', 'SUM(1,ABS(%s))', 'IF(TRUE,%s,1)', 'ID(ID(%s))', 'SUM({1,2},%s)']


def fam_nested(rng):
    inner = rng.choice([fam_date, fam_text, fam_div0, fam_builtin])(rng)
    return rng.choice(NESTS) % inner, inner


def fam_cell(rng):
    return rng.choice(['C3', 'D4', '$C$3', 'D$4', '$D4', 'c3'])


FAMILIES = [('date', fam_date), ('text', fam_text), ('div0', fam_div0), ('builtin', fam_builtin), ('nested', fam_nested),
            ('cell', fam_cell)]


def family_producer(rng, fam=None):
    """-> ('err', 'dyn', text, False): an error VALUE whose code is observed by evaluating `text` alone"""
    f = dict(FAMILIES)[fam] if fam else rng.choice(FAMILIES)[1]
    text = f(rng)
    if isinstance(text, tuple):
        # a nested producer also names its inner producer (probed too: when the model has no opinion about the
        # inner one, the case is not compared with the model)
        return ('err', 'dyn', text[0], False, text[1])
    return ('err', 'dyn', text, False)


def producer(rng):
    if rng.random() < 0.55:
        return classic_producer(rng)
    return family_producer(rng)


def value_producer(rng):
    """a producer of an error VALUE (no literal, which would abort the formula)"""
    while True:
        t = producer(rng)
        if not t[3]:
            return t


# --------------------------------------------------------------------------- array operands

SHAPES = ['one', 'two', 'three', 'sq', 'col']


def arr_leaf(rng, shape):
    """an array-valued leaf with non-zero numeric elements"""
    ps = [str(x) for x in rng.sample(c04.PRIMES, 4)]
    if shape == 'one':
        text = rng.choice(['{%s}' % ps[0], 'lst_a'])
    elif shape == 'two':
        text = rng.choice(['{%s,%s}', '{%s;%s}', '{%s\\%s}']) % (ps[0], ps[1]) if rng.random() < 0.7 else 'lst_b'
    elif shape == 'three':
        text = rng.choice(['{%s,%s,%s}', '{%s;%s;%s}', '{%s\\%s\\%s}']) % (ps[0], ps[1], ps[2]) if rng.random() < 0.7 else 'lst_c'
    elif shape == 'sq':
        text = '{%s,%s;%s,%s}' % tuple(ps) if rng.random() < 0.6 else 'lst_n'
    else:
        text = rng.choice(['A1:A3', '$A$1:A3', 'A3:A1', 'a1:a3'])
    return ('arr', text, shape)


def num_leaf(rng):
    return ('num', 'int', str(_prime(rng)), '')


def gen_arrval(rng, depth, shape):
    """array-valued, error-free expression that cannot fail on its own: equal shapes (or a scalar / a
    one-element array on one side), divisors are non-zero literals / leaves"""
    if depth <= 0 or rng.random() < 0.4:
        return arr_leaf(rng, shape)
    op = rng.choice(ARITH)
    left = gen_arrval(rng, depth - 1, shape)
    if op == '/':
        right = arr_leaf(rng, rng.choice([shape, 'one'])) if rng.random() < 0.5 else num_leaf(rng)
        return ('bin', op, left, right)
    r = rng.random()
    if r < 0.35:
        other = gen_arrval(rng, depth - 1, shape)
    elif r < 0.5:
        other = arr_leaf(rng, 'one')
    elif r < 0.85:
        other = num_leaf(rng)
    else:
        other = ('bin', rng.choice(['+', '*']), num_leaf(rng), num_leaf(rng))
    return ('bin', op, left, other) if rng.random() < 0.5 else ('bin', op, other, left)


def gen_e(rng, depth):
    """an expression every leaf of which is an error producer: it evaluates to an error whatever the operators"""
    if depth <= 0 or rng.random() < 0.5:
        return producer(rng) if rng.random() < 0.15 else value_producer(rng)
    r = rng.random()
    if r < 0.2:
        return ('neg', gen_e(rng, depth - 1))
    if r < 0.3:
        return ('call', 'ID', 'flat', [gen_e(rng, depth - 1)], [])
    op = rng.choice(BINOPS)
    if r < 0.5:
        return ('bin', op, gen_e(rng, depth - 1), num_leaf(rng))
    if r < 0.7:
        return ('bin', op, num_leaf(rng), gen_e(rng, depth - 1))
    return ('bin', op, gen_e(rng, depth - 1), gen_e(rng, depth - 1))


def gen_ae(rng, depth, op=None, shape=None, err_left=None):
    """an error operand and an array operand on the two sides of + - * /: by the statement the operation
    evaluates to that error, so the node can stand wherever an error leaf can"""
    op = op or rng.choice(ARITH)
    shape = shape or rng.choice(SHAPES)
    e = gen_e(rng, min(depth, 2))
    if depth > 0 and rng.random() < 0.25:
        a = gen_ae(rng, depth - 1)
    else:
        a = gen_arrval(rng, min(depth, 2), shape)
    if err_left is None:
        err_left = rng.random() < 0.5
    return ('bin', op, e, a) if err_left else ('bin', op, a, e)


def leaf(rng, perr):
    if rng.random() < perr:
        if rng.random() < 0.15:
            return gen_ae(rng, rng.randrange(0, 3))
        return producer(rng)
    return num_leaf(rng)


def gen_n(rng, depth, perr):
    """numeric-valued (or error) expression that cannot fail on its own: + - *, division by a
    non-zero literal, unary minus, ID(), parenthesised comparison used as a number"""
    if depth <= 0 or rng.random() < 0.2:
        return leaf(rng, perr)
    r = rng.random()
    if r < 0.12:
        return ('neg', gen_n(rng, depth - 1, perr))
    if r < 0.2:
        return ('call', 'ID', 'flat', [gen_n(rng, depth - 1, perr)], [])
    if r < 0.3:
        return gen_c(rng, depth - 1, perr)
    if r < 0.42:
        return ('bin', '/', gen_n(rng, depth - 1, perr), leaf(rng, perr))
    return ('bin', rng.choice(['+', '-', '*']), gen_n(rng, depth - 1, perr), gen_n(rng, depth - 1, perr))


def gen_c(rng, depth, perr):
    op = rng.choice(['=', '<>', '<', '>', '<=', '>='])
    if rng.random() < 0.25:
        return ('bin', op, gen_a(rng, depth - 1, perr), gen_a(rng, depth - 1, perr))
    return ('bin', op, gen_n(rng, depth, perr), gen_n(rng, depth, perr))


def gen_a(rng, depth, perr):
    return ('bin', '&', gen_n(rng, depth, perr), gen_n(rng, depth, perr))


def gen_codetext(rng):
    """a TEXT value that spells an error code (a literal, a concatenation, through ID): text is not an error, whatever it says"""
    code = rng.choice(sorted(CODES.values()))
    if rng.random() < 0.3:
        code = code.lower()
    r = rng.random()
    if r < 0.4:
        t = ('num', 'txt', '"%s"' % code, '')
    else:
        k = rng.randrange(1, len(code))
        t = ('bin', '&', ('num', 'txt', '"%s"' % code[:k], ''), ('num', 'txt', '"%s"' % code[k:], ''))
    if rng.random() < 0.3:
        t = ('call', 'ID', 'flat', [t], [])
    return t


def gen(rng, depth, perr):
    r = rng.random()
    if r < 0.04:
        return gen_codetext(rng)
    if r < 0.6:
        return gen_n(rng, depth, perr)
    if r < 0.85:
        return gen_c(rng, depth - 1, perr)
    return gen_a(rng, depth - 1, perr)


def render(t):
    k = t[0]
    if k in ('err', 'num'):
        return t[2]
    if k == 'arr':
        return t[1]
    if k == 'neg':
        return '-(' + render(t[1]) + ')'
    if k == 'call':
        return 'ID(' + render(t[3][0]) + ')'
    return '(' + render(t[2]) + ')' + t[1] + '(' + render(t[3]) + ')'


def dyn_texts(t, acc=None):
    """the family producers of a tree, in order of first occurrence"""
    acc = [] if acc is None else acc
    k = t[0]
    if k == 'err':
        if t[1] == 'dyn':
            for x in t[2:3] + t[4:5]:
                if x not in acc:
                    acc.append(x)
    elif k == 'neg':
        dyn_texts(t[1], acc)
    elif k == 'call':
        dyn_texts(t[3][0], acc)
    elif k == 'bin':
        dyn_texts(t[2], acc)
        dyn_texts(t[3], acc)
    return acc


class Abort(Exception):
    def __init__(self, tag):
        self.tag = tag


class NotAProducer(Exception):
    pass


def expected(t, tags=None):
    """-> ('err', tag) | ('ok',) following the statement: the leftmost error operand wins,
    an error literal aborts the whole formula.  `tags`: observed code of each family producer"""
    k = t[0]
    if k == 'err':
        if t[3]:
            raise Abort(t[1])
        if t[1] == 'dyn':
            tag = (tags or {}).get(t[2])
            if tag is None:
                raise NotAProducer(t[2])
            return ('err', tag)
        return ('err', t[1])
    if k in ('num', 'arr'):
        return ('ok',)
    if k in ('neg', 'call'):
        return expected(t[1] if k == 'neg' else t[3][0], tags)
    a = expected(t[2], tags)
    b = expected(t[3], tags)
    if a[0] == 'err':
        return a
    if b[0] == 'err':
        return b
    return ('ok',)


def has_err(t):
    k = t[0]
    if k == 'err':
        return True
    if k in ('num', 'arr'):
        return False
    if k == 'neg':
        return has_err(t[1])
    if k == 'call':
        return has_err(t[3][0])
    return has_err(t[2]) or has_err(t[3])


WRAPS = ['%s', 'IFERROR(%s,777)', 'IFNA(%s,555)', 'ISERROR(%s)', 'ISERR(%s)', 'ISNA(%s)', 'ERROR.TYPE(%s)',
         'IFERROR(ID(%s),777)', 'ISERROR(-(%s))', 'IFERROR((%s)=1,777)',
         # fallbacks that are false-ish values: y is y, whatever it is
         'IFERROR(%s,0)', 'IFNA(%s,FALSE)', 'IFERROR(%s,"")']


def _dyn(text):
    return ('err', 'dyn', text, False)


def _arr(text, shape):
    return ('arr', text, shape)


_NA = ('err', 'na', 'NA()', False)
_DZ = ('err', 'div0', '(1/0)', False)
_N1 = ('num', 'int', '1', '')
# minimal witnesses of changes the check once missed (judged by the same oracle as the generated trees)
FIXED_TREES = [
    _dyn('DATE(1900,1,5)-10'), _dyn('1-DATE(2020,1,1)'), _dyn('dt_a-100000'),
    ('bin', '+', _NA, _dyn('DATE(1900,1,5)-10')), ('bin', '&', _DZ, _dyn('DATE(1900,1,5)-10')),
    ('bin', '=', _NA, _dyn('1-DATE(2020,1,1)')), ('bin', '*', _NA, _dyn('DATE(1900,1,5)-10')),
    ('call', 'ID', 'flat', [_dyn('SUM(1,DATE(1900,1,5)-10)')], []),
    ('bin', '+', _arr('{1,2}', 'two'), _NA), ('bin', '*', _NA, _arr('{1,2}', 'two')),
    ('bin', '-', _arr('{1;2;3}', 'three'), _DZ), ('bin', '/', ('err', 'value', '("a"+1)', False), _arr('{1,2}', 'two')),
    ('bin', '+', _arr('{5}', 'one'), _NA), ('bin', '+', _DZ, _arr('{1,2}', 'two')),
    ('bin', '+', ('bin', '+', _arr('{1,2}', 'two'), _NA), _DZ), ('bin', '&', ('bin', '+', _arr('{1,2}', 'two'), _NA), _N1),
    ('bin', '-', _arr('lst_n', 'sq'), ('err', 'data', 'e_data', False)), ('bin', '*', _arr('A1:A3', 'col'), _dyn('C3')),
    ('bin', '+', _arr('{1,2}', 'two'), _arr('{3,4}', 'two')),
    # arrays that HOLD error values are arrays, not errors: no trap fires, ISERROR = ISERR or ISNA (= FALSE)
    _arr('{1,2}/0', 'two'), _arr('{1,2}/{1,0}', 'two'), _arr('{4,"a"}*2', 'two'), _arr('{1,NA()}', 'two'), _arr('A5:A7', 'col'),
    _arr('A5:A7*2', 'col'), _arr('lst_b/0', 'two'),
    # an error value taken out of a range the host supplied is the error it was in the host's cell: every trap sees it
    _dyn('INDEX(A5:A7,1,1)'), _dyn('INDEX(A5:A7,2,1)'), ('bin', '+', _dyn('INDEX(A5:A7,1,1)'), _N1),
    ('bin', '&', _dyn('INDEX(A5:A7,2,1)'), _dyn('INDEX(A5:A7,1,1)')), ('call', 'ID', 'flat', [_dyn('INDEX(A5:A7,1,1)')], []),
]


def cases(rng, ctx):
    thorough = ctx['tier'] == 'thorough'
    scale = ctx['scale']
    n = (8000 if thorough else 700) * scale
    maxd = 7 if thorough else 5
    out = []
    for f in ['(1/0)=1', '(1/0)&"a"', '-(1/0)', 'IFERROR(SUM(1/0),0)', 'IFERROR(SQRT(-1),0)', '#N/A', '1+#REF!', 'ISNA(#N/A)',
              'IFERROR(#N/A,1)', '(1/0)+e_na', 'e_na+(1/0)', 'e_data&"x"', 'ISERROR(e_data)', 'ERROR.TYPE(e_error)',
              'IFERROR(RAISE_NUM(),1)', 'IFERROR(PYRAISE(),1)', 'ISERR(PYRAISE())', 'IFNA(RAISE_NA(),3)', '1<e_null', 'e_ref>=e_num',
              'IFERROR(1/0,2/0)', 'IFERROR(IFERROR(1/0,e_na),5)', 'ISERROR(ISERROR(1/0))', 'SUM(1,e_num)', 'IFERROR(SUM(1,e_num),9)']:
        out.append({'kind': 'formula', 'f': f})
    for t in FIXED_TREES:
        out.append({'kind': 'tree', 't': t})
    # text that spells an error code is text: every code, written out and concatenated
    for code in sorted(CODES.values()):
        out.append({'kind': 'tree', 't': ('num', 'txt', '"%s"' % code, '')})
        out.append({'kind': 'tree', 't': ('bin', '&', ('num', 'txt', '"%s"' % code[:2], ''), ('num', 'txt', '"%s"' % code[2:], ''))})
    for _ in range(n):
        t = gen(rng, rng.randrange(1, maxd + 1), rng.choice([0.15, 0.3, 0.6]))
        out.append({'kind': 'tree', 't': t})
    # sweep 1: every producer family on its own, to the RIGHT (and left) of another error operand under every
    # operator, and under a further operator
    rounds = (12 if thorough else 2) * scale
    for _ in range(rounds):
        ops = BINOPS[:]
        rng.shuffle(ops)
        i = 0
        for fam, _f in FAMILIES:
            reps = 4 if fam in ('date', 'text', 'div0', 'builtin') else 2
            for _r in range(reps):
                p = family_producer(rng, fam)
                out.append({'kind': 'tree', 't': p})
                for _k in range(3):
                    op = ops[i % len(ops)]
                    i += 1
                    q = family_producer(rng, fam)
                    out.append({'kind': 'tree', 't': ('bin', op, value_producer(rng), q)})
                op = ops[i % len(ops)]
                i += 1
                out.append({'kind': 'tree', 't': ('bin', op, family_producer(rng, fam), rng.choice([num_leaf(rng), value_producer(rng)]))})
                out.append({'kind': 'tree', 't': ('bin', rng.choice(BINOPS), num_leaf(rng), ('neg', family_producer(rng, fam)))})
    # sweep 2: error operand x array operand: every arithmetic operator x shape x order at the top, and under a
    # further operator with another error / a number on the other side
    for _ in range(rounds):
        for op in ARITH:
            for shape in SHAPES:
                for err_left in (True, False):
                    out.append({'kind': 'tree', 't': gen_ae(rng, rng.randrange(0, 3), op, shape, err_left)})
                    ae = gen_ae(rng, rng.randrange(0, 2), op, shape, err_left)
                    other = rng.choice([num_leaf(rng), value_producer(rng)])
                    op2 = rng.choice(BINOPS)
                    out.append({'kind': 'tree', 't': ('bin', op2, ae, other) if rng.random() < 0.5 else ('bin', op2, other, ae)})
        # error-free array values: the traps must not fire
        for shape in SHAPES:
            out.append({'kind': 'tree', 't': gen_arrval(rng, 2, shape)})
    return out


def forms(c):
    if c['kind'] == 'formula':
        return [c['f']]
    t = c04._fix(c['t'])
    body = render(t)
    return [w % body for w in WRAPS] + dyn_texts(t)


def request(c):
    return 'c04.batch ' + ' '.join(enc_str(f) for f in forms(c)) + ' ' + model_env()


def impl(c):
    p = parser()
    return [(f, p.parse(f)) for f in forms(c)]


def agree(c, impl_ans, model_ans):
    m = fx.parse_sexp(model_ans)
    if len(m) != len(impl_ans):
        return False
    if c['kind'] == 'tree':
        for mm in m[len(WRAPS):]:
            mres = mm[1][1] if isinstance(mm[1], list) and len(mm[1]) == 3 else None
            if isinstance(mres, list) and mres and mres[0] == 'o':
                # the model has no opinion about a producer of this tree (unmodelled builtin, dateutil text): it
                # carries the opaque value through the operators as a non-error, so it cannot express the case
                return True
    for (f, rec), mm in zip(impl_ans, m):
        if fx.record_matches(mm[1], rec, rel=1e-9) is False:
            return False
    return True


def is_err_rec(rec, tag):
    return rec['result'] is None and rec['error'] == CODES[tag]


def observed_tags(impl_ans):
    """family producer text -> tag of the error it reports when it is the whole formula (None: no error)"""
    tags = {}
    for f, rec in impl_ans[len(WRAPS):]:
        tags[f] = fx.ERR_TAGS.get(rec['error']) if rec['result'] is None else None
    return tags


def oracle(c, impl_ans):
    if c['kind'] != 'tree':
        # the regression corpus: only the shape of the record is judged here
        for f, rec in impl_ans:
            if rec['error'] is not None and rec['result'] is not None:
                return '%r: error set but result not empty: %r' % (f, rec)
        return None
    t = c04._fix(c['t'])
    for f, rec in impl_ans:
        if rec['error'] is not None and rec['result'] is not None:
            return '%r: error set but result not empty: %r' % (f, rec)
    try:
        exp = expected(t, observed_tags(impl_ans))
        aborted = False
    except Abort as a:
        exp = ('err', a.tag)
        aborted = True
    except NotAProducer:
        return None     # a family producer that reports no error on its own is not an error leaf
    recs = dict((w, r) for w, (f, r) in zip(WRAPS, impl_ans))
    fs = dict((w, f) for w, (f, r) in zip(WRAPS, impl_ans))

    def bad(w, why):
        return '%r gives %r; %s' % (fs[w], recs[w], why)
    bare = recs['%s']
    if exp[0] == 'err':
        tag = exp[1]
        if not is_err_rec(bare, tag):
            return bad('%s', 'the leftmost error operand / the error literal is %s' % CODES[tag])
        if aborted:
            # a literal aborts the whole formula, trapping functions included
            for w in WRAPS[1:]:
                if not is_err_rec(recs[w], tag):
                    return bad(w, 'an error literal makes the whole formula report %s' % CODES[tag])
            return None
        for w in ('IFERROR(%s,777)', 'IFERROR(ID(%s),777)', 'IFERROR((%s)=1,777)'):
            if recs[w] != {'result': 777, 'error': None}:
                return bad(w, 'IFERROR(x,y) = y when x is an error (%s)' % CODES[tag])
        r0 = recs['IFERROR(%s,0)']
        if r0['error'] is not None or type(r0['result']) is not int or r0['result'] != 0:
            return bad('IFERROR(%s,0)', 'IFERROR(x,y) = y when x is an error: here y is the number 0')
        if recs['IFERROR(%s,"")'] != {'result': '', 'error': None}:
            return bad('IFERROR(%s,"")', 'IFERROR(x,y) = y when x is an error: here y is the empty text')
        if tag == 'na':
            if recs['IFNA(%s,FALSE)']['error'] is not None or recs['IFNA(%s,FALSE)']['result'] is not False:
                return bad('IFNA(%s,FALSE)', 'IFNA traps #N/A: here the fallback is FALSE')
            if recs['IFNA(%s,555)'] != {'result': 555, 'error': None}:
                return bad('IFNA(%s,555)', 'IFNA traps #N/A')
        elif not is_err_rec(recs['IFNA(%s,555)'], tag):
            return bad('IFNA(%s,555)', 'IFNA passes other errors through (%s)' % CODES[tag])
        for w in ('ISERROR(%s)', 'ISERROR(-(%s))'):
            if recs[w] != {'result': True, 'error': None}:
                return bad(w, 'ISERROR sees the error (%s)' % CODES[tag])
        if recs['ISERR(%s)'] != {'result': tag != 'na', 'error': None}:
            return bad('ISERR(%s)', 'ISERR = error other than #N/A (here %s)' % CODES[tag])
        if recs['ISNA(%s)'] != {'result': tag == 'na', 'error': None}:
            return bad('ISNA(%s)', 'ISNA = #N/A only (here %s)' % CODES[tag])
        if tag in ERRTYPE:
            if recs['ERROR.TYPE(%s)'] != {'result': ERRTYPE[tag], 'error': None}:
                return bad('ERROR.TYPE(%s)', 'ERROR.TYPE of %s is %d' % (CODES[tag], ERRTYPE[tag]))
        return None
    # no error anywhere
    if bare['error'] is not None:
        return bad('%s', 'no operand is an error')
    for w in ('IFERROR(%s,777)', 'IFNA(%s,555)', 'IFERROR(%s,0)', 'IFNA(%s,FALSE)', 'IFERROR(%s,"")'):
        if recs[w]['error'] is not None or not same(recs[w]['result'], bare['result']):
            return bad(w, 'x is not an error, so the result is x = %r' % (bare['result'],))
    if isinstance(bare['result'], list):
        # an array (whatever it holds) is no error: the three predicates answer alike - ISERROR = ISERR or ISNA
        e, r, n = recs['ISERROR(%s)'], recs['ISERR(%s)'], recs['ISNA(%s)']
        if all(x['error'] is None and isinstance(x['result'], bool) for x in (e, r, n)) and e['result'] != (r['result'] or n['result']):
            return bad('ISERROR(%s)', 'ISERROR = ISERR or ISNA, and on this array ISERR gives %r, ISNA gives %r' % (r['result'], n['result']))
        return None
    for w in ('ISERROR(%s)', 'ISERR(%s)', 'ISNA(%s)'):
        if recs[w] != {'result': False, 'error': None}:
            return bad(w, 'x is not an error')
    return None


def same(a, b):
    if isinstance(a, list) or isinstance(b, list):
        return isinstance(a, list) and isinstance(b, list) and len(a) == len(b) and all(same(x, y) for x, y in zip(a, b))
    if isinstance(a, float) or isinstance(b, float):
        try:
            return abs(a - b) <= 1e-12 * max(1.0, abs(a))
        except TypeError:
            return False
    return a == b and type(a) == type(b)


def nontrivial(c, impl_ans):
    if c['kind'] == 'formula':
        return True
    t = c04._fix(c['t'])
    if not has_err(t):
        return False
    tags = observed_tags(impl_ans)
    return all(tags.get(x) is not None for x in dyn_texts(t))


def _children(t):
    k = t[0]
    if k == 'neg':
        return [t[1]]
    if k == 'call':
        return [t[3][0]]
    if k == 'bin':
        return [t[2], t[3]]
    return []


def valid(t):
    """'err' | 'arr' | 'num' (what the tree evaluates to by the statement: an error, an error-free array, an
    error-free scalar), or None when the tree breaks the generator's invariants (an error-free array under
    anything but + - * /)"""
    k = t[0]
    if k == 'err':
        return 'err'
    if k in ('num', 'arr'):
        return k
    if k in ('neg', 'call'):
        v = valid(_children(t)[0])
        return None if v in (None, 'arr') else v
    a, b = valid(t[2]), valid(t[3])
    if a is None or b is None:
        return None
    if t[1] not in ARITH and 'arr' in (a, b):
        return None
    if 'err' in (a, b):
        return 'err'
    return 'arr' if 'arr' in (a, b) else 'num'


def shrink(c, msg):
    """smallest sub-tree / simplification (inside the generated class) that the oracle still rejects"""
    if c['kind'] != 'tree':
        return c, msg
    t = c04._fix(c['t'])
    budget = 300
    progress = True
    while progress and budget > 0:
        progress = False
        cands = list(_children(t))
        if t[0] == 'bin':
            for i in (2, 3):
                # keep the operator: replace one side by one of its children / by a plain number
                for ch in _children(t[i]) + ([_N1] if t[i][0] != 'num' else []):
                    cands.append(tuple(list(t[:i]) + [ch] + list(t[i + 1:])))
        elif t[0] in ('neg', 'call'):
            for ch in _children(_children(t)[0]):
                cands.append(('neg', ch) if t[0] == 'neg' else ('call', 'ID', 'flat', [ch], []))
        for cand in cands:
            budget -= 1
            if cand[0] == 'num' or valid(cand) not in ('err', 'num'):
                continue
            cc = {'kind': 'tree', 't': cand}
            try:
                m = oracle(cc, impl(cc))
            except Exception:
                m = None
            if m:
                t, msg, progress = cand, m, True
                break
    return {'kind': 'tree', 't': t}, msg


def search(rng, ctx, disagreements):
    c2 = dict(ctx)
    c2['scale'] = 8
    return cases(rng, c2)
