# -*- coding: utf-8 -*-
"""C08 - error values propagate through operators and can be trapped"""
import random as _random
from fractions import Fraction

from .. import common, fx
from ..common import enc_str
from . import c04

ID = 'C08'
LEAN_MODULES = ['HotXL.Props.C08']
FUNCTIONS = ['hotxlfp.formulas.operators:evaluate_arithmetic', 'hotxlfp.formulas.operators:evaluate_logic',
             'hotxlfp.grammarparser.parser:FormulaParser.p_expression_arithmetic_operator',
             'hotxlfp.grammarparser.parser:FormulaParser.p_expression_uminus', 'hotxlfp.grammarparser.parser:FormulaParser.p_xlerror',
             'hotxlfp.parser:Parser.parse', 'hotxlfp.parser:Parser.call_function', 'hotxlfp.parser:Parser._throw_error',
             'hotxlfp.formulas.error:from_message',
             'hotxlfp.formulas.logic:IFERROR', 'hotxlfp.formulas.logic:IFNA', 'hotxlfp.formulas.information:ISERROR',
             'hotxlfp.formulas.information:ISERR', 'hotxlfp.formulas.information:ISNA', 'hotxlfp.formulas.information:ERROR_TYPE',
             'hotxlfp.formulas.utils:inumbers']
RULE = ('expression trees (all 11 binary operators, unary minus, calls; depth <= 5 quick / 7 thorough) in which a seeded subset '
        'of leaves is an error-producing sub-expression: each code as a literal, as an error-valued variable, produced by an '
        'operator (1/0, "a"+1), returned by a builtin (NA()), raised by a builtin (SUM(1/0)), raised by a host function as '
        'an XLError or as an ordinary exception; evaluated bare and under IFERROR/IFNA/ISERROR/ISERR/ISNA/ERROR.TYPE. '
        'Non-trivial = at least one error leaf and one operator above it.')
TRUSTED = ['builtins outside the modelled families are compared by the oracle only']
ASSUMPTIONS = ['#GETTING_DATA cannot be written as a literal (the lexer stops at the underscore); it is injected as a variable',
               'an ordinary Python exception raised inside a call counts as the error #ERROR!']

CODES = {'null': '#NULL!', 'div0': '#DIV/0!', 'value': '#VALUE!', 'ref': '#REF!', 'name': '#NAME?', 'num': '#NUM!',
         'na': '#N/A', 'data': '#GETTING_DATA', 'error': '#ERROR!'}
ERRTYPE = {'null': 1, 'div0': 2, 'value': 3, 'ref': 4, 'name': 5, 'num': 6, 'na': 7, 'data': 8}
LITERALS = ['null', 'div0', 'value', 'ref', 'name', 'num', 'na']
BINOPS = ['+', '-', '*', '/', '&', '=', '<>', '<', '>', '<=', '>=']

_p = [None]


def parser():
    if _p[0] is None:
        common.load_repo()
        import hotxlfp
        from hotxlfp.formulas import error
        p = hotxlfp.Parser()
        for tag, code in CODES.items():
            p.set_variable('e_' + tag, error.from_message(code))

            def mk(code=code):
                def f(*a):
                    raise error.from_message(code)
                return f
            p.set_function('RAISE_' + tag.upper(), mk())

        def pyraise(*a):
            raise ValueError('boom')
        p.set_function('PYRAISE', pyraise)
        p.set_function('ID', lambda x: x)
        _p[0] = p
    return _p[0]


def model_env():
    from hotxlfp.formulas import error
    vs = {'e_' + tag: error.from_message(code) for tag, code in CODES.items()}
    fns = {'RAISE_' + tag.upper(): '(raisexl %s)' % tag for tag in CODES}
    fns['PYRAISE'] = '(raisepy %s)' % enc_str('boom')
    fns['ID'] = '(first)'
    return fx.env_wire(variables=vs, fns=fns)


def producer(rng):
    """-> ('err', tag, text, is_literal)"""
    r = rng.random()
    if r < 0.25:
        tag = rng.choice(LITERALS)
        return ('err', tag, CODES[tag], True)
    if r < 0.50:
        tag = rng.choice(list(CODES))
        return ('err', tag, 'e_' + tag, False)
    if r < 0.60:
        return ('err', 'div0', '(%d/0)' % rng.randrange(1, 9), False)
    if r < 0.66:
        return ('err', 'value', '("a"+1)', False)
    if r < 0.72:
        return ('err', 'na', 'NA()', False)
    if r < 0.80:
        return ('err', 'div0', 'SUM(1/0)', False)
    if r < 0.92:
        tag = rng.choice(list(CODES))
        return ('err', tag, 'RAISE_%s()' % tag.upper(), False)
    if r < 0.96:
        return ('err', 'error', 'PYRAISE()', False)
    return ('err', 'div0', 'ID(1/0)', False)


def leaf(rng, perr):
    if rng.random() < perr:
        return producer(rng)
    return ('num', 'int', str(rng.choice(c04.PRIMES)), '')


def gen_n(rng, depth, perr):
    """numeric-valued (or error) expression that cannot fail on its own: + - *, division by a
    non-zero literal, unary minus, ID(), parenthesised comparison used as a number"""
    if depth <= 0 or rng.random() < 0.2:
        return leaf(rng, perr)
    r = rng.random()
    if r < 0.12:
        return ('neg', gen_n(rng, depth - 1, perr))
    if r < 0.2:
        return ('call', 'ID', 'flat', [gen_n(rng, depth - 1, perr)], [])
    if r < 0.3:
        return gen_c(rng, depth - 1, perr)
    if r < 0.42:
        return ('bin', '/', gen_n(rng, depth - 1, perr), leaf(rng, perr))
    return ('bin', rng.choice(['+', '-', '*']), gen_n(rng, depth - 1, perr), gen_n(rng, depth - 1, perr))


def gen_c(rng, depth, perr):
    op = rng.choice(['=', '<>', '<', '>', '<=', '>='])
    if rng.random() < 0.25:
        return ('bin', op, gen_a(rng, depth - 1, perr), gen_a(rng, depth - 1, perr))
    return ('bin', op, gen_n(rng, depth, perr), gen_n(rng, depth, perr))


def gen_a(rng, depth, perr):
    return ('bin', '&', gen_n(rng, depth, perr), gen_n(rng, depth, perr))


def gen(rng, depth, perr):
    r = rng.random()
    if r < 0.6:
        return gen_n(rng, depth, perr)
    if r < 0.85:
        return gen_c(rng, depth - 1, perr)
    return gen_a(rng, depth - 1, perr)


def render(t):
    k = t[0]
    if k == 'err':
        return t[2]
    if k == 'num':
        return t[2]
    if k == 'neg':
        return '-(' + render(t[1]) + ')'
    if k == 'call':
        return 'ID(' + render(t[3][0]) + ')'
    return '(' + render(t[2]) + ')' + t[1] + '(' + render(t[3]) + ')'


class Abort(Exception):
    def __init__(self, tag):
        self.tag = tag


def expected(t):
    """-> ('err', tag) | ('ok',) following the statement: the leftmost error operand wins,
    an error literal aborts the whole formula"""
    k = t[0]
    if k == 'err':
        if t[3]:
            raise Abort(t[1])
        return ('err', t[1])
    if k == 'num':
        return ('ok',)
    if k in ('neg', 'call'):
        return expected(t[1] if k == 'neg' else t[3][0])
    a = expected(t[2])
    b = expected(t[3])
    if a[0] == 'err':
        return a
    if b[0] == 'err':
        return b
    return ('ok',)


def has_err(t):
    k = t[0]
    if k == 'err':
        return True
    if k == 'num':
        return False
    if k == 'neg':
        return has_err(t[1])
    if k == 'call':
        return has_err(t[3][0])
    return has_err(t[2]) or has_err(t[3])


WRAPS = ['%s', 'IFERROR(%s,777)', 'IFNA(%s,555)', 'ISERROR(%s)', 'ISERR(%s)', 'ISNA(%s)', 'ERROR.TYPE(%s)',
         'IFERROR(ID(%s),777)', 'ISERROR(-(%s))', 'IFERROR((%s)=1,777)']


def cases(rng, ctx):
    thorough = ctx['tier'] == 'thorough'
    n = (8000 if thorough else 700) * ctx['scale']
    maxd = 7 if thorough else 5
    out = []
    for f in ['(1/0)=1', '(1/0)&"a"', '-(1/0)', 'IFERROR(SUM(1/0),0)', 'IFERROR(SQRT(-1),0)', '#N/A', '1+#REF!', 'ISNA(#N/A)',
              'IFERROR(#N/A,1)', '(1/0)+e_na', 'e_na+(1/0)', 'e_data&"x"', 'ISERROR(e_data)', 'ERROR.TYPE(e_error)',
              'IFERROR(RAISE_NUM(),1)', 'IFERROR(PYRAISE(),1)', 'ISERR(PYRAISE())', 'IFNA(RAISE_NA(),3)', '1<e_null', 'e_ref>=e_num',
              'IFERROR(1/0,2/0)', 'IFERROR(IFERROR(1/0,e_na),5)', 'ISERROR(ISERROR(1/0))', 'SUM(1,e_num)', 'IFERROR(SUM(1,e_num),9)']:
        out.append({'kind': 'formula', 'f': f})
    for _ in range(n):
        t = gen(rng, rng.randrange(1, maxd + 1), rng.choice([0.15, 0.3, 0.6]))
        out.append({'kind': 'tree', 't': t})
    return out


def forms(c):
    if c['kind'] == 'formula':
        return [c['f']]
    body = render(c04._fix(c['t']))
    return [w % body for w in WRAPS]


def request(c):
    return 'c04.batch ' + ' '.join(enc_str(f) for f in forms(c)) + ' ' + model_env()


def impl(c):
    p = parser()
    return [(f, p.parse(f)) for f in forms(c)]


def agree(c, impl_ans, model_ans):
    m = fx.parse_sexp(model_ans)
    if len(m) != len(impl_ans):
        return False
    for (f, rec), mm in zip(impl_ans, m):
        if fx.record_matches(mm[1], rec, rel=1e-9) is False:
            return False
    return True


def is_err_rec(rec, tag):
    return rec['result'] is None and rec['error'] == CODES[tag]


def oracle(c, impl_ans):
    if c['kind'] != 'tree':
        # the regression corpus: only the shape of the record is judged here
        for f, rec in impl_ans:
            if rec['error'] is not None and rec['result'] is not None:
                return '%r: error set but result not empty: %r' % (f, rec)
        return None
    t = c04._fix(c['t'])
    try:
        exp = expected(t)
        aborted = False
    except Abort as a:
        exp = ('err', a.tag)
        aborted = True
    recs = dict((w, r) for w, (f, r) in zip(WRAPS, impl_ans))
    fs = dict((w, f) for w, (f, r) in zip(WRAPS, impl_ans))

    def bad(w, why):
        return '%r gives %r; %s' % (fs[w], recs[w], why)
    bare = recs['%s']
    if exp[0] == 'err':
        tag = exp[1]
        if not is_err_rec(bare, tag):
            return bad('%s', 'the leftmost error operand / the error literal is %s' % CODES[tag])
        if aborted:
            # a literal aborts the whole formula, trapping functions included
            for w in WRAPS[1:]:
                if not is_err_rec(recs[w], tag):
                    return bad(w, 'an error literal makes the whole formula report %s' % CODES[tag])
            return None
        for w in ('IFERROR(%s,777)', 'IFERROR(ID(%s),777)', 'IFERROR((%s)=1,777)'):
            if recs[w] != {'result': 777, 'error': None}:
                return bad(w, 'IFERROR(x,y) = y when x is an error')
        if tag == 'na':
            if recs['IFNA(%s,555)'] != {'result': 555, 'error': None}:
                return bad('IFNA(%s,555)', 'IFNA traps #N/A')
        elif not is_err_rec(recs['IFNA(%s,555)'], tag):
            return bad('IFNA(%s,555)', 'IFNA passes other errors through')
        for w in ('ISERROR(%s)', 'ISERROR(-(%s))'):
            if recs[w] != {'result': True, 'error': None}:
                return bad(w, 'ISERROR sees the error')
        if recs['ISERR(%s)'] != {'result': tag != 'na', 'error': None}:
            return bad('ISERR(%s)', 'ISERR = error other than #N/A')
        if recs['ISNA(%s)'] != {'result': tag == 'na', 'error': None}:
            return bad('ISNA(%s)', 'ISNA = #N/A only')
        if tag in ERRTYPE:
            if recs['ERROR.TYPE(%s)'] != {'result': ERRTYPE[tag], 'error': None}:
                return bad('ERROR.TYPE(%s)', 'ERROR.TYPE of %s is %d' % (CODES[tag], ERRTYPE[tag]))
        return None
    # no error anywhere
    if bare['error'] is not None:
        return bad('%s', 'no operand is an error')
    for w in ('IFERROR(%s,777)', 'IFNA(%s,555)'):
        if recs[w]['error'] is not None or not same(recs[w]['result'], bare['result']):
            return bad(w, 'x is not an error, so the result is x = %r' % (bare['result'],))
    for w in ('ISERROR(%s)', 'ISERR(%s)', 'ISNA(%s)'):
        if recs[w] != {'result': False, 'error': None}:
            return bad(w, 'x is not an error')
    return None


def same(a, b):
    if isinstance(a, float) or isinstance(b, float):
        try:
            return abs(a - b) <= 1e-12 * max(1.0, abs(a))
        except TypeError:
            return False
    return a == b and type(a) == type(b)


def nontrivial(c, impl_ans):
    return c['kind'] == 'formula' or has_err(c04._fix(c['t']))


def search(rng, ctx, disagreements):
    c2 = dict(ctx)
    c2['scale'] = 8
    return cases(rng, c2)
