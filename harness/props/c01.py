# -*- coding: utf-8 -*-
"""C01 - parse() is total: it always returns a well-formed result/error record

Every call of the real `Parser.parse` made by this plugin runs
  * in a CHILD process (a farm of forked workers) watched by the parent.  The time budget of a call (WALL_BASE seconds,
    scaled quadratically beyond 10^4 characters) is judged on the PROCESSOR time the call itself has used, wall-clock
    being only the trigger and the outer guard: once the budget has passed in wall-clock the parent reads the processor
    time of the worker (/proc/<pid>/stat, minus time.process_time() noted when the call began) and kills the worker when
    that exceeds the budget (the call does not return in bounded time), when it is below 2 % of the elapsed time (the
    call is blocked, not working - a deadlock does not return either), when it cannot be read, or when 10 budgets of
    wall-clock have passed; otherwise the call is still computing on a starved processor and is left running.  A C-level
    loop cannot hang the check, it becomes a violation with the formula as replay; so does a worker that dies during a
    call;
  * under a deterministic STEP budget: a counter of interpreter events (function entries + jumps, `sys.monitoring`; trace
    events / LINE_FACTOR with `sys.settrace` before Python 3.12) that raises a private BaseException subclass -
    `Parser.parse` catches `Exception`, so the budget exception is not swallowed.
The oracle (i)-(v) is evaluated inside the worker on the object `parse` returned (results
are arbitrary host objects and need not survive pickling); the worker reports the verdicts.  After judging, the worker -
the caller of parse - empties the returned record and writes a foreign key into it: a record object that the
implementation hands out a second time comes back without its entries and fails (i).

Case kinds (one case = one shard of calls run by one worker): `strings` (streams soup, mutant, nest, literal, literal-pow,
redos, unicode, fn-edge, fn-pattern, fn-empty, debug: a list of inputs for the shared `soup` parser or, when the case carries the key
`setup`: 'debug', for the shared `debug` parser - one constructed with debug=True whose output goes to a sink), `wf` (well-formed formulas of the
C04/C08 generators on their parsers, compared with the model), `long` (one input given as pre + sep.join([unit] * n) + post),
`fn` (one registered name x one arity x pool tuples, on the shared `pool` parser), `host` (one callback behaviour x its
formulas, a fresh parser per call), `subs` (one host program x its formulas, a fresh parser per call).

The step counter is active while host callbacks run (they run inside parse): an overrun inside a
listener is raised there as the same BaseException and travels through emit and parse; should the
implementation swallow it, it is raised again every REARM events and the call is a violation even
if it finally returns (`meter.fired`).  A call that is killed on its time budget is reported as a violation with the
formula (and, for the `subs` stream, the host program) as replay; the rest of its shard is run in a new worker without
that call, except that a `subs` shard (all its formulas run the same host program) ends with the first call that does
not return and any other case is given up after three calls that did not return (`abandoned`).  When calls that do not
return use up the overall deadline of the farm and violations are on record, the remaining cases are abandoned and the
verdict is VIOLATION, not a harness error (without violations on record the overrun of the deadline is a harness error).
Self-test of that path (against a tree whose emit walks the live listener list):
  C01_STEP_BASE=1000000000000 C01_HOST_CAP=1000000000 C01_WALL_BASE=3 HOTXLFP_REPO=<tree> check.py C01
(step budget and host bound out of the way, a time budget of 3 s per call) must exit 1 with
"does not return within the wall-clock budget" (the wording of the message for every call killed on its time budget).
These variables are for that self-test only.
"""
import datetime
import json
import multiprocessing
import os
import random as _random
import shutil
import signal
import sys
import time
from multiprocessing import connection as _mpc

from .. import common, fx
from ..common import enc_str
from . import c04, c08

ID = 'C01'
LEAN_MODULES = ['HotXL.Props.C01']
FUNCTIONS = ['hotxlfp.parser:Parser.parse', 'hotxlfp.parser:Parser.call_function', 'hotxlfp.parser:Parser.call_variable',
             'hotxlfp.parser:Parser.call_cell_value', 'hotxlfp.parser:Parser.call_range_value', 'hotxlfp.parser:Parser._throw_error',
             'hotxlfp.formulas.error:from_message', 'hotxlfp.grammarparser.lexer:t_error',
             'hotxlfp.grammarparser.parser:FormulaParser.p_error', 'hotxlfp.grammarparser.parser:Parser.parse',
             'hotxlfp.tinyemitter:Emitter.emit']

# ----------------------------------------------------------------------------- the statement

NINE = ('#ERROR!', '#DIV/0!', '#NAME?', '#N/A', '#NULL!', '#NUM!', '#REF!', '#VALUE!', '#GETTING_DATA')   # copied from the statement

STEP_BASE = int(os.environ.get('C01_STEP_BASE', '0') or 0) or 1000000       # interpreter steps (function entries + jumps) allowed for any call ...
STEP_PER_CHAR = 100       # ... plus this many per input character (ply's loops are linear in the input)
REARM = 20000             # see StepMeter
LINE_FACTOR = 8           # settrace fallback: one step ~ 8 line events
# seconds of the call's own processor time, read once that much wall-clock has passed (outer guard: 10 times as much);
# scaled by max(1, len/10^4)^2 (the lexer's regular expressions backtrack quadratically)
WALL_BASE = float(os.environ.get('C01_WALL_BASE', '0') or 0) or 20.0
WORKERS = int(os.environ.get('C01_WORKERS', '0') or 0) or min(16, os.cpu_count() or 4)

RULE_STATIC = (
    'oracle = the statement on the real parse, judged in the worker on the object returned: (i) a dict (no subclass) with '
    'exactly the keys result,error; (ii) error is None or a str (no subclass) among the nine codes; (iii) error set -> result '
    'None; (iv) result is not an instance of XLError or of a subclass; (v) the call returns - no exception of any kind '
    '(BaseException) escapes - within 10^6 + 100*len interpreter steps (function entries + jumps, host callbacks included; a '
    'budget exception that is swallowed is raised again every 20000 events and the call is a violation even if it returns) and '
    'within the time budget T = 20 s * max(1, len/10^4)^2, judged on the PROCESSOR time of the call: once T of wall-clock has '
    'passed (polled every 0.2 s) the parent reads the processor time the worker has used since it began the call and kills it '
    '- a violation - if that exceeds T, is below 2 % of the elapsed time (blocked), cannot be read, or 10*T of wall-clock have '
    'passed (outer guard); a worker that dies during a call counts the same. After a call that did not return the rest of the '
    'shard runs in a new worker; a subs shard ends with the first such call, any other case is abandoned after 3. After '
    'judging, the worker (the caller) empties every returned record and writes a foreign key into it: a record object handed '
    'out twice fails (i). At most 8 violations are kept per shard (the last one notes that there were more); the oracle reports '
    'the first and their number. Farm: min(16, cpus) forked workers (C01_WORKERS overrides the number; recursion limit 1000), '
    'cases dealt out most expensive first (long, then nest / literal / literal-pow, then by number of calls), overall wall-clock deadline 1500 s quick '
    '/ 6000 s thorough: passed with violations on record -> the unfinished cases are abandoned, verdict VIOLATION; without -> '
    'harness error. scale = 1 (quick: 5 when a listed function changed or the Lean build broke). Streams: (a) strings on one '
    'parser per worker (va..vn = the pool; vempty = [], vragged = [[1,2],[]], vnest0 = [[]] - empty and ragged arrays, which no '
    'literal can spell; function ID = its first argument; a cell listener over 4 cells A1, B2, C3, D4 (blank elsewhere); a range '
    'listener that answers [] for Z1:Z2, [[1,2],[]] for any other range beginning at Z1 (Z1:Z3) and a fresh [[1,2],[3,4]] for '
    'every other range); soup, mutant, '
    'unicode, wf in cases of 100: soup = 3000 (thorough 30000) x scale seeded concatenations of 1..20 pieces - texts of the 36 '
    'token classes of the soup alphabet (88 texts; coverage of lexer.tokens asserted), 4 % illegal characters (16), in half of '
    'the soups mostly from a 28-piece operand/operator list - + a sixth as many soups of 1..13 bracket/quote/separator pieces '
    '+ every token text and illegal character alone + "", " ", "=", "=1", "=1+1"; wf = the well-formed formulas of 500 (4000) '
    'x scale seeded trees of depth 1..5 (1..7): 55 % C04 operator trees (c04.gen_top as it runs outside C04\'s own cases(): no '
    'error leaves, no blank operands, no non-dyadic decimals) rendered minimal, fully '
    'parenthesised and with white space / an outer parenthesis (3 formulas per tree), on the C04 parser (its host functions ID and ABS - both the identity, drawn 70 / 30 % for the call nodes - and its cell and variable '
    'listeners re-enter parse; its variable ovr is registered with 999 and answered with 41 by the variable listener, 41 being the value in c04.ENV), 45 % C08 error-propagation trees (c08.gen, error-leaf probability 0.15/0.3/0.6: 4 % a text '
    'that spells an error code, else numeric / comparison / & trees over prime literals whose error leaves are in 15 % an '
    'error operand against an array operand of + - * /, else 55 % classic '
    'producers - error literals, e_ variables, n/0, "a"+1, NA(), SUM(1/0), RAISE_x(), PYRAISE(), ID(1/0) -, 45 % family '
    'producers - pre-1900 date arithmetic, text under + - * /, division by a zero-like, failing builtin calls, those nested '
    'in a call, cells holding errors; one formula per tree) under one of '
    'the 13 C08 wrappers (as is, IFERROR/IFNA with fallbacks 777, 555, 0, FALSE, "", ISERROR, ISERR, ISNA, ERROR.TYPE, through '
    'ID, negated, compared) on the C08 parser; mutant = 3 per wf formula: prefix, suffix, a character or a slice deleted, a '
    'character or the whole formula doubled, two characters swapped, one of 21 pieces inserted; nest = 24 '
    'bracket/paren/call/operator/quote/postfix shapes, balanced and unbalanced, at depths 1,2,3,10,50,200,1000 (+10^4 '
    'thorough; up to 1.1*10^4 / 1.1*10^5 characters), one case per depth; literal = one case of 54 numeric-literal forms (up to 5000 digits, . % ^ e forms, '
    'powers beyond the doubles such as 10^400, 9^99999); literal-pow = 7 power literals (9^99999999 bare, negated and inside '
    'SUM, 2^(40 nines), (40 nines)^(40 nines), 3^1023, 99^170), one case each; redos = 3633 near-misses of the token rules, '
    'one case each: 21 units (backslash escapes, quotes, fragments of names, cells, numbers and error literals, operators, '
    'blank, e-acute) repeated 24/40/64 times between 11 prefixes and 5 suffixes and 500/3000 times after 4 prefixes (up to '
    '6001 characters) - where a backtracking regular expression that admits two decompositions of a text takes exponential '
    'time; (b) unicode = 2500 (20000) x scale strings of 1..40 characters over ASCII, controls, Latin-1, BMP, astral, lone '
    'surrogates, 18 Unicode spaces/format characters, 9 digits outside [0-9], 9 case-mapping oddities, 35 % alone, else '
    'spliced into one of 20 formula templates; long = 24 shapes (operator chains, argument and row lists, quotes, escapes, '
    'names, cells, #, blanks, newlines, digits, lone surrogates) of 10^4 units of 1..3 characters (10^4..3*10^4 characters), '
    'thorough also of 10^5 units (3*10^4 for the 3 shapes marked quadratic in the lexer; up to 3*10^5 characters) and "a"*10^5 '
    'once, one input per case; (c) fn = EVERY name in formulas.supported() (N names, 156 in the pinned tree; none excluded, '
    'NOW/TODAY/RAND/RANDBETWEEN included) x arity 0..4 x tuples of a 14-value pool (3, -2, 2.5, "12", "abc", "", TRUE, blank, '
    '#DIV/0!, #N/A, #VALUE!, the date 2020-02-29, {1,2,3}, {{1,2},{3,4}} - one value of every type) bound to variables va..vn '
    '(the array values are restored when a builtin changed them in place; counted in the statistics): quick = arities 0..2 '
    'complete (211 calls per name) + 60 x scale seeded tuples each of arity 3 and 4; thorough = arities 0..4 COMPLETE, '
    'N*(1+14+14^2+14^3+14^4) calls (arity 4 in 14 shards of 14^3), + 3000 x scale more arity-4 tuples per modelled name for the model; arguments outside the pool are '
    'not part of this stream; a callFunction listener counts the dispatches of the name: a fn shard without violation whose '
    'number of dispatches differs from its number of calls is a '
    'harness error; fn-edge (a strings case per name) = every name that accepts three arguments also on its guard axes - one argument 10^15, the two others over 12 small whole numbers of either sign and fractions, all 3 x 144 combinations - and every name on numeric edges written as literals: 29 numbers (incl. 2^53+1 and its negative, and the float twins 10^15/1, -(10^15/1), 2^70/1, 10^300/1 of huge whole numbers; +-0.5, '
    '+-10^-9, 0, -0, +-1, +-1.5, 2, 36, 37, +-255, +-10^15, +-10^300, 2^53, +-(2^53+1), 0.1, 0.25, -2.5) alone and in all 29^2 pairs, 7 numeric '
    'texts at the edges of float() ("1e400", "nan", "inf", "1e-400", REPT("9",400), ...) alone and paired both ways with 6 '
    'small numbers, 40 (600) x scale seeded triples (at most all 13^3) over 13 of the numbers (the first 12 and 10^15): 1001 '
    '(1561) calls per name at scale 1 (29 + 841 + 7 + 84 + 40 (600)); fn-pattern = one case '
    'of 242 calls: 11 wildcard patterns whose literal tail occurs in neither text (6..24 groups "*-" or "*a", 14 x "?*", 30 x '
    '"*", also behind the criteria prefixes <> and =) x 2 texts (48 words joined by "-"; 40 x "a") x COUNTIF, SUMIF, '
    'AVERAGEIF, their ...IFS forms, MAXIFS and MATCH over {text,text,1}, SEARCH, FIND, SUBSTITUTE on the text; fn-empty (a '
    'strings case per name, on the soup parser) = every name on the empty and ragged arrays only the host can supply - the '
    '5 operands vempty, vragged, vnest0, Z1:Z2, Z1:Z3 alone, as first argument before 1, "a", vempty, as second after 1, "a", as '
    'NAME(1,x,2) and NAME(x,1,1): 40 calls per name - + one case of 11 operator formulas over them (vempty, vempty+1, 1-vragged, '
    'vempty&"a", vempty=vempty, -vempty, Z1:Z2, Z1:Z3*2, {1,2}+vempty, vnest0*vnest0, IF(vempty,1,2)); debug = 2 strings cases: '
    'one on the debug parser (set-up `debug`: hotxlfp.Parser(debug=True), one per worker, va..vn = the pool, function ID, a cell '
    'listener over the 4 cells, no range listener, no vempty / vragged / vnest0; sys.stdout and sys.stderr are an io.StringIO '
    'for the duration of every parse, so what the parser prints goes to a sink) of 16 fixed formulas (aggregates handed an error '
    'value - SUM(LN(0),1), MAX(SQRT(-1),2), AVERAGE(1/0,1), PRODUCT({1,2},ACOS(5)), COUNT(1,NA()), MIN(#REF!,1), SUM(nosuch,1), '
    'SUM(A1,LN(0)) -, 1+, #FOO, NOSUCH(1), SUM(, CONCATENATE(1/0,"a"), AND(1/0,TRUE), ID(1/0)+1, LARGE({1,2},5)) + 3 per each of '
    'min(N, 40 x scale) sampled names (NAME(LN(0)), NAME(1,SQRT(-1)), NAME({1,2},1/0)) + the 4 fall-backs 1+, #FOO, SUM(LN(0),1), '
    'NOSUCH(1) once more (140 calls at scale 1), then one on the soup parser of the 5 fall-backs 1+, #FOO, NOSUCH(1), '
    'SUM(LN(0),1), ID(1/0)+ - judged by (i)-(v) like every other call; (d) host = a '
    'fresh parser per call (variable a = 3, function ID) with one misbehaving callback: a custom function F (69 behaviours x 16 formula forms), the value of '
    'variable x (31 values x 14 forms), a listener on each of the four events (71 behaviours x 6..7 forms). return/hold (31): '
    'any pool value, a foreign XLError("#WEIRD"), an XLError subclass, one whose __str__ raises, XLError() without message, '
    'the XLError class, object(), a record-like dict, nan, inf, 10^5000, bytes, a tuple and a list holding errors, a value '
    'whose str/repr raise, an unhashable value whose == and truth value raise, an exception instance, a generator; raise (33): '
    'each of the nine singletons, ValueError("#N/A" / "#GETTING_DATA" / "boom" / "" / "#n/a"), foreign and message-less '
    'XLError, exceptions whose __str__ (and __repr__) raise, SyntaxError, StopIteration, StopAsyncIteration, RecursionError, '
    'MemoryError, KeyError, AssertionError, OSError, UnicodeDecodeError, UserWarning, TypeError, ZeroDivisionError, an '
    'exception CLASS, an unhashable exception (== defined, no hash), a hostile exception (==, !=, hash, truth value, len '
    'raise); setter (28, listeners): called with any pool value or one of 10 odd values, twice, then raising, with None, '
    'without argument; re-enter parse on the same parser (5): another formula, the same formula to depth 3, the same formula '
    'without a depth bound (stops after 1000 calls in all), a failing formula whose whole record is handed on, reenter:edit = '
    'the empty formula, whose returned record the host annotates and strips of result and error; modify the parser during the '
    'call (4, listeners): off itself, on itself again (up to 49 times), rebind a + shadow SUM + delete TRUE, clear all '
    'listeners and variables; a listener that does nothing; + 5 fixed hostile-object cases (a value whose __class__ raises as '
    'result of F and as variable value, an exception whose __traceback__ setter raises from F and from a callVariable '
    'listener); (e) subs = listeners and custom functions that RETURN NORMALLY but manipulate the parser\'s own subscriptions '
    'and bindings while they run, given as small programs (handlers = lists of the actions set / on / once / off(name) / '
    'off(name, cb) / set_variable / set_function; targets: the running callable itself = re-arming, a fresh callable that in '
    'turn does the same, another handler; events: the one being delivered or a named one; names: the one being resolved or a '
    'literal): structured = 27 scenarios (re-arm self/fresh/ping-pong/twice, once, on-then-once, once-then-on, subscribe for '
    'the other events, off self/all/other/other events, off-then-on, on-then-off, set_variable/set_function of the resolved '
    'name, a custom function that arms listeners or re-binds itself) x each of the four events, run on the 5..6 formulas with '
    'one and with several references of that event and on 11 mixed formulas; 1 fixed regression case (a callCellValue listener '
    'that subscribes itself again); generated = 250 (3000) x scale seeded programs of 1..3 handlers x 1..4 actions (at most 2 '
    'on/once each), 1..2 initial subscriptions (on/once, any event), in 35 % a custom function, on 6..9 formulas of at most 4 '
    'emits; a fresh parser per call (a = 3, b = "txt", F = its first argument unless the program binds F); the host callables stop acting after 300000 calls per parse (their own bound; under '
    'snapshot delivery they are called once per subscription and emit, at most 120 times); after the first call of a subs '
    'shard that overruns a budget the other formulas of the shard (same host program) are not run. Model comparison (eval of '
    'the Lean model, same formulas and environment): wf formulas; fn calls of the builtins the Lean driver reports as modelled '
    '(125 of the 156; quick: arities 0..2 complete + the samples; thorough: 0..3 complete + the sample of 4); host function F '
    'that returns a pool value or raises a singleton or a ValueError, host variable x holding a pool value; all else (soup, '
    'mutant, nest, literal, literal-pow, redos, unicode, long, fn-edge, fn-pattern, fn-empty, debug, the thorough arity-4 shards, '
    'listeners, re-entering and odd host values, subs - the '
    'model has no subscriptions) is oracle only. Records agree up to 4 ulps or 1e-9 relative (absolute below 1) on floats, 2 us + 2^-49 relative '
    'on dates, a logical may stand for the model integer of the same value; a model answer with another number of records than formulas is a disagreement; not '
    'compared: model records without opinion, calls on which the oracle found a violation (no record is kept), = < > on an array-valued host value (F or x holding {1,2,3} or {{1,2},{3,4}}), '
    'complex results, GEOMEAN/HARMEAN when both sides report an error. When the Lean build or the comparison broke and no call '
    'failed, every stream is generated again with scale >= 4 and judged by the oracle only, until the first failure (the wf '
    'cases are generated and run with the batch but not judged). A failing shard is reduced to its single failing call (run '
    'again in a farm with a deadline of 600 s; kept if it fails again) and, for a strings call that was not killed and whose '
    'worker did not die, characters are deleted while it still fails (at most 80 runs); long cases and other single-call '
    'cases are reported as they are. Non-trivial '
    '= at least one call of the shard was made. One case = one shard of calls = one evaluation; the number of calls is in the '
    'run statistics appended below.')
RULE = RULE_STATIC
TRUSTED = ['the step counter (sys.monitoring JUMP + PY_START events, CPython >= 3.12; before that sys.settrace events / 8) '
           'sees every Python-level loop iteration and call; C-level loops (re, int arithmetic, str methods) are bounded only '
           'by the time budget',
           'os.fork / SIGKILL of the worker farm; utime + stime of /proc/<pid>/stat against time.process_time() of the '
           'single-threaded worker measure the processor time of a call (set-up of its parser and judging included); without '
           '/proc the budget is plain wall-clock',
           'the thresholds of the time verdict: under 2 % processor share after a budget of wall-clock means blocked, not '
           'starved; no machine load stretches a call that is within its budget beyond 10 budgets; a worker that dies during a '
           'call died of the call',
           'stream (e): the steps of the host callables count towards the budget of the call they run in; a call of a callable '
           'costs about 11 steps and the programs are bounded (see subs_bound: 120 calls, 51240 steps) so that under snapshot '
           'delivery a parse of this stream stays near 5 % of the budget - an overrun is the delivery\'s, not the host\'s',
           'builtins the Lean driver answers `unmodelled-builtin` for (in the pinned model: trigonometric/hyperbolic '
           'functions, DEGREES, RADIANS, EXP, LN, LOG, LOG10, SQRT, POWER, PI, PV, TEXT, NOW, TODAY, RAND, RANDBETWEEN): '
           'oracle only (their termination is that of math/statistics/re)',
           'the Lean driver (`c04.batch`, `fn`) and the wire encoding of formulas, environments and records (harness/fx.py); '
           'floats are compared up to 4 ulps or 1e-9 relative error, dates up to 2 us + 2^-49 relative, a logical may stand '
           'for the model integer of the same value (aggregates hand logical items back)',
           'comparison operators applied to array-valued host values, complex results and the error GEOMEAN/HARMEAN pick among '
           'several failing items are not compared with the model (evaluate_logic is modelled on scalars; statistics consumes '
           'its data lazily)',
           'strings, fn and wf calls of one worker share one parser per set-up (host and subs calls get a fresh one); only the '
           'two array pool values (vm, vn, on the pool and soup parsers) are restored between calls; the host arrays vempty, '
           'vragged, vnest0 of the soup parser, the pool variables of the debug parser and the variables of the C04 and C08 '
           'parsers are not',
           'stream debug: a parser constructed with debug=True writes what it meets to sys.stdout / sys.stderr only; both are '
           'replaced by an io.StringIO around every parse of that parser (parse is wrapped on the instance) and restored '
           'afterwards, the steps of the wrapper and of the printing count towards the budget of the call; oracle only (no model '
           'request)',
           'stream fn-empty (empty and ragged arrays handed over by the host - variables vempty, vragged, vnest0, the range '
           'listener\'s answers for Z1:Z2 and Z1:Z3 - given to every registered name) is oracle only: no model request carries an '
           'empty or ragged array',
           'the 1e-9 relative tolerance on floats is 1e-9 * max(1, |model value|), i.e. absolute below 1; a disagreement or '
           'oracle failure is evaluated again alone in a fresh interpreter by the harness (common.fresh_process_probe / '
           'standalone_failure) to tell the input from the history of the process']
ASSUMPTIONS = ['"raising" host callbacks raise subclasses of Exception (ill-behaved ones included: unhashable, ==/hash/truth '
               'value/str/traceback setter raising, a class instead of an instance); KeyboardInterrupt, SystemExit, '
               'GeneratorExit and other bare BaseException subclasses propagate by design (`except Exception`) and are not '
               'exercised',
               '"bounded time" is read as: at most 10^6 + 100*len(input) interpreter steps (function entries + jumps, host '
               'callbacks included) and at most T = 20 s * max(1, len/10^4)^2 of PROCESSOR time of the calling process per '
               'call; wall-clock only triggers the reading (after T) and is the outer guard (10*T); a call that is blocked '
               '(under 2 % processor share after T) or whose process dies does not return either',
               '"a record holding exactly a result entry and an error entry" is read as a plain dict with exactly these two '
               'keys and a plain str as code; every call hands out a record of its own: the caller may empty or overwrite it '
               '(the harness does after every call, the reenter:edit host for the inner call) without effect on any later '
               'record',
               '"the result is never itself an error object" is about the result entry being an instance of XLError or of a '
               'subclass; a list result may contain error objects, and the XLError class, an exception instance, nan or any '
               'other host object is accepted',
               'which of the nine codes is reported and which value results is not part of the statement: the oracle accepts '
               'any; values and codes are checked only where the Lean model is compared',
               'host callbacks that never return are not callbacks "that return or raise" and are not exercised: the unbounded '
               're-entrant callback stops re-entering after 1000 calls; a listener that subscribes listeners while it runs '
               '(re-arming) returns at every call and stops acting after 300000 calls: when delivery to such a host does not '
               'end within the budgets, that is counted against parse',
               '"whatever the ... custom functions and event listeners do" includes returning normally after changing the '
               'subscriptions and bindings of the calling parser, re-entering parse on it and editing the records such inner '
               'calls return',
               '"whatever the registered variables ... and event listeners do" includes binding a variable to, or answering a '
               'range request with, an array that no formula literal can spell: an empty list, rows of unequal length, [[]] '
               '(stream fn-empty): a builtin handed such an array is inside the statement',
               'the input is a str (any code points, lone surrogates and NUL included, also the empty string); other argument '
               'types are outside the statement']
EXHAUSTIVE = {'quick': False, 'thorough': False}   # (c) is complete in thorough; strings and host behaviours sample infinite spaces

STATS = {}          # run statistics, readable by the harness; also appended to RULE

TAGS = ['error', 'div0', 'name', 'na', 'null', 'num', 'ref', 'value', 'data']
POOL_NAMES = ['va', 'vb', 'vc', 'vd', 've', 'vf', 'vg', 'vh', 'vi', 'vj', 'vk', 'vl', 'vm', 'vn']
NPOOL = len(POOL_NAMES)


def _error_mod():
    common.load_repo()
    from hotxlfp.formulas import error
    return error


def pool():
    """fresh copies of the 14 pool values"""
    error = _error_mod()
    return [3, -2, 2.5, '12', 'abc', '', True, None, error.DIV_ZERO, error.NOT_AVAILABLE, error.VALUE,
            datetime.datetime(2020, 2, 29), [1, 2, 3], [[1, 2], [3, 4]]]


_FLAT = [1, 2, 3]
_NESTED = [[1, 2], [3, 4]]
CELLS = {'A1': 5, 'B2': 'txt', 'C3': 2.5, 'D4': True}
RANGE_VALUE = [[1, 2], [3, 4]]


# ----------------------------------------------------------------------------- step budget

class _Budget(BaseException):
    """raised by the step counter; deliberately NOT an Exception (Parser.parse catches Exception)"""


class StepMeter(object):
    def __init__(self):
        self.cnt = cnt = [0]
        self.lim = lim = [0]
        self.fired = fired = [0]
        self.mon = getattr(sys, 'monitoring', None)
        self.unit = 'function entries + jumps (sys.monitoring)'
        if self.mon is not None:
            mon = self.mon
            self.tool = None
            for tid in (4, 3, 5, 2, 1, 0):
                try:
                    mon.use_tool_id(tid, 'c01-budget')
                    self.tool = tid
                    break
                except ValueError:
                    continue
            if self.tool is None:
                self.mon = None
        if self.mon is not None:
            E = self.mon.events
            self.events = E.JUMP | E.PY_START

            # after the budget exception has been raised once, it is raised again only every REARM further
            # events (in case the monitored code swallowed it) - so that the unwinding, and `stop`, can run
            def on_jump(code, off, dst):
                cnt[0] += 1
                if cnt[0] > lim[0]:
                    lim[0] = cnt[0] + REARM
                    fired[0] += 1
                    raise _Budget()

            def on_start(code, off):
                cnt[0] += 1
                if cnt[0] > lim[0]:
                    lim[0] = cnt[0] + REARM
                    fired[0] += 1
                    raise _Budget()
            self.mon.register_callback(self.tool, E.JUMP, on_jump)
            self.mon.register_callback(self.tool, E.PY_START, on_start)
        else:
            self.unit = 'line events / %d (sys.settrace)' % LINE_FACTOR

            def tracer(frame, event, arg):
                cnt[0] += 1
                if cnt[0] > lim[0]:
                    lim[0] = cnt[0] + REARM * LINE_FACTOR
                    fired[0] += 1
                    raise _Budget()
                return tracer
            self.tracer = tracer

    def start(self, limit):
        self.cnt[0] = 0
        self.fired[0] = 0
        if self.mon is not None:
            self.lim[0] = limit
            self.mon.set_events(self.tool, self.events)
        else:
            self.lim[0] = limit * LINE_FACTOR
            sys.settrace(self.tracer)

    def stop(self):
        if self.mon is not None:
            self.mon.set_events(self.tool, 0)
            return self.cnt[0]
        sys.settrace(None)
        return self.cnt[0] // LINE_FACTOR


def step_limit(formula):
    return STEP_BASE + STEP_PER_CHAR * len(formula)


def wall_limit(formula):
    k = max(1.0, len(formula) / 10000.0)
    return WALL_BASE * k * k


# ----------------------------------------------------------------------------- the oracle on one returned object

def judge(r):
    """(i)-(iv) on the object returned by parse -> None | message"""
    error = _error_mod()
    if type(r) is not dict:
        return 'parse returned a %s, not a dict' % type(r).__name__
    try:
        keys = sorted(r.keys())
    except Exception:
        return 'record keys are not comparable'
    if keys != ['error', 'result']:
        return 'record keys are %r, expected exactly result and error' % (keys,)
    err = r['error']
    res = r['result']
    if err is not None and not (type(err) is str and err in NINE):
        return 'error entry is %s, not None or one of the nine codes' % _safe_repr(err)
    if err is not None and res is not None:
        return 'error entry %s is set but the result entry is %s, not empty' % (err, _safe_repr(res))
    if issubclass(type(res), error.XLError):
        return 'the result entry is itself an error object %s' % _safe_repr(res)
    return None


def _safe_repr(x, n=120):
    try:
        if type(x) is int and (x > 10 ** 50 or x < -10 ** 50):
            return '<int of %d bits>' % x.bit_length()
        if type(x) in (list, dict, tuple) and len(x) > 50:
            return '<%s of %d items>' % (type(x).__name__, len(x))
        s = repr(x)
    except BaseException as e:  # noqa
        return '<unprintable %s: %s>' % (type(x).__name__, type(e).__name__)
    return s if len(s) <= n else s[:n] + '...'


def _show_formula(f, n=300):
    s = json.dumps(f)
    if len(s) > n:
        s = s[:n] + '...(%d characters)' % len(f)
    return s


def _sanitize(v, depth=0):
    """value -> picklable plain data: errors as ('#E', message), unknown objects as ('#O', type name)"""
    error = _error_mod()
    t = type(v)
    if v is None or t in (bool, int, float, str, datetime.datetime):
        return v
    if t is list:
        if depth > 20 or len(v) > 2000:
            return ('#O', 'list-too-big')
        return [_sanitize(x, depth + 1) for x in v]
    if issubclass(t, error.XLError):
        try:
            return ('#E', str(v))
        except Exception:
            return ('#O', 'XLError-without-str')
    return ('#O', t.__name__)


def _desanitize(v):
    if type(v) is list:
        return [_desanitize(x) for x in v]
    if type(v) is tuple and len(v) == 2 and v[0] == '#E':
        return _error_mod().XLError(v[1])
    if type(v) is tuple and len(v) == 2 and v[0] == '#O':
        return _Opaque(v[1])
    return v


class _Opaque(object):
    def __init__(self, name):
        self.name = name

    def __repr__(self):
        return '<%s>' % self.name


# ----------------------------------------------------------------------------- parsers used inside the workers

_setups = {}
_counter = {}


def _count_listener(name, args, setter):
    _counter[name] = _counter.get(name, 0) + 1


def _new_parser():
    common.load_repo()
    import hotxlfp
    return hotxlfp.Parser()


def _setup(name):
    p = _setups.get(name)
    if p is not None:
        return p
    if name == 'c04':
        p = c04.real_parser()
    elif name == 'c08':
        p = c08.parser()
    elif name == 'pool':
        p = _new_parser()
        for k, v in zip(POOL_NAMES, pool()):
            p.set_variable(k, v)
        p.on('callFunction', _count_listener)
    elif name == 'debug':
        # a parser constructed with debug=True (it prints what it meets - to a sink here): the record is what it is without it
        common.load_repo()
        import hotxlfp
        import io
        import sys
        p = hotxlfp.Parser(debug=True)
        for k, v in zip(POOL_NAMES, pool()):
            p.set_variable(k, v)
        p.set_function('ID', lambda *a: a[0] if a else None)
        p.on('callCellValue', lambda cell, setter: setter(CELLS.get(cell.label)))
        inner = p.parse

        def quiet_parse(formula):
            old = sys.stdout, sys.stderr
            sys.stdout = sys.stderr = io.StringIO()
            try:
                return inner(formula)
            finally:
                sys.stdout, sys.stderr = old
        p.parse = quiet_parse
    elif name == 'soup':
        p = _new_parser()
        for k, v in zip(POOL_NAMES, pool()):
            p.set_variable(k, v)
        p.set_function('ID', lambda *a: a[0] if a else None)
        # empty and ragged arrays, which no literal can spell: only the host can hand them over
        p.set_variable('vempty', [])
        p.set_variable('vragged', [[1, 2], []])
        p.set_variable('vnest0', [[]])

        def on_cell(cell, setter):
            setter(CELLS.get(cell.label))

        def on_range(start, end, setter):
            if start.label == 'Z1':
                setter([] if end.label == 'Z2' else [[1, 2], []])
                return
            setter([list(r) for r in RANGE_VALUE])
        p.on('callCellValue', on_cell)
        p.on('callRangeValue', on_range)
    else:
        raise ValueError(name)
    _setups[name] = p
    return p


def _repair_pool(p):
    """a builtin that mutates an argument list in place must not contaminate later calls"""
    vs = p.variables
    if vs['vm'] != _FLAT or vs['vn'] != _NESTED:
        vs['vm'] = [1, 2, 3]
        vs['vn'] = [[1, 2], [3, 4]]
        return 1
    return 0


# ---- host behaviours (stream d)

class _BadStr(Exception):
    def __str__(self):
        raise RuntimeError('no str')


class _BadStr2(Exception):
    def __str__(self):
        raise _BadStr2()
    __repr__ = __str__


class _HostileTb(Exception):
    """an exception object that refuses `e.__traceback__ = None`"""
    def _set(self, v):
        raise ZeroDivisionError('the traceback of this exception cannot be assigned')
    __traceback__ = property(lambda self: None, _set)


class _UnhashableExc(Exception):
    """an exception with value equality and therefore no hash (what @dataclass(eq=True) makes of an exception class)"""
    def __init__(self, label='A1'):
        Exception.__init__(self, label)
        self.label = label

    def __eq__(self, other):
        return isinstance(other, _UnhashableExc) and other.label == self.label
    __hash__ = None


class _HostileExc(Exception):
    """an exception that cannot be hashed, compared or asked for its truth value"""
    def __eq__(self, other):
        raise RuntimeError('no ==')

    def __ne__(self, other):
        raise RuntimeError('no !=')

    def __hash__(self):
        raise RuntimeError('no hash')

    def __bool__(self):
        raise RuntimeError('no truth value')

    def __len__(self):
        raise RuntimeError('no len')


class _HostileClass(object):
    """a value whose __class__ attribute raises: isinstance(value, X) raises"""
    @property
    def __class__(self):
        raise ValueError('no __class__')


class _BadStrValue(object):
    def __str__(self):
        raise KeyError('no str')
    __repr__ = __str__


class _BadEq(object):
    def __eq__(self, other):
        raise ValueError('no ==')
    __hash__ = None

    def __bool__(self):
        raise ValueError('no truth value')


def _ret_value(how):
    """the value of a `ret:`/`set:` behaviour"""
    error = _error_mod()
    what = how.split(':', 1)[1]
    if what.isdigit():
        return pool()[int(what)]
    if what == 'weird':
        return error.XLError('#WEIRD')
    if what == 'xlsub':
        class XLSub(error.XLError):
            pass
        return XLSub('#N/A')
    if what == 'xlbadstr':
        class XLBadStr(error.XLError):
            def __str__(self):
                raise RuntimeError('no str')
        return XLBadStr('#N/A')
    if what == 'xlempty':
        return error.XLError()
    if what == 'xlclass':
        return error.XLError
    if what == 'object':
        return object()
    if what == 'record':
        return {'result': None, 'error': '#WEIRD'}
    if what == 'nan':
        return float('nan')
    if what == 'inf':
        return float('inf')
    if what == 'bigint':
        return 10 ** 5000
    if what == 'bytes':
        return b'#N/A'
    if what == 'tuple':
        return (1, error.NUM)
    if what == 'errlist':
        return [error.NUM, error.XLError('#WEIRD')]
    if what == 'badstrvalue':
        return _BadStrValue()
    if what == 'badeq':
        return _BadEq()
    if what == 'exception':
        return ValueError('#N/A')
    if what == 'generator':
        return (x for x in [1, 2])
    if what == 'hostile-class':
        return _HostileClass()
    raise ValueError(how)


def _exc_of(how):
    error = _error_mod()
    what = how.split(':', 1)[1]
    if what.startswith('xl:'):
        return error.from_message(fx.TAG_ERR[what[3:]])
    if what.startswith('py:'):
        return ValueError(what[3:])
    table = {
        'weird': lambda: error.XLError('#WEIRD'), 'xlempty': lambda: error.XLError(), 'badstr': _BadStr, 'badstr2': _BadStr2,
        'syntax': lambda: SyntaxError('host syntax error'), 'stopiter': StopIteration, 'recursion': lambda: RecursionError('deep'),
        'memory': MemoryError, 'keyerror': lambda: KeyError('#N/A'), 'assert': AssertionError, 'oserror': lambda: OSError(5, '#REF!'),
        'unicode': lambda: UnicodeDecodeError('utf-8', b'\xff', 0, 1, '#NUM!'), 'warning': lambda: UserWarning('#VALUE!'),
        'class': lambda: ValueError, 'stopasync': StopAsyncIteration, 'hostile-tb': _HostileTb,
        'typeerror': lambda: TypeError('#N/A'), 'zerodiv': lambda: ZeroDivisionError('division by zero'),
        'unhashable': _UnhashableExc, 'hostile-exc': _HostileExc,
    }
    return table[what]()


RET_HOWS = ['ret:%d' % i for i in range(NPOOL)] + ['ret:weird', 'ret:xlsub', 'ret:xlbadstr', 'ret:xlempty', 'ret:xlclass', 'ret:object',
                                                   'ret:record', 'ret:nan', 'ret:inf', 'ret:bigint', 'ret:bytes', 'ret:tuple', 'ret:errlist',
                                                   'ret:badstrvalue', 'ret:badeq', 'ret:exception', 'ret:generator']
RAISE_HOWS = ['raise:xl:%s' % t for t in TAGS] + ['raise:py:#N/A', 'raise:py:#GETTING_DATA', 'raise:py:boom', 'raise:py:', 'raise:py:#n/a',
                                                  'raise:weird', 'raise:xlempty', 'raise:badstr', 'raise:badstr2', 'raise:syntax',
                                                  'raise:stopiter', 'raise:recursion', 'raise:memory', 'raise:keyerror', 'raise:assert',
                                                  'raise:oserror', 'raise:unicode', 'raise:warning', 'raise:class', 'raise:stopasync',
                                                  'raise:typeerror', 'raise:zerodiv', 'raise:unhashable', 'raise:hostile-exc']
SET_HOWS = ['set:%d' % i for i in range(NPOOL)] + ['set:weird', 'set:xlsub', 'set:xlbadstr', 'set:object', 'set:record', 'set:nan',
                                                   'set:bigint', 'set:errlist', 'set:badstrvalue', 'set:badeq', 'settwice', 'setraise',
                                                   'setnothing', 'setbadarity']
REENTER_HOWS = ['reenter:other', 'reenter:same3', 'reenter:unbounded', 'reenter:error', 'reenter:edit']
MUTATE_HOWS = ['mutate:off', 'mutate:on', 'mutate:setvar', 'mutate:clear']
EVENTS = ['callFunction', 'callVariable', 'callCellValue', 'callRangeValue']
FN_FORMS = ['F()', 'F(1)', 'F(1)+1', '1+F(1)', 'IFERROR(F(1),7)', 'ISERROR(F())', '{F(),1}', 'SUM(F(),1)', '-F()', 'F()&"a"', 'F()=F()',
            'F(F(1))', 'F()>1', 'IF(F(),1,2)', 'F(1,2;3,4)', 'F(,)']
VAR_FORMS = ['x', 'x+1', '1-x', '{x,1}', 'SUM(x)', '-x', 'x&"a"', 'x=1', 'x<x', 'IF(x,1,2)', 'IFERROR(x,7)', 'ISERROR(x)', 'x.y', 'ID(x)']
EVENT_FORMS = {'callFunction': ['SUM(1,2)', 'SUM(1,2)+1', 'IFERROR(SUM(1,2),7)', 'NOSUCH(1)', 'SUM(MAX(1,2),3)', 'ID(1)', '{SUM(1),2}'],
               'callVariable': ['a', 'a+1', 'IFERROR(a,7)', 'nosuch', 'TRUE', 'a+a', 'SUM(a,1)'],
               'callCellValue': ['A1', 'A1+1', 'IFERROR(A1,7)', 'SUM($A$1,b2)', '-A1', 'A1&A1'],
               'callRangeValue': ['A1:B2', 'SUM(A1:B2)+1', 'IFERROR(A1:B2,7)', 'SUM(B2:a1)', 'A1:B2+1', '$A$1:B$2=1']}
# the hostile-object cases are kept as fixed single-formula cases so that they can be listed verbatim
HOSTILE_CASES = [
    {'kind': 'host', 'where': 'fn', 'how': 'ret:hostile-class', 'items': ['F()']},
    {'kind': 'host', 'where': 'var', 'how': 'ret:hostile-class', 'items': ['x']},
    {'kind': 'host', 'where': 'listen:callVariable', 'how': 'raise:hostile-tb', 'items': ['a+1']},
    {'kind': 'host', 'where': 'fn', 'how': 'raise:hostile-tb', 'items': ['F()', 'F()+1', 'IFERROR(F(),1)']},
    {'kind': 'host', 'where': 'fn', 'how': 'ret:hostile-class', 'items': ['F()+1', 'IFERROR(F(),1)', '{F()}', 'SUM(F())']},
]


def _host_parser(where, how):
    """a fresh parser with the behaviour installed; the parser is also what re-entrant behaviours call"""
    p = _new_parser()
    p.set_variable('a', 3)
    p.set_function('ID', lambda *a: a[0] if a else None)
    depth = [0]
    total = [0]

    def act(setter=None):
        if how.startswith('ret:'):
            return _ret_value(how)
        if how.startswith('raise:'):
            raise _exc_of(how)
        if how.startswith('set:'):
            setter(_ret_value(how))
        elif how == 'settwice':
            setter(1)
            setter(_error_mod().NUM)
        elif how == 'setraise':
            setter(5)
            raise ValueError('#NULL!')
        elif how == 'setnothing':
            setter(None)
        elif how == 'setbadarity':
            setter()
        elif how == 'reenter:other':
            r = p.parse('MAX(1,2)+a')
            if setter is not None:
                setter(r['result'])
            return r['result']
        elif how == 'reenter:edit':
            # a sheet host: the referenced cell is blank (source ''), its record is annotated and emptied by the host
            r = p.parse('')
            v = r.get('result') if type(r) is dict else r
            if type(r) is dict:
                r['cell'] = 'A1'
                r.pop('result', None)
                r.pop('error', None)
            if setter is not None:
                setter(v)
            return v
        elif how == 'reenter:error':
            r = p.parse('1/0+')
            if setter is not None:
                setter(r)
            return r
        elif how == 'reenter:same3':
            depth[0] += 1
            try:
                if depth[0] <= 3:
                    r = p.parse(current[0])
                    if setter is not None:
                        setter(r['result'])
                    return r['result']
                return depth[0]
            finally:
                depth[0] -= 1
        elif how == 'reenter:unbounded':
            # re-enters the same formula without a depth bound of its own: the recursion ends with a RecursionError
            # somewhere inside; at most 1000 re-entries in all, so that the CALLBACK itself stays a callback that returns
            total[0] += 1
            if total[0] > 1000:
                return 'enough'
            r = p.parse(current[0])
            if setter is not None:
                setter(r['error'])
            return r['error']
        elif how == 'mutate:off':
            p.off(where.split(':', 1)[1] if ':' in where else 'callFunction', listener)
        elif how == 'mutate:on':
            depth[0] += 1
            if depth[0] < 50:
                p.on(where.split(':', 1)[1] if ':' in where else 'callFunction', listener)
        elif how == 'mutate:setvar':
            p.set_variable('a', _error_mod().NUM)
            p.set_function('SUM', lambda *a: 'shadowed')
            p.variables.pop('TRUE', None)
        elif how == 'mutate:clear':
            p._e.clear()
            p.variables.clear()
        elif how == 'noop':
            pass
        else:
            raise ValueError(how)
        return None

    current = ['']

    def listener(*args):
        return act(args[-1])

    if where == 'fn':
        p.set_function('F', lambda *a: act(None))
    elif where == 'var':
        p.set_variable('x', _ret_value(how))
    elif where.startswith('listen:'):
        p.on(where.split(':', 1)[1], listener)
    else:
        raise ValueError(where)
    return p, current


# ---- host behaviours that manipulate the parser's own subscriptions / bindings while they run (stream e)
#
# A behaviour is a small PROGRAM (plain JSON data, so that a failing case is its own replay):
#   {'init': [[op, event, hid], ...],         subscriptions made before parse is called (op = on | once)
#    'fns': {'F': hid, ...},                  custom functions bound before parse is called
#    'handlers': {hid: [action, ...], ...}}   what the callable of handler `hid` does each time it is called
# actions:  ['set', k]                 listener: setter(pool[k]); custom function: pool[k] is its return value
#           ['on' | 'once', ev, t]     parser.on/once(ev, t)
#           ['off', ev] / ['off', ev, t]   parser.off(ev) / parser.off(ev, t)
#           ['setvar', name, k]        parser.set_variable(name, pool[k])
#           ['setfn', name, t]         parser.set_function(name, t)
# ev   = an event name | 'same' (the event being delivered; 'callFunction' when the callable runs as a custom function)
# t    = 'self' (the very callable that is running: re-arming) | 'fresh' (a NEW callable with the same actions, which
#        in turn does the same) | hid (the shared callable of that handler) | ['const', k] (setfn only)
# name = a literal name | 'resolved' (the variable/function name of the delivery; 'a' / 'F' for cell and range events)
# Every callable returns normally.  All callables of one parser share ONE counter: after HOST_CAP calls they do nothing
# any more, so that the host is a host "that returns" whatever the implementation does.  On an implementation that
# delivers an emit to the listeners subscribed BEFORE the emit (a snapshot) every subscribed callable is called once per
# emit and the cap is never reached: see `subs_bound` (generated programs: at most SUBS_MAX_ON subscriptions per call,
# SUBS_MAX_INIT initial subscriptions, formulas of at most SUBS_MAX_EMITS emits -> at most 120 calls and about 5*10^4
# steps, 5 % of the step budget).  HOST_CAP calls cost more than the step budget of any formula of this stream (a call
# that subscribes is at least 5 counted events: the loop jumps of emit and of the callable, the entries of the callable, of
# `on` and of the Listener constructor; measured: 11),
# so an implementation that keeps delivering to listeners subscribed during the delivery overruns the step budget before
# the host stops re-arming.  (C01_HOST_CAP / C01_STEP_BASE / C01_WALL_BASE in the environment override the three constants:
# used only to exercise the wall-clock guard of the farm, see the self-test notes in the docstring.)

HOST_CAP = int(os.environ.get('C01_HOST_CAP', '0') or 0) or 300000
SUBS_MAX_ON = 2          # on/once actions per handler in generated programs
SUBS_MAX_INIT = 2        # initial subscriptions in generated programs
SUBS_MAX_EMITS = 4       # emits (references + function calls) of the formulas run with generated programs
SUBS_MAX_ACTIONS = 4     # actions per handler in generated programs


def subs_bound(n0=SUBS_MAX_INIT, a=SUBS_MAX_ON, e=SUBS_MAX_EMITS, acts=SUBS_MAX_ACTIONS):
    """generated programs under snapshot delivery -> (calls, steps) upper bounds for one parse: an emit calls at most the n
    subscribed callables and one custom function, each call makes at most `a` subscriptions; an action costs at most
    ~15 events, except `off`, which walks the listener list of its event (at most acts - a of them when the list grows)"""
    n, calls, steps = n0, 0, 0
    for _ in range(e):
        c = n + 1
        n = n + a * c
        calls += c
        steps += c * (15 * acts + (acts - a) * n)
    return calls, steps


def _delivery(args):
    """which event is being delivered to a callable called with `args` -> (event | None, resolved name | None)"""
    n = len(args)
    if n >= 2 and callable(args[-1]):
        if n == 3:
            return ('callFunction', args[0]) if type(args[0]) is str else ('callRangeValue', None)
        if n == 2:
            return ('callVariable', args[0]) if type(args[0]) is str else ('callCellValue', None)
    return None, None


def _subs_parser(prog):
    """a fresh parser with the program installed -> (parser, state)"""
    p = _new_parser()
    values = pool()
    p.set_variable('a', 3)
    p.set_variable('b', 'txt')
    p.set_function('F', lambda *a: a[0] if a else None)      # unless the program binds F itself
    state = {'calls': 0, 'made': 0}
    handlers = prog['handlers']
    shared = {}

    def make(hid, fname=None):
        state['made'] += 1
        acts = handlers[hid]

        def cb(*args):
            state['calls'] += 1
            if state['calls'] > HOST_CAP:
                return None                    # the host's own bound
            ev, resolved = _delivery(args)
            setter = args[-1] if ev is not None else None
            if ev is None:
                ev, resolved = 'callFunction', fname or 'F'
            ret = None
            for a in acts:
                op = a[0]
                if op == 'set':
                    if setter is not None:
                        setter(values[a[1]])
                    else:
                        ret = values[a[1]]
                elif op == 'on':
                    p.on(ev if a[1] == 'same' else a[1], target(a[2]))
                elif op == 'once':
                    p.once(ev if a[1] == 'same' else a[1], target(a[2]))
                elif op == 'off':
                    if len(a) == 2:
                        p.off(ev if a[1] == 'same' else a[1])
                    else:
                        p.off(ev if a[1] == 'same' else a[1], target(a[2]))
                elif op == 'setvar':
                    p.set_variable((resolved if ev in ('callVariable', 'callFunction') else 'a') if a[1] == 'resolved' else a[1],
                                   values[a[2]])
                elif op == 'setfn':
                    p.set_function((resolved if ev == 'callFunction' else 'F') if a[1] == 'resolved' else a[1], target(a[2]))
                else:
                    raise ValueError(a)
            return ret

        def target(t):
            if t == 'self':
                return cb
            if t == 'fresh':
                return make(hid, fname)
            if type(t) is list:
                v = values[t[1]]
                return lambda *a: v
            return get(t)
        return cb

    def get(hid):
        if hid not in shared:
            shared[hid] = make(hid)
        return shared[hid]

    for name, hid in sorted(prog.get('fns', {}).items()):
        p.set_function(name, make(hid, name))
    for op, ev, hid in prog['init']:
        getattr(p, op)(ev, get(hid))
    return p, state


def describe_subs(prog):
    return json.dumps(prog, sort_keys=True)


# (formula, upper bound of the number of emits it makes - all four events counted, every function call is one) with one and with several
# references; the structured scenarios run all of them, generated programs those of at most SUBS_MAX_EMITS emits
SUB_FORMS = {
    'callFunction': [('SUM(1,2)', 1), ('F(1)', 1), ('SUM(MAX(1,2),MIN(3,4))', 3), ('F(F(1))+F(2)', 3), ('IFERROR(NOSUCH(1),F())', 1),
                     ('{SUM(1),F()}', 2)],
    'callVariable': [('a', 1), ('a+a', 2), ('a&b&a', 3), ('IF(TRUE,a,b)', 4), ('nosuch', 1), ('SUM(a,b,a)', 4)],
    'callCellValue': [('A1', 1), ('B2+20', 1), ('A1&A1&A1', 3), ('SUM($A$1,b2,C3)', 4), ('IFERROR(A1,B2)', 3), ('A1+B2*2', 2)],
    'callRangeValue': [('A1:B2', 1), ('SUM(A1:B2)+SUM(A1:B2)', 4), ('A1:B2&A1:A1&B1:B2', 3), ('SUM(B2:a1,$A$1:B$2)', 3),
                       ('IFERROR(A1:B2,7)', 2)],
}
SUB_MIXED = [('A1+a+SUM(A1:B2)', 4), ('F(a,A1)&SUM(A1:B2)', 5), ('IF(a,A1,B2)+F()', 5), ('a+A1+a+A1', 4), ('F(A1:B2,a)+A1', 4),
             ('SUM(a,A1)+MAX(b,B2)', 6), ('F()+F()+a', 3), ('A1:B2+a+a', 3), ('x+x', 2), ('F(a)+A1', 3), ('SUM(A1:B2,a)', 3)]


def sub_scenarios(ev, k, k2):
    """the structured part of stream (e): every kind of manipulation, from inside the delivery of event `ev`"""
    S = ['set', k]
    others = [e for e in EVENTS if e != ev]
    on1 = [['on', ev, 'h0']]
    on2 = [['on', ev, 'h0'], ['on', ev, 'h1']]
    out = [
        ('rearm-self', on1, {'h0': [S, ['on', 'same', 'self']]}, {}),
        ('rearm-self-first', on1, {'h0': [['on', 'same', 'self'], S]}, {}),
        ('rearm-fresh', on1, {'h0': [S, ['on', 'same', 'fresh']]}, {}),
        ('rearm-pingpong', on1, {'h0': [S, ['on', 'same', 'h1']], 'h1': [['on', 'same', 'h0']]}, {}),
        ('rearm-twice', on1, {'h0': [['on', 'same', 'self'], ['on', 'same', 'fresh'], S]}, {}),
        ('rearm-named', on1, {'h0': [S, ['on', ev, 'h0']]}, {}),
        ('once-self', [['once', ev, 'h0']], {'h0': [S, ['once', 'same', 'self']]}, {}),
        ('once-fresh', [['once', ev, 'h0']], {'h0': [S, ['once', 'same', 'fresh']]}, {}),
        ('once-then-on', [['once', ev, 'h0']], {'h0': [['on', 'same', 'self'], S]}, {}),
        ('on-then-once', on1, {'h0': [['once', 'same', 'self'], S]}, {}),
        ('on-others', on1, {'h0': [S] + [['on', e, 'h0'] for e in others]}, {}),
        ('on-others-fresh', on1, {'h0': [['on', others[0], 'fresh'], ['on', others[1], 'h1'], S], 'h1': [['set', k2], ['on', 'same', 'self']]}, {}),
        ('off-self', on2, {'h0': [S, ['off', 'same', 'self']], 'h1': [['set', k2]]}, {}),
        ('off-all', on2, {'h0': [['off', 'same']], 'h1': [S]}, {}),
        ('off-other', on2, {'h0': [['off', 'same', 'h1'], S], 'h1': [['set', k2], ['off', 'same', 'h0']]}, {}),
        ('off-others-events', on1 + [['on', others[0], 'h1']], {'h0': [S] + [['off', e] for e in others], 'h1': [['off', ev, 'h0']]}, {}),
        ('off-then-on', on1, {'h0': [['off', 'same', 'self'], ['on', 'same', 'self'], S]}, {}),
        ('on-then-off', on1, {'h0': [['on', 'same', 'fresh'], ['off', 'same', 'self'], S]}, {}),
        ('offall-then-on', on2, {'h0': [['off', 'same'], ['on', 'same', 'self'], S], 'h1': [['set', k2]]}, {}),
        ('on-then-offall', on1, {'h0': [S, ['on', 'same', 'self'], ['off', 'same']]}, {}),
        ('once-off-self', [['once', ev, 'h0'], ['on', ev, 'h1']], {'h0': [['off', 'same', 'self'], S], 'h1': [['off', 'same', 'h0'], ['once', 'same', 'h0']]}, {}),
        ('setvar-resolved', on1, {'h0': [['setvar', 'resolved', k], ['set', k2]]}, {}),
        ('setvar-rearm', on1, {'h0': [['setvar', 'resolved', k], ['on', 'same', 'self']]}, {}),
        ('setfn-resolved', on1, {'h0': [['setfn', 'resolved', ['const', k]], ['set', k2]]}, {}),
        ('setfn-self-rearm', on1, {'h0': [['setfn', 'resolved', 'self'], ['on', 'same', 'fresh'], S]}, {}),
        ('fn-arms', [], {'h0': [['on', ev, 'h1'], S], 'h1': [['set', k2], ['on', 'same', 'self']]}, {'F': 'h0'}),
        ('fn-rearms-itself', on1, {'h0': [['on', 'same', 'self'], ['setfn', 'F', 'self'], S]}, {'F': 'h0'}),
    ]
    return [(name, {'init': init, 'handlers': hs, 'fns': fns}) for name, init, hs, fns in out]


def gen_sub_prog(rng):
    """a seeded program: 1..3 handlers of 1..4 actions, 1..2 initial subscriptions, sometimes a custom function"""
    hids = ['h%d' % i for i in range(rng.choice([1, 1, 2, 3]))]
    handlers = {}
    for h in hids:
        acts = []
        n_on = 0
        for _ in range(rng.randrange(1, 5)):
            r = rng.random()
            ev = rng.choice(['same', 'same', 'same', 'same'] + EVENTS)
            if r < 0.45:
                if n_on < SUBS_MAX_ON:
                    n_on += 1
                    acts.append([rng.choice(['on', 'on', 'on', 'once']), ev, rng.choice(['self', 'self', 'fresh', 'fresh'] + hids)])
            elif r < 0.60:
                acts.append(['off', ev] if rng.random() < 0.3 else ['off', ev, rng.choice(['self'] + hids)])
            elif r < 0.78:
                acts.append(['set', rng.randrange(NPOOL)])
            elif r < 0.90:
                acts.append(['setvar', rng.choice(['resolved', 'resolved', 'a', 'b', 'SUM', 'TRUE']), rng.randrange(NPOOL)])
            else:
                acts.append(['setfn', rng.choice(['resolved', 'resolved', 'F', 'SUM', 'a']),
                             rng.choice(['self', 'fresh'] + hids + [['const', rng.randrange(NPOOL)]])])
        handlers[h] = acts
    init = [[rng.choice(['on', 'on', 'on', 'once']), rng.choice(EVENTS), rng.choice(hids)]
            for _ in range(rng.randrange(1, SUBS_MAX_INIT + 1))]
    fns = {'F': rng.choice(hids)} if rng.random() < 0.35 else {}
    # handlers that nothing subscribes or binds are dead code: drop them (keeps replays readable)
    live, todo = set(), [h for _, _, h in init] + list(fns.values())
    while todo:
        h = todo.pop()
        if h not in live:
            live.add(h)
            todo += [a[-1] for a in handlers[h] if a[0] in ('on', 'once', 'off', 'setfn') and type(a[-1]) is str and a[-1] in handlers]
    return {'init': init, 'handlers': dict((h, handlers[h]) for h in hids if h in live), 'fns': fns}


def sub_items(rng, prog):
    """formulas for a program: those of the events it is subscribed to at the start, and mixed ones"""
    evs = sorted(set(e for _, e, _ in prog['init'])) or ['callFunction']
    fs = []
    for e in evs:
        fs += rng.sample([f for f, n in SUB_FORMS[e] if n <= SUBS_MAX_EMITS], 3)
    fs += rng.sample([f for f, n in SUB_MIXED if n <= SUBS_MAX_EMITS], 3)
    return fs


# the minimal witnesses of changes this stream once missed (regression cases; the generators reach the class on their own)
SUBS_CORPUS = [
    # emit walks the live listener list: a listener that subscribes itself again for the event being delivered
    {'kind': 'subs', 'name': 'corpus:rearm-self:callCellValue',
     'prog': {'init': [['on', 'callCellValue', 'h0']], 'handlers': {'h0': [['set', 0], ['on', 'callCellValue', 'h0']]}, 'fns': {}},
     'items': ['A1', 'B2+20']},
]


# ----------------------------------------------------------------------------- items of a case

def fn_formula(name, arity, idx):
    args = []
    for _ in range(arity):
        args.append(POOL_NAMES[idx % NPOOL])
        idx //= NPOOL
    return name + '(' + ','.join(args) + ')'


def fn_indices(case):
    k = case['arity']
    if case.get('sel') is not None:
        return list(case['sel'])
    if case.get('part') is not None:
        lo, hi = case['part']
        return range(lo, hi)
    return range(NPOOL ** k)


def long_formula(case):
    return case['pre'] + case['sep'].join([case['unit']] * case['n']) + case['post']


def n_items(case):
    k = case['kind']
    if k == 'fn':
        return len(fn_indices(case))
    if k == 'long':
        return 1
    return len(case['items'])


def item(case, i):
    """-> (setup key, formula)"""
    k = case['kind']
    if k == 'fn':
        return 'pool', fn_formula(case['name'], case['arity'], fn_indices(case)[i])
    if k == 'long':
        return 'soup', long_formula(case)
    if k == 'wf':
        return case['src'], case['items'][i]
    if k == 'host':
        return ('host', case['where'], case['how']), case['items'][i]
    if k == 'subs':
        return ('subs', case['prog']), case['items'][i]
    return case.get('setup', 'soup'), case['items'][i]


def cost(case):
    k = case['kind']
    if k == 'long':
        return 10 ** 7 + case['n'] * 100
    if k == 'strings' and case.get('stream') in ('literal-pow', 'nest', 'literal'):
        return 10 ** 7
    return n_items(case) * (3 if k == 'fn' else 10)


# ----------------------------------------------------------------------------- worker side

def _run_case(case, skip, prog, tid, meter):
    """all calls of one case -> summary (plain data)"""
    n = n_items(case)
    keep = bool(case.get('cmp'))
    recs = [None] * n if keep else None
    viol = []
    codes = {}
    steps_max = 0
    steps_max_at = None
    frac_max = 0
    frac_at = None
    mutated = 0
    calls = 0
    host_calls = 0
    idxs = fn_indices(case) if case['kind'] == 'fn' else None
    if case['kind'] == 'fn':
        _counter.pop(case['name'], None)
    for i in range(n):
        if i in skip:
            continue
        setup, formula = item(case, i)
        prog[4] = time.process_time()
        prog[2] = time.time()
        prog[1] = i
        prog[3] = wall_limit(formula)
        prog[0] = tid
        hstate = None
        if isinstance(setup, tuple) and setup[0] == 'subs':
            p, hstate = _subs_parser(setup[1])
        elif isinstance(setup, tuple):
            p, current = _host_parser(setup[1], setup[2])
            current[0] = formula
        else:
            p = _setup(setup)
        calls += 1
        msg = None
        r = None
        meter.start(step_limit(formula))
        try:
            try:
                r = p.parse(formula)
            finally:
                steps = meter.stop()
        except _Budget:
            msg = 'does not return within the step budget: more than %d steps (%s) for %d characters' % (
                step_limit(formula), meter.unit, len(formula))
        except (KeyboardInterrupt, SystemExit):
            raise
        except BaseException as e:  # noqa: anything escaping parse is a violation of (v)
            msg = 'an exception escaped parse: %s(%s)' % (type(e).__name__, _safe_repr(getattr(e, 'args', None), 80))
        else:
            msg = judge(r)
            if meter.fired[0]:
                msg = 'does not return within the step budget: more than %d steps (%s) for %d characters (it returned after %d)' % (
                    step_limit(formula), meter.unit, len(formula), steps)
            if steps > steps_max:
                steps_max = steps
                steps_max_at = _show_formula(formula, 80)
            if steps * 1000 > frac_max * step_limit(formula):
                frac_max = steps * 1000 // step_limit(formula) + 1
                frac_at = _show_formula(formula, 80)
        if hstate is not None:
            if hstate['calls'] > host_calls:
                host_calls = hstate['calls']
            if msg is not None:
                msg += ' [the callables of the host program had been called %d times when the call ended]' % hstate['calls']
        if msg is not None:
            if len(viol) < 8:
                viol.append([i, _show_formula(formula), msg])
            else:
                viol[-1][2] = msg + ' (and further violations in this shard)'
        elif type(r) is dict:
            e = r.get('error')
            codes[e] = codes.get(e, 0) + 1
            if keep:
                recs[i] = (e, _sanitize(r.get('result')))
        if type(r) is dict:
            # the record now belongs to the caller; a caller that edits it must not reach any later evaluation
            # (a record object handed out twice would come back without its entries)
            r.clear()
            r['edited-by-the-caller'] = True
        if setup == 'pool' or setup == 'soup':
            mutated += _repair_pool(p)
        if hstate is not None and msg is not None and 'budget' in msg:
            break       # the other formulas of a `subs` shard run the same host program: one overrun is the verdict of the shard
    prog[2] = 0.0
    out = {'n': calls, 'viol': viol, 'codes': codes, 'steps_max': steps_max, 'steps_max_at': steps_max_at, 'mutated': mutated,
           'frac_max': frac_max, 'frac_at': frac_at, 'host_calls': host_calls}
    if case['kind'] == 'fn':
        out['dispatched'] = _counter.get(case['name'], 0)
    if keep:
        out['recs'] = recs
    return out


def _worker_main(conn, prog):
    try:
        signal.signal(signal.SIGINT, signal.SIG_DFL)
        sys.setrecursionlimit(1000)
        meter = StepMeter()
        while True:
            msg = conn.recv()
            if msg is None:
                break
            tid, case, skip = msg
            try:
                summ = _run_case(case, skip, prog, tid, meter)
            except (KeyboardInterrupt, SystemExit):
                raise
            except BaseException:  # noqa: the harness's own fault
                import traceback
                summ = {'harness_error': traceback.format_exc()}
            conn.send((tid, summ))
    except (EOFError, OSError):
        pass
    finally:
        os._exit(0)


# ----------------------------------------------------------------------------- parent side: the farm

class _Worker(object):
    def __init__(self, ctx):
        self.prog = ctx.RawArray('d', 5)
        self.conn, child = ctx.Pipe()
        self.proc = ctx.Process(target=_worker_main, args=(child, self.prog), daemon=True)
        self.proc.start()
        child.close()
        self.tid = None

    def kill(self):
        try:
            self.proc.kill()
            self.proc.join(5)
        except Exception:
            pass
        try:
            self.conn.close()
        except Exception:
            pass


def _abandoned(case, viol):
    out = {'n': len(viol), 'viol': list(viol), 'codes': {}, 'steps_max': 0, 'steps_max_at': None, 'mutated': 0, 'frac_max': 0,
           'frac_at': None, 'host_calls': 0, 'abandoned': True}
    if case['kind'] == 'fn':
        out['dispatched'] = out['n']
    return out


def _requeue(cases, tid, extra, results, pending):
    """a call of case `tid` did not return and its worker is gone: run the rest of the shard in a new worker - except for a
    `subs` shard, whose formulas all run the same host program: there the call that did not return is the verdict"""
    if cases[tid]['kind'] == 'subs':
        results[tid] = _abandoned(cases[tid], extra[tid])
        results[tid]['abandoned'] = False
    elif len(extra[tid]) >= 3:
        # three calls of this case did not return: the verdict stands, the rest of the case is not waited for
        results[tid] = _abandoned(cases[tid], extra[tid])
    else:
        pending.insert(0, tid)


def _cpu_seconds(pid):
    """user + system time the process has consumed so far (None if it cannot be read)"""
    try:
        with open('/proc/%d/stat' % pid) as f:
            st = f.read()
        fields = st[st.rindex(')') + 2:].split()
        return (int(fields[11]) + int(fields[12])) / float(os.sysconf('SC_CLK_TCK'))
    except (OSError, ValueError, IndexError):
        return None


def run_farm(cases, deadline_s):
    """run the cases in forked workers -> list of summaries (same order)"""
    common.load_repo()
    import hotxlfp  # noqa: F401  (loaded before the fork)
    ctx = multiprocessing.get_context('fork')
    n = len(cases)
    results = [None] * n
    skips = [set() for _ in range(n)]
    extra = [[] for _ in range(n)]
    pending = sorted(range(n), key=lambda i: -cost(cases[i]))
    nw = max(1, min(WORKERS, n))
    idle = [_Worker(ctx) for _ in range(nw)]
    busy = []
    t_end = time.time() + deadline_s
    try:
        while pending or busy:
            while pending and idle:
                w = idle.pop()
                tid = pending.pop(0)
                w.tid = tid
                w.prog[2] = 0.0
                w.prog[0] = -1
                w.conn.send((tid, cases[tid], skips[tid]))
                busy.append(w)
            ready = _mpc.wait([w.conn for w in busy], timeout=0.2)
            for w in list(busy):
                if w.conn not in ready:
                    continue
                try:
                    tid, summ = w.conn.recv()
                except (EOFError, OSError):
                    # the worker process died while running an item: parse did not return normally
                    i = int(w.prog[1])
                    rc = w.proc.exitcode
                    w.kill()
                    busy.remove(w)
                    _, formula = item(cases[w.tid], i)
                    extra[w.tid].append([i, _show_formula(formula), 'the worker process died (exit code %s) during this call: '
                                         'parse did not return' % rc])
                    skips[w.tid].add(i)
                    _requeue(cases, w.tid, extra, results, pending)
                    idle.append(_Worker(ctx))
                    continue
                if 'harness_error' in summ:
                    raise RuntimeError('C01 worker failed on %r:\n%s' % (cases[tid], summ['harness_error']))
                summ['viol'] = extra[tid] + summ['viol']
                summ['n'] += len(extra[tid])
                results[tid] = summ
                busy.remove(w)
                w.tid = None
                idle.append(w)
            now = time.time()
            for w in list(busy):
                t0 = w.prog[2]
                if t0 and int(w.prog[0]) == w.tid and now - t0 > w.prog[3]:
                    # the wall-clock budget is over.  On a loaded machine that alone says little, so the verdict is taken
                    # on the processor time the call itself has used: over budget -> it does not return in bounded time;
                    # (almost) none -> it is blocked, not working (a deadlock does not return either); otherwise it is
                    # still computing on a starved processor and is given up to 10 budgets of wall-clock
                    used = _cpu_seconds(w.proc.pid)
                    used = None if used is None else used - w.prog[4]
                    elapsed = now - t0
                    if used is not None and used <= w.prog[3] and used >= 0.02 * elapsed and elapsed <= 10 * w.prog[3]:
                        continue
                    i = int(w.prog[1])
                    limit = w.prog[3]
                    w.kill()
                    busy.remove(w)
                    _, formula = item(cases[w.tid], i)
                    extra[w.tid].append([i, _show_formula(formula), 'does not return within the wall-clock budget of %.0f s '
                                         '(%d characters; the process was killed)' % (limit, len(formula))])
                    skips[w.tid].add(i)
                    _requeue(cases, w.tid, extra, results, pending)
                    idle.append(_Worker(ctx))
            if time.time() > t_end:
                if not (any(extra) or any(r is not None and r['viol'] for r in results)):
                    raise RuntimeError('C01 farm exceeded its overall deadline of %d s (%d cases left)' % (
                        deadline_s, len(pending) + len(busy)))
                # violations have been found and the calls that do not return have used up the time: the verdict stands,
                # the cases not finished are reported as abandoned (0 calls, plus the violations already attributed to them)
                left = [w.tid for w in busy] + pending
                sys.stderr.write('C01: overall deadline of %d s reached with violations on record; %d cases abandoned\n' % (
                    deadline_s, len(left)))
                for tid in left:
                    results[tid] = _abandoned(cases[tid], extra[tid])
                pending = []
                for w in busy:
                    w.kill()
                busy = []
    finally:
        for w in idle + busy:
            try:
                if w in idle:
                    w.conn.send(None)
            except Exception:
                pass
        for w in idle + busy:
            w.kill()
    return results


# ----------------------------------------------------------------------------- generators

TOKEN_TEXTS = {
    'WHITESPACE': ['\t', '\n', '  ', '\u00a0', '\u3000', '\r\n'],
    'STRING': ['"a"', "'b'", '""', "''", '"x\\"y"', '"a b"', "'it''s'", '"#N/A"'],
    'FUNCTION': ['SUM(', 'IF(', 'NOSUCH(', 'a.b(', 'PI(', 'ISERROR(', 'IFERROR(', 'T(', 'ERROR.TYPE(', '.(', 'ID('],
    'XLERROR': ['#N/A', '#DIV/0!', '#NAME?', '#REF!', '#NULL!', '#NUM!', '#VALUE!', '#ERROR!', '#GETTING', '#FOO', '#1', '#A/?'],
    'ABSOLUTE_CELL': ['$A$1', '$zz$99'],
    'MIXED_CELL': ['A$1', '$B2'],
    'RELATIVE_CELL': ['A1', 'b2', 'ZZZ99999', 'a0'],
    'VARIABLE': ['TRUE', 'FALSE', 'NULL', 'va', 'vm', 'vn', 'vi', 'x_y', '_', 'nosuch', 'E'],
    'NUMBER': ['0', '1', '42', '007', '12345678901234567890'],
    'LBRACKET': ['{'], 'RBRACKET': ['}'], 'AMP': ['&'], 'SINGLESPACE': [' '], 'DECIMAL': ['.'], 'COLON': [':'],
    'SEMICOLON': [';'], 'COMMA': [','], 'BACKSLASH': ['\\'], 'MULT': ['*'], 'DIV': ['/'], 'MINUS': ['-'], 'PLUS': ['+'],
    'CARET': ['^'], 'LPAREN': ['('], 'RPAREN': [')'], 'GREATER': ['>'], 'LESS': ['<'], 'GREATEREQ': ['>='], 'LESSEQ': ['<='],
    'NOTEQUAL': ['<>'], 'QUOTATION': ['"'], 'APOSTROPHE': ["'"], 'EXCLAMATION': ['!'], 'EQUAL': ['='], 'PERCENT': ['%'], 'HASH': ['#'],
}
ILLEGAL = ['§', '@', '~', '?', '[', ']', '|', '`', '$', 'é', '\x00', '\x7f', '😀', '\ud800', '١', '１']


def _check_token_coverage():
    common.load_repo()
    from hotxlfp.grammarparser import lexer
    missing = [t for t in lexer.tokens if t not in TOKEN_TEXTS]
    if missing:
        raise RuntimeError('C01: lexer token classes without a text in the soup alphabet: %s' % missing)


def gen_soup(rng):
    classes = list(TOKEN_TEXTS)
    n = rng.choice([1, 1, 2, 2, 3, 3, 4, 5, 6, 8, 12, 20])
    heavy = rng.random() < 0.5
    parts = []
    for _ in range(n):
        r = rng.random()
        if r < 0.04:
            parts.append(rng.choice(ILLEGAL))
        elif heavy and r < 0.6:
            # operand/operator-rich: more likely to get deep into the grammar
            parts.append(rng.choice(['1', 'va', 'A1', '"s"', '+', '-', '*', '/', '&', '=', '(', ')', ',', ';', '{', '}', 'SUM(', 'IF(', '#N/A',
                                     'vi', 'vm', 'vn', '<', '>=', '%', '^', '.', ':']))
        else:
            parts.append(rng.choice(TOKEN_TEXTS[rng.choice(classes)]))
    return ''.join(parts)


def gen_brackets(rng):
    n = rng.randrange(1, 14)
    return ''.join(rng.choice(['(', ')', '{', '}', 'SUM(', '1', ',', ';', '"', "'", '-', '+1']) for _ in range(n))


def wf_formulas(rng, n, maxd):
    """well-formed formulas from the C04 and C08 generators -> [(src, formula)]"""
    out = []
    for _ in range(n):
        if rng.random() < 0.55:
            t = c04.gen_top(rng, rng.randrange(1, maxd + 1))
            for _, f in c04._forms({'kind': 'tree', 't': t, 'ws': rng.randrange(1 << 30)}):
                out.append(('c04', f))
        else:
            t = c08.gen(rng, rng.randrange(1, maxd + 1), rng.choice([0.15, 0.3, 0.6]))
            body = c08.render(t)
            out.append(('c08', rng.choice(c08.WRAPS) % body))
    return out


def mutate(rng, f):
    if not f:
        return f
    r = rng.random()
    i = rng.randrange(len(f))
    if r < 0.25:
        return f[:i]                                    # truncated
    if r < 0.40:
        return f[i:]                                    # suffix
    if r < 0.60:
        return f[:i] + f[i + 1:]                        # one character deleted
    if r < 0.70:
        j = rng.randrange(len(f))
        i, j = min(i, j), max(i, j)
        return f[:i] + f[j:]                            # a slice deleted
    if r < 0.78:
        return f[:i] + f[i] + f[i:]                     # one character doubled
    if r < 0.88:
        ins = rng.choice(['(', ')', '{', '}', ',', ';', '"', "'", '#', '$', '.', ':', '%', '^', ' ', '!', '§', '\\', '<>', '1', 'A1'])
        return f[:i] + ins + f[i:]
    if r < 0.95 and len(f) > 1:
        j = rng.randrange(len(f))
        l = list(f)
        l[i], l[j] = l[j], l[i]
        return ''.join(l)
    return f + f


def gen_unicode(rng):
    def ch():
        r = rng.random()
        if r < 0.25:
            return chr(rng.randrange(32, 127))
        if r < 0.35:
            return chr(rng.choice(list(range(0, 32)) + [127, 133]))
        if r < 0.45:
            return chr(rng.randrange(128, 256))
        if r < 0.55:
            return chr(rng.choice([0x1c, 0x1d, 0x1e, 0x1f, 0x85, 0xa0, 0x1680, 0x2000, 0x2009, 0x200b, 0x2028, 0x2029, 0x202f, 0x205f,
                                   0x3000, 0xfeff, 0x200e, 0x202e]))
        if r < 0.63:
            return chr(rng.choice([0x0661, 0x0969, 0xff11, 0x00b2, 0x2460, 0x0bf0, 0x1d7ce, 0x216b, 0x00bd]))   # digits that are not [0-9]
        if r < 0.70:
            return chr(rng.randrange(0xd800, 0xe000))    # lone surrogate
        if r < 0.80:
            return chr(rng.randrange(0x10000, 0x110000))
        if r < 0.88:
            return rng.choice(['\u0130', '\u00df', '\u01c5', '\u0345', '\ufb01', '\u212a', '\u017f', '\u0301', '\u1e9e'])   # case-mapping oddities
        c = rng.randrange(0x100, 0xffff)
        return chr(c)
    n = rng.choice([1, 1, 2, 3, 5, 8, 13, 40])
    s = ''.join(ch() for _ in range(n))
    r = rng.random()
    if r < 0.35:
        return s
    tmpl = rng.choice(['"%s"', "'%s'", 'SUM(%s)', '%s+1', '1+%s', '%s(1)', '"a"&"%s"', 'LEN("%s")', '{%s}', '#%s', '%s1', 'A%s1', '$%s$1',
                       'UPPER("%s")', 'va%s', '1%s2', 'IF(%s,1,2)', '%s:%s', '.%s', 'TRIM("%s")&va'])
    return tmpl.replace('%s', s)


LITERALS = ['0', '007', '1.5', '.5', '5.', '1..2', '1.2.3', '2^3', '2^0', '0^0', '2^-1', '2^3^2', '2^3.5', '2.5^2', '50%', '50%%', '5%5', '1e5',
            '1E5', '1e', '1e-5', '0x10', '1_000', '1,5', '9' * 400, '9' * 400 + '.5', '.' + '9' * 400, '9' * 5000, '9' * 5000 + '+1',
            '-' + '9' * 5000, '2^1024', '10^400', '10^400*1.5', '1.5*10^400', '10^400/3', '(10^400)&""', 'SUM(10^400,1.5)', '10^400=10^400',
            '9^99999', '99999^99999', '-(9^99999)', '0.0^0', '0^00', '1%' + '+1%' * 50, '1' + '0' * 308 + '.0', '1' + '0' * 309 + '.0',
            '.' + '0' * 400 + '1', '1' + '0' * 309 + '%', '00000000000000000000001', '1.' + '0' * 5000, 'ROUND(' + '9' * 400 + ',2)',
            'TEXT(' + '9' * 400 + ',"0")', '1/' + '9' * 400, '"' + '9' * 5000 + '"+1']
# power of two literals: computed exactly the exponent's DIGITS would drive time and memory exponentially (9^99999999 did
# not return before /repo c22ca45); from 2^1024 on the production now answers #NUM! at once - kept as regressions, each
# one a case of its own so that an overrun is attributed to it
LITERAL_POW = ['9^99999999', '-(9^99999999)', 'SUM(1,9^99999999)', '2^' + '9' * 40, '9' * 40 + '^' + '9' * 40, '3^1023', '99^170']

NEST_SHAPES = [('(', '1', ')'), ('{', '1', '}'), ('SUM(', '1', ')'), ('IF(1,', '1', ')'), ('-', '1', ''), ('(', '', ''), ('', '', ')'),
               ('{', '', ''), ('', '1', '}'), ('SUM(', '1', ''), ('"', '', ''), ('', '1', '+1'), ('', '1', '&1'), ('', '1', '=1'),
               ('ISERROR(', '1/0', ')'), ('IFERROR(', '#N/A', ',1)'), ('-(', '1', ')'), ('{1,', '2', '}'), ('SUM({', '1', '})'),
               ('ID(', 'va', ')'), ('(', 'A1:B2', ')'), ('', '1', '%'), ('', 'a', '.a'), ('(', '1', ')' * 2)]

LONG_SHAPES = [  # (pre, unit, sep, post, quadratic in the lexer?)
    ('1', '+1', '', '', False), ('SUM(', '1', ',', ')', False), ('"', 'a', '', '"', False), ('', 'a', '', '', True),
    ('', 'a1', '', '', False), ('', '-', '', '1', False), ('', 'é', '', '', False), ('', '1 ', '', '', False),
    ('', '"', '', '', False), ('"', '\\"', '', '', False), ("'", 'a', '', '', False), ('', '#', '', '', False),
    ('', '#A', '', '', False), ('', ' ', '', '', False), ('', '1', '', '', False), ('', 'a', '.', '', True),
    ('', 'a.', '', '(', False), ('', 'A', '', '$1', True), ('$', 'A', '', '', False), ('{', '1', ';', '}', False),
    ('', '\n', '', '1', False), ('', '1,', '', '', False), ('SUM(', 'va', ';', ')', False), ('', '\ud800', '', '', False)]


def _chunks(lst, n):
    for i in range(0, len(lst), n):
        yield lst[i:i + n]


_pending = []
_results = {}
_tier = ['quick']


def _key(case):
    return json.dumps(case, sort_keys=True)


def redos_inputs():
    res = []
    units = ['\\a', '\\"', "\\'", '\\\\', 'a', 'A1', '$A', 'a.', '1.', '#A', '""', "''", '(', '-', 'a_', '.a', '%', '<', '<>', ' ', 'é']
    pres = ['"', "'", '', '#', '$', 'LEN("C:', "T('", 'A', '1', '"a', 'SUM(']
    posts = ['', '!', '(', ')', '$']
    for n in (24, 40, 64):
        for pre in pres:
            for u in units:
                for post in posts:
                    res.append(pre + u * n + post)
    for n in (500, 3000):
        for pre in ('"', "'", '', '#'):
            for u in units:
                res.append(pre + u * n)
    return res


def cases(rng, ctx):
    thorough = ctx['tier'] == 'thorough'
    _tier[0] = ctx['tier']
    scale = ctx['scale']
    common.load_repo()
    from hotxlfp import formulas
    _check_token_coverage()
    out = []

    # ---- (a) strings: soups, brackets, well-formed formulas and their mutants, nesting, literals
    n_soup = (30000 if thorough else 3000) * scale
    soups = [gen_soup(rng) for _ in range(n_soup)] + [gen_brackets(rng) for _ in range(n_soup // 6)]
    soups += [''.join(t) for cls in TOKEN_TEXTS.values() for t in cls] + ILLEGAL + ['', ' ', '=', '=1', '=1+1']
    for ch in _chunks(soups, 100):
        out.append({'kind': 'strings', 'stream': 'soup', 'items': ch})
    wfs = wf_formulas(rng, (4000 if thorough else 500) * scale, 7 if thorough else 5)
    for src in ('c04', 'c08'):
        fs = [f for s, f in wfs if s == src]
        for ch in _chunks(fs, 100):
            out.append({'kind': 'wf', 'src': src, 'items': ch, 'cmp': True})
    muts = []
    for s, f in wfs:
        for _ in range(3):
            muts.append(mutate(rng, f))
    for ch in _chunks(muts, 100):
        out.append({'kind': 'strings', 'stream': 'mutant', 'items': ch})
    depths = [1, 2, 3, 10, 50, 200, 1000] + ([10000] if thorough else [])
    for d in depths:
        out.append({'kind': 'strings', 'stream': 'nest', 'items': [a * d + b + c * d for a, b, c in NEST_SHAPES]})
    out.append({'kind': 'strings', 'stream': 'literal', 'items': LITERALS})
    for f in LITERAL_POW:
        out.append({'kind': 'strings', 'stream': 'literal-pow', 'items': [f]})
    # near-misses of every token rule, repeated: inputs on which a backtracking regular expression that admits two
    # decompositions of the same text (e.g. an unclosed quoted literal followed by backslash pairs) takes exponential time
    for f in redos_inputs():
        out.append({'kind': 'strings', 'stream': 'redos', 'items': [f]})

    # ---- (b) unicode, long
    uni = [gen_unicode(rng) for _ in range((20000 if thorough else 2500) * scale)]
    for ch in _chunks(uni, 100):
        out.append({'kind': 'strings', 'stream': 'unicode', 'items': ch})
    for pre, unit, sep, post, quad in LONG_SHAPES:
        out.append({'kind': 'long', 'pre': pre, 'unit': unit, 'sep': sep, 'post': post, 'n': 10000})
        if thorough:
            out.append({'kind': 'long', 'pre': pre, 'unit': unit, 'sep': sep, 'post': post, 'n': 30000 if quad else 100000})
    if thorough:
        out.append({'kind': 'long', 'pre': '', 'unit': 'a', 'sep': '', 'post': '', 'n': 100000})   # the quadratic identifier scan, once

    # ---- (c) every registered function x arity x pool tuples
    names = formulas.supported()
    modelled = _modelled(names)
    m_sample = (60 if not thorough else 3000) * scale
    for name in names:
        cmp_ = name in modelled
        for k in (0, 1, 2):
            out.append({'kind': 'fn', 'name': name, 'arity': k, 'cmp': cmp_})
        if thorough:
            out.append({'kind': 'fn', 'name': name, 'arity': 3, 'cmp': cmp_})
            for part in range(NPOOL):
                out.append({'kind': 'fn', 'name': name, 'arity': 4, 'part': [part * NPOOL ** 3, (part + 1) * NPOOL ** 3]})
            if cmp_:
                out.append({'kind': 'fn', 'name': name, 'arity': 4, 'sel': sorted(rng.sample(range(NPOOL ** 4), m_sample)), 'cmp': True})
        else:
            for k in (3, 4):
                out.append({'kind': 'fn', 'name': name, 'arity': k, 'sel': sorted(rng.sample(range(NPOOL ** k), m_sample)), 'cmp': cmp_})

    # ---- (c') every registered function on NUMERIC EDGES written as literals: fractions between -1 and 1, zero, tiny and
    # huge magnitudes, radix and table bounds (the loops of function bodies are bounded by argument validation: this is
    # where a guard that truncates, floors or compares on the wrong side of zero stops guarding)
    edges = ['-0.5', '0.5', '-0.000000001', '0.000000001', '0', '-0', '1', '-1', '1.5', '-1.5', '2', '36', '37', '255', '-255',
             '10^15', '-10^15', '1*10^300', '-1*10^300', '2^53', '0.1', '-2.5', '2^53+1', '-(2^53+1)', '0.25',
             # the same huge whole numbers arriving as FLOATS (the result of a division): a guard that looks at ints only
             # must not be followed by a conversion to int
             '10^15/1', '-(10^15/1)', '2^70/1', '1*10^300/1']
    for name in names:
        items = ['%s(%s)' % (name, a) for a in edges]
        items += ['%s(%s,%s)' % (name, a, b) for a in edges for b in edges]
        # numeric TEXT at the edges of float(): overflow to infinity, not-a-number, underflow to zero, a 400-digit integer
        texts = ['"1e400"', '"-1e400"', '"nan"', '"inf"', '"1e-400"', 'REPT("9",400)', '"-"&REPT("9",400)']
        few = ['0', '1', '2', '-1', '0.5', '10^15']
        items += ['%s(%s)' % (name, a) for a in texts]
        items += ['%s(%s,%s)' % (name, a, b) for a in texts for b in few] + ['%s(%s,%s)' % (name, b, a) for a in texts for b in few]
        tri = [(a, b, c) for a in edges[:12] + ['10^15'] for b in edges[:12] + ['10^15'] for c in edges[:12] + ['10^15']]
        items += ['%s(%s,%s,%s)' % ((name,) + t) for t in rng.sample(tri, min(len(tri), (40 if not thorough else 600) * scale))]
        if _accepts(name, 3):
            # the GUARD AXES of three-argument functions, systematically: one argument huge (10^15), the two others over small
            # whole numbers of either sign, fractions and the radix / table bounds - a size guard that looks at one sign only, or at
            # one argument only, is met here whatever the sample above drew (tenth round: PV(-3,10^15,100))
            axis = ['-255', '-37', '-3', '-2', '-1', '0', '1', '2', '3', '36', '0.5', '-1.5']
            for x in axis:
                for y in axis:
                    items += ['%s(10^15,%s,%s)' % (name, x, y), '%s(%s,10^15,%s)' % (name, x, y), '%s(%s,%s,10^15)' % (name, x, y)]
        out.append({'kind': 'strings', 'stream': 'fn-edge', 'items': items})

    # ---- (c''') a parser constructed with debug=True: aggregates handed an error value (which they re-raise), raising and failing
    # formulas, then the plain fall-backs once more - the record is well-formed and its code one of the nine, there as everywhere
    dbg = ['SUM(LN(0),1)', 'MAX(SQRT(-1),2)', 'AVERAGE(1/0,1)', 'PRODUCT({1,2},ACOS(5))', 'COUNT(1,NA())', 'MIN(#REF!,1)', 'SUM(nosuch,1)',
           '1+', '#FOO', 'NOSUCH(1)', 'SUM(', 'CONCATENATE(1/0,"a")', 'AND(1/0,TRUE)', 'ID(1/0)+1', 'LARGE({1,2},5)', 'SUM(A1,LN(0))']
    for nm in rng.sample(names, min(len(names), 40 * scale)):
        dbg += ['%s(LN(0))' % nm, '%s(1,SQRT(-1))' % nm, '%s({1,2},1/0)' % nm]
    out.append({'kind': 'strings', 'stream': 'debug', 'setup': 'debug', 'items': dbg + ['1+', '#FOO', 'SUM(LN(0),1)', 'NOSUCH(1)']})
    out.append({'kind': 'strings', 'stream': 'debug', 'items': ['1+', '#FOO', 'NOSUCH(1)', 'SUM(LN(0),1)', 'ID(1/0)+']})

    # ---- (c'') pattern arguments against texts built to make a backtracking matcher explode: many wildcards separated by a literal
    # that occurs many times in the text, and no match in the end (criteria functions, wildcard MATCH, text search)
    long_text = '"' + '-'.join('f%d' % i for i in range(48)) + '"'
    aaa = '"' + 'a' * 40 + '"'
    pats = ['"' + '*-' * k + '*.csv"' for k in (6, 12, 17, 24)] + ['"' + '*a' * k + 'b"' for k in (8, 16, 24)] + \
           ['"' + '?*' * 14 + 'z"', '"' + '*' * 30 + 'q"', '"<>' + '*-' * 17 + 'x"', '"=' + '*a' * 20 + 'c"']
    items = []
    for text in (long_text, aaa):
        arr = '{%s,%s,1}' % (text, text)
        for pat in pats:
            items += ['COUNTIF(%s,%s)' % (arr, pat), 'SUMIF(%s,%s)' % (arr, pat), 'AVERAGEIF(%s,%s,{1,2,3})' % (arr, pat),
                      'COUNTIFS(%s,%s)' % (arr, pat), 'SUMIFS({1,2,3},%s,%s)' % (arr, pat), 'AVERAGEIFS({1,2,3},%s,%s)' % (arr, pat),
                      'MAXIFS({1,2,3},%s,%s)' % (arr, pat), 'MATCH(%s,%s,0)' % (pat, arr), 'SEARCH(%s,%s)' % (pat, text),
                      'FIND(%s,%s)' % (pat, text), 'SUBSTITUTE(%s,%s,"x")' % (text, pat)]
    out.append({'kind': 'strings', 'stream': 'fn-pattern', 'items': items})

    # ---- (c''') every registered function on empty and ragged arrays supplied by the host (a variable bound to [], to [[1,2],[]],
    # to [[]]; a range listener answering [] or [[1,2],[]])
    for name in names:
        empt = ['vempty', 'vragged', 'vnest0', 'Z1:Z2', 'Z1:Z3']
        items = ['%s(%s)' % (name, a) for a in empt]
        items += ['%s(%s,%s)' % (name, a, b) for a in empt for b in ('1', '"a"', 'vempty')] + ['%s(%s,%s)' % (name, b, a) for a in empt for b in ('1', '"a"')]
        items += ['%s(1,%s,2)' % (name, a) for a in empt] + ['%s(%s,1,1)' % (name, a) for a in empt]
        out.append({'kind': 'strings', 'stream': 'fn-empty', 'items': items})
    out.append({'kind': 'strings', 'stream': 'fn-empty', 'items': ['vempty', 'vempty+1', '1-vragged', 'vempty&"a"', 'vempty=vempty', '-vempty', 'Z1:Z2',
                                                                   'Z1:Z3*2', '{1,2}+vempty', 'vnest0*vnest0', 'IF(vempty,1,2)']})

    # ---- (d) host callbacks
    for how in RET_HOWS + RAISE_HOWS + REENTER_HOWS:
        out.append({'kind': 'host', 'where': 'fn', 'how': how, 'items': FN_FORMS,
                    'cmp': how.startswith(('raise:xl:', 'raise:py:')) or how[4:].isdigit()})
    for how in RET_HOWS:
        out.append({'kind': 'host', 'where': 'var', 'how': how, 'items': VAR_FORMS, 'cmp': how[4:].isdigit()})
    for ev in EVENTS:
        for how in RAISE_HOWS + SET_HOWS + REENTER_HOWS + MUTATE_HOWS + ['noop']:
            out.append({'kind': 'host', 'where': 'listen:' + ev, 'how': how, 'items': EVENT_FORMS[ev]})
    out += [dict(c) for c in HOSTILE_CASES]

    # ---- (e) host callbacks that return normally but manipulate the parser's subscriptions / bindings while they run
    out += [json.loads(json.dumps(c)) for c in SUBS_CORPUS]
    for ev in EVENTS:
        forms = [f for f, _ in SUB_FORMS[ev]] + [f for f, _ in SUB_MIXED]
        for name, prog in sub_scenarios(ev, rng.randrange(NPOOL), rng.randrange(NPOOL)):
            out.append({'kind': 'subs', 'name': name + ':' + ev, 'prog': prog, 'items': forms})
    for _ in range((3000 if thorough else 250) * scale):
        prog = gen_sub_prog(rng)
        out.append({'kind': 'subs', 'name': 'generated', 'prog': prog, 'items': sub_items(rng, prog)})

    _pending[:] = out
    _results.clear()
    return out


def _accepts(name, n):
    """can the registered function be called with n positional arguments?"""
    import inspect
    common.load_repo()
    from hotxlfp import formulas
    try:
        sig = inspect.signature(formulas.get_for(name))
    except (TypeError, ValueError):
        return True
    pos = 0
    for prm in sig.parameters.values():
        if prm.kind == prm.VAR_POSITIONAL:
            return True
        if prm.kind in (prm.POSITIONAL_ONLY, prm.POSITIONAL_OR_KEYWORD):
            pos += 1
    return pos >= n


_modelled_cache = [None]


def _modelled(names=None):
    """names of the registered builtins the Lean model covers (asked of the driver)"""
    if _modelled_cache[0] is None:
        if names is None:
            common.load_repo()
            from hotxlfp import formulas
            names = formulas.supported()
        drv = common.Driver.__new__(common.Driver)      # a private copy of the driver (run_check owns driver.<pid>)
        os.makedirs(common.RUN_DIR, exist_ok=True)
        drv.exe = os.path.join(common.RUN_DIR, 'driver.c01.%d' % os.getpid())
        shutil.copy2(common.DRIVER_EXE, drv.exe)
        try:
            ans = drv.query(['fn %s' % enc_str(n) for n in names])
        finally:
            drv.close()
        _modelled_cache[0] = set(n for n, a in zip(names, ans) if 'unmodelled-builtin' not in a)
    return _modelled_cache[0]


# ----------------------------------------------------------------------------- plugin interface

_pool_env = [None]


def pool_env():
    if _pool_env[0] is None:
        _pool_env[0] = fx.env_wire(variables=dict(zip(POOL_NAMES, pool())))
    return _pool_env[0]


def _host_env(case):
    how = case['how']
    if case['where'] == 'fn':
        if how.startswith('raise:xl:'):
            d = '(raisexl %s)' % how[9:]
        elif how.startswith('raise:py:'):
            d = '(raisepy %s)' % enc_str(how[9:])
        else:
            d = '(const %s)' % fx.to_wire(_ret_value(how))
        return fx.env_wire(variables={'a': 3}, fns={'F': d, 'ID': '(first)'})
    return fx.env_wire(variables={'a': 3, 'x': _ret_value(how)}, fns={'ID': '(first)'})


def request(case):
    if not case.get('cmp'):
        return None
    k = case['kind']
    if k == 'wf':
        env = c04.ENV if case['src'] == 'c04' else c08.model_env()
        fs = case['items']
    elif k == 'fn':
        if case['name'] not in _modelled():
            return None
        env = pool_env()
        fs = [fn_formula(case['name'], case['arity'], i) for i in fn_indices(case)]
    elif k == 'host':
        env = _host_env(case)
        fs = case['items']
    else:
        return None
    if not fs:
        return None
    return 'c04.batch ' + ' '.join(enc_str(f) for f in fs) + ' ' + env


def impl(case):
    key = _key(case)
    if key not in _results:
        batch = [c for c in _pending if _key(c) not in _results]
        if not any(_key(c) == key for c in batch):
            batch = [case]
        t0 = time.time()
        res = run_farm(batch, 6000 if _tier[0] == 'thorough' else 1500)
        for c, r in zip(batch, res):
            _results[_key(c)] = r
        if len(batch) > 1:
            _record_stats(batch, res, time.time() - t0)
    return _results[key]


def _record_stats(batch, res, wall):
    global RULE
    calls = {}
    steps = 0
    where = None
    frac = 0
    frac_at = None
    codes = {}
    mutated = 0
    for c, r in zip(batch, res):
        s = c.get('stream') or c['kind']
        calls[s] = calls.get(s, 0) + r['n']
        mutated += r.get('mutated', 0)
        if r['steps_max'] > steps:
            steps, where = r['steps_max'], r['steps_max_at']
        if r.get('frac_max', 0) > frac:
            frac, frac_at = r['frac_max'], r['frac_at']
        for k, v in r['codes'].items():
            k = 'none' if k is None else str(k)
            codes[k] = codes.get(k, 0) + v
    subs = [r for c, r in zip(batch, res) if c['kind'] == 'subs']
    STATS.update({'subs_max_steps': max([r['steps_max'] for r in subs] or [0]),
                  'subs_max_host_calls_in_one_parse': max([r.get('host_calls', 0) for r in subs] or [0]),
                  'abandoned_cases': len([r for r in res if r.get('abandoned')])})
    STATS.update({'calls': calls, 'total_calls': sum(calls.values()), 'max_steps': steps, 'max_steps_at': where, 'max_permille_of_step_budget': frac,
                  'max_permille_at': frac_at, 'records_by_error': codes,
                  'pool_arrays_mutated_in_place': mutated, 'workers': WORKERS, 'farm_wall_s': round(wall, 1),
                  'excluded_functions': [], 'functions': len(set(c['name'] for c in batch if c['kind'] == 'fn'))})
    RULE = RULE_STATIC + ' | this run: ' + json.dumps(STATS, sort_keys=True, default=str)


LAZY_ORDER = ('GEOMEAN', 'HARMEAN')


def agree(case, ans, model_ans):
    recs = ans.get('recs')
    if recs is None:
        return True
    m = fx.parse_sexp(model_ans)
    if not isinstance(m, list) or len(m) != len(recs):
        sys.stderr.write('C01: model answered %d records for %d formulas (%r)\n' % (len(m), len(recs), case.get('name') or case['kind']))
        return False
    ok = True
    arrays = case['kind'] == 'host' and case['how'] in ('ret:12', 'ret:13')
    for i, (rec, mm) in enumerate(zip(recs, m)):
        if rec is None:       # the call violated (v): nothing to compare
            continue
        if arrays and any(op in item(case, i)[1] for op in '=<>'):
            continue          # comparison operators on array operands are outside the modelled fragment (C07 models scalars)
        real = {'error': rec[0], 'result': _desanitize(rec[1])}
        if isinstance(real['result'], _Opaque) and real['result'].name == 'complex' and isinstance(mm[1], list) \
                and isinstance(mm[1][1], list) and mm[1][1][:2] == ['a', ['o', 'complex']]:
            continue          # a Python complex (opaque across the worker boundary) vs the model's (complex, re, im) triple
        if fx.record_matches(mm[1], real, rel=1e-9, loose=True) is False:
            if case.get('name') in LAZY_ORDER and real['error'] is not None and isinstance(mm[1], list) and mm[1][2] != 'none':
                # statistics.geometric_mean / harmonic_mean consume their data lazily: with an error item AND an
                # out-of-domain number among the items, which failure is reported depends on their order;
                # the model raises the error item first.  Both sides report an error: not compared further.
                continue
            if True:
                sys.stderr.write('C01 disagreement [%s]: %s -> implementation %s, model %s\n' % (
                    ' '.join(str(case.get(k)) for k in ('kind', 'src', 'where', 'how', 'name', 'arity') if case.get(k) is not None),
                    _show_formula(item(case, i)[1], 120), _safe_repr(real, 200), fx_show(mm[1])))
            ok = False
    return ok


def fx_show(m):
    return json.dumps(m)[:300]


def oracle(case, ans):
    if ans['viol']:
        i, f, msg = ans['viol'][0]
        more = len(ans['viol']) - 1
        host = ' | host program: ' + describe_subs(case['prog']) if case['kind'] == 'subs' else ''
        return '%s: %s%s%s' % (f, msg, ' (+%d more in this shard)' % more if more else '', host)
    if case['kind'] == 'fn' and ans['dispatched'] != ans['n']:
        # not a property violation, but the sweep would be vacuous: the registered function was not dispatched
        raise RuntimeError('C01: %s was dispatched %d times in %d calls' % (case['name'], ans['dispatched'], ans['n']))
    return None


def nontrivial(case, ans):
    return ans['n'] > 0


def search(rng, ctx, disagreements):
    c2 = dict(ctx)
    c2['scale'] = max(4, ctx.get('scale', 1))
    res = cases(rng, c2)
    return [c for c in res if c['kind'] != 'wf']


def shrink(case, msg):
    """reduce a failing shard to the single failing call, then (strings) delete characters while it still fails"""
    ans = _results.get(_key(case))
    if not ans or not ans['viol']:
        return case, msg
    i = ans['viol'][0][0]
    k = case['kind']
    if k == 'long':
        return case, msg
    if k == 'fn':
        small = {'kind': 'fn', 'name': case['name'], 'arity': case['arity'], 'sel': [fn_indices(case)[i]]}
    else:
        small = dict(case)
        small.pop('cmp', None)
        small['items'] = [case['items'][i]]
    if n_items(case) == 1:
        if k != 'strings' or 'wall-clock' in msg or 'died' in msg:
            return case, msg
        small = case

    def fails(c):
        r = run_farm([c], 600)[0]
        _results[_key(c)] = r
        return oracle(c, r)
    m = fails(small)
    if not m:
        return case, msg
    if k == 'strings' and 'wall-clock' not in m and 'died' not in m:
        s = small['items'][0]
        budget = 80
        step = max(1, len(s) // 2)
        while step >= 1 and budget > 0 and len(s) > 1:
            j = 0
            progressed = False
            while j < len(s) and budget > 0:
                cand = s[:j] + s[j + step:]
                c2 = dict(small)
                c2['items'] = [cand]
                budget -= 1
                m2 = fails(c2) if cand else None
                if m2:
                    s, small, m = cand, c2, m2
                    progressed = True
                else:
                    j += step
            if not progressed or step == 1:
                step //= 2
    return small, m
