# -*- coding: utf-8 -*-
"""C11 - aggregates equal their definitions over exactly the selected items
(hotxlfp/formulas/statistical.py; SUM, PRODUCT, SUMIF, SUMIFS of mathtrig.py; the flatten /
inumbers / parse_criteria helpers of utils.py)

case kinds (field 'kind'; 'via' = lit | var | fn says how the call is made: formula text with array literals, formula over
variables, direct call of the registered function):
  stat   a number list under one of the 27 names of STAT_FNS in two arrangements (args / args2): textbook value + equal outcome;
         var / fn cases with an array argument a third time with every top-level array handed over as a Python tuple (r3)
  large  LARGE(arr, k) on two arrangements of the same items: the k-th largest item, twice
  slope  SLOPE(y1..yn, x1..xn): the least-squares slope
  crit   SUMIF / COUNTIF / AVERAGEIF / SUMIFS / AVERAGEIFS / MAXIFS: the aggregate over exactly the selected items
         ('crits' = the criteria in parsed form, 'empty' = generated as an empty selection)
  err    error items under SUM / PRODUCT / AVERAGE / MIN / MAX / MEDIAN: an injected error is the result
  unit   fixed criteria-string x item table, argument-shape edge cases: compared with the Lean model only, no oracle"""
import datetime
import math
import re
from fractions import Fraction

from .. import common, fx

ID = 'C11'
LEAN_MODULES = ['HotXL.Props.C11']
_ST = 'hotxlfp.formulas.statistical:'
FUNCTIONS = [_ST + n for n in ['AVERAGE', 'AVEDEV', 'AVERAGEA', 'AVERAGEIF', 'COUNT', 'COUNTA', 'COUNTBLANK', 'COUNTIF', 'MAX',
                               'MAXA', 'MEDIAN', 'MIN', 'MINA', 'MODE', 'VAR', 'VAR_P', 'VARA', 'STDEV', 'STDEV_P', 'STDEVA',
                               'STDEVPA', 'HARMEAN', 'GEOMEAN', 'AVERAGEIFS', 'MAXIFS', 'SLOPE', 'LARGE']] + \
    ['hotxlfp.formulas.mathtrig:' + n for n in ['SUM', 'PRODUCT', 'SUMIF', 'SUMIFS']] + \
    ['hotxlfp.formulas.utils:' + n for n in ['iflatten', 'flatten', 'inumbers', 'numbers', 'parse_number',
                                             'iparse_number_array', 'iparse_number_array_aux', 'parse_criteria']] + \
    ['hotxlfp.helper.number:to_number']
RULE = ('seeded, not exhaustive: 3119 fixed cases + 3016*sc generated ones, sc = 2 quick (10 when scale is 5), 60 '
        'thorough (9151 / 33279 / 184079 cases). Each generated call is made, by equal draw, as formula text with '
        'array literals (lit; empty arrays, blanks, error values, floats in exponent notation - and any array holding '
        'one - go into variables), as formula over variables (var: lists, blanks, error values, every third argument, '
        'floats off the 1/8 grid) or as direct call of the registered function (fn). Number lists: n in 1..40 (mostly '
        '<= 10; drawn from 1,1,2,2,3,4,5,6,8,10,15,25,40 or uniformly) values drawn with repetition from a pool of '
        'n/3, n/2, n or 2n+3 (forced duplicates) integers / dyadic k/8 / 1-2 place decimals, any sign, |v| <= 30 (15% '
        'of the pool <= 1000); three flavours: integers only, integers (40%) and k/8, or 40% integers / 30% k/8 / 30% '
        'decimals (stat: drawn 1:2:1, elsewhere equally, SLOPE and err lists only the first two). (stat, 8*sc for '
        'each of the 27 names of STAT_FNS + 500*sc with the name drawn, 13 common ones twice as likely) the list '
        'arranged twice - random partition into scalar arguments and arrays nested to depth 3 (var/fn: 5% empty '
        'arrays in between), the second time after a random permutation (80%, order-free names only, never HARMEAN '
        'with an item <= 0): textbook value on the first arrangement, same outcome of the two; GEOMEAN/HARMEAN lists '
        'made positive 80%, 25% replaced by 12/20/30/40 items of large (1e8..1e9, integers and x.5) or tiny (k/2^40, '
        'k < 4096) magnitude; PRODUCT of more than 12 items keeps |v| <= 30 (a larger item is replaced by an integer '
        'in -9..9); a stat case that is not made as lit, has at least one array among its arguments '
        'and no raw sub-expression (about 800 of the 1433 stat cases of quick at scale 1: some 420 var, 380 fn) is evaluated a THIRD time (r3): the first '
        'arrangement as formula over variables on the parser (whatever its own via), every top-level array argument in a variable '
        'holding a Python TUPLE of the same items (arrays nested inside it stay lists) - what a host variable holding a tuple or a host '
        'function doing `return a, b, c` hands over: same outcome as the first result, compared like the second arrangement (exactly for '
        'the exact names on integer / dyadic data, PRODUCT on integers; else 1e-12 relative; two non-values: the same code). A stat case of 1..8 arguments that are all scalars (no array, no blank) is evaluated once more (r4) as NAME(A1,B1,...) over cells answered by the listener of the host - same outcome, compared the same way; for this, 4 fixed scalar argument lists holding zeros ([0,3,4.5], [2,0,0.0,7], [0], [5,0]) per name of STAT_FNS but GEOMEAN / HARMEAN (100 cases). (large, 250*sc) LARGE(arr,k), arr such a list nested to depth 3, one k drawn from 1..n, second '
        'arrangement shuffled and nested afresh: exactly the k-th largest item, both times. (slope, 200*sc) SLOPE on '
        '2n scalar arguments (y first), n in {2,3,4,5,8,12,20} (2 twice as likely): integer / dyadic lists (70%) or '
        '1-place decimals in -20..20, all-equal x broken up 9 times in 10, 30% rescaled by powers of two (x by 2^-17 '
        'or 2^-30, y by 1, 2^-10 or 2^10): the least-squares slope within 1e-12 (integer / dyadic data) or 1e-9 '
        '(decimal or rescaled data) of max(|slope|,1). (crit, 1400*sc, and 200*sc whose first criterion is replaced '
        'by one meant to select nothing: >100000, <-100000, =77777.5, 99999, zzz, or - when the first criteria range '
        'holds a text cell - zzz, z*, ?z?*, =5; these carry the flag \'empty\') the name drawn with weights SUMIF 1, '
        'COUNTIF 2, AVERAGEIF 2, SUMIFS 2, AVERAGEIFS 1, MAXIFS 2: SUMIF/COUNTIF/AVERAGEIF (2 or, 60%, 3 arguments) '
        'on ranges nested to depth 3, SUMIFS/AVERAGEIFS/MAXIFS with 1..3 criteria (weights 2:2:1) on flat ranges, all '
        'of one length 1..40: numeric ranges (..IFS: 30% the value list itself; 30% of the others with a quarter of '
        'the cells replaced by words, blanks and ""; SUMIF and 2-argument AVERAGEIF numbers only), text ranges (45% '
        'under COUNTIF and 3-argument AVERAGEIF, a third of the ..IFS criteria ranges) of words of 0..4 characters '
        'over {a,b,c,*,?} (cells containing * and ?), COUNTIF also (20%) mixed word / integer (-5..5) cells with a '
        'pattern / word criterion (60%) or = / <> an integer in -5..5; criteria of the three forms: each of the 6 '
        'operators + number (80% on numeric ranges), bare number, wildcard pattern of 1..5 characters over '
        '{a,b,c,*,?} with at least one wildcard (75% on text ranges) or bare word (70% a non-empty wildcard-free cell '
        'of the range where there is one, else 1..4 letters over {a,b,c}); the number is a cell of the range (70%, '
        'where it has a number), one of {0,1,-1,2.5,-0.125,10,100000,-100000} or in -30..30, spelled also as +3, 3.0, '
        '.5; demanded: sum / count / mean / maximum over exactly the selected items, for an empty selection 0 or '
        '(AVERAGEIF(S)) an error (nothing is demanded when a selected item is no number or the ranges differ in '
        'length: no generated case). (err, 250*sc) 1 or 2 error items among 1,2,3,5 or 9 integer / dyadic numbers '
        'under SUM/PRODUCT/AVERAGE/MIN/MAX/MEDIAN - the expression 1/0 as a scalar argument among scalar arguments '
        '(lit) or one of the 8 error values anywhere in the arrangement (var/fn): the result is one of the injected '
        'errors. (unit, 3103 fixed, model comparison only, no oracle) COUNTIF of one item (29: numbers, logicals, '
        'blank, 15 texts incl. "", wildcards, number spellings, upper case, newline; 2 errors, a date) x 86 raw '
        'criteria strings incl. malformed ones, each string also in 5 fixed SUMIFS/MAXIFS/AVERAGEIFS/AVERAGEIF/SUMIF '
        'calls, 6 non-string criteria x 2 calls, 165 argument-shape / arity / non-numeric-item cases over all '
        'modelled functions (all direct calls), HARMEAN(0,-1) and HARMEAN(-1,0) as formula text. 16 fixed oracle '
        'cases of the repaired defects (wildcard argument order, MAXIFS start value, empty selections, LARGE k '
        'against nested arrays, ordering criterion on a text/blank cell, nested SUM, 2 err). Compared with the Lean '
        'model: the first arrangement of every case, except crit cases (some 4%) whose criteria text spells a decimal '
        'that is no double unless the call is formula text without variables (a case flagged \'nomodel\' would not be '
        'sent either: none is generated). search() (a proof or the correspondence broke, no oracle failure yet): the '
        'thorough stream (sc = 60*scale) on the oracle alone up to the first failure; shrink (stat only) flattens '
        'both arrangements into scalar arguments (a direct call stays one, anything else becomes a lit call) and '
        'drops items, one at a time from both, while the oracle still fails. No time or step budgets, no weight. '
        'Non-trivial = the first result is a value (err: an error); every unit case and every crit case generated as '
        'empty selection (or fixed with the flag \'empty\': 4) counts.')
TRUSTED = ['CPython statistics / sum / sorted / max / min / fnmatch (modelled by their documented semantics: exact-rational '
           'mean and variance with the int-or-float result type, stable sort, first extreme item, first most frequent item; '
           'fnmatch without [ classes)',
           'floats are exact rationals in the model and in the oracle (a decimal literal in formula text is the exact decimal '
           'in the model, the nearest double in Python): integer model results are compared exactly and by type, float '
           'results within 1e-12 (SLOPE on data that is not integer / dyadic: 1e-9) relative to the largest of the result, '
           'the largest numeric argument and 1 (SLOPE on the formula path: result and 1); sqrt and n-th root results are '
           'carried symbolically and checked by squaring (1e-13 relative) / powering (1e-9); any other model value (text, '
           'logical, blank, date, array) is compared by fx.value_matches: exactly (dates to 2 microseconds + 2^-49 relative, '
           'floats inside arrays to 4 ulp)',
           'oracle tolerances: exact (the rational value or the double nearest to it) for AVERAGE(A), MIN(A), MAX(A), '
           'COUNT(A), MODE, VAR / VAR.S / VAR.P / VARP / VARA and LARGE always, for SUM, MEDIAN and the crit sums / counts / '
           'maxima on integer / dyadic data (floats multiples of 1/8 with |v| <= 4096), for PRODUCT on integers; otherwise '
           '1e-12 relative to the largest of the value, the largest numeric argument and 1 (on the tiny-magnitude HARMEAN '
           'lists that is 1e-12 absolute); STDEV* by the square and GEOMEAN by the n-th power within 1e-9 relative; two '
           'arrangements: exactly equal for the exact names on integer / dyadic data (LARGE always), else within 1e-12 '
           'relative to the largest of the first result, the largest numeric argument and 1 (non-finite floats: the same '
           'repr; non-numeric values: equal; two non-values: the same code, raised or returned alike)',
           'the yardsticks of the oracle are written by hand: the textbook formulas in Fraction arithmetic, the wildcard '
           'matcher ref_glob (* any run of characters, ? exactly one, anything else itself), crit_number (an integer or the '
           'double nearest to the decimal), sem (the three forms of criteria; it would read a logical cell as 1 / 0, but '
           'no case judged by the oracle has one)',
           'int()/float() text parsing beyond ASCII decimal syntax is library behaviour (such text, and text containing ", is '
           'kept out of the model comparison; no generated or fixed case contains any)',
           'logicals among the items are modelled by their integer value; opaque host objects are assumed unordered and '
           'unequal to everything',
           'a model answer (o tag) other than a symbolic sqrt / root is no opinion and accepted without comparison; the '
           'second arrangement and the tuple run (r3) are never sent to the model; the direct path tells a raised exception from a returned error '
           'value, the formula path compares the error code only']
ASSUMPTIONS = ['textbook value of MODE: any most frequent item (the model pins the first in the original order)',
               'GEOMEAN and HARMEAN are read on positive items (the harmonic and geometric means are defined for positive '
               'numbers): with a zero or negative item no value is demanded (HARMEAN(0,-1) = 0 but HARMEAN(-1,0) = #ERROR!: '
               'the first such item decides), only the same outcome of the two arrangements (HARMEAN then under regrouping '
               'alone)',
               'sample variance / STDEV (VAR, VAR.S, VARA, STDEV, STDEV.S, STDEVA) of one item must be an error - any outcome '
               'that is not a value; the population forms of one item are 0',
               'order-freeness is demanded of SUM, PRODUCT, AVERAGE(A), MIN(A), MAX(A), COUNT(A), MEDIAN, VAR / VAR.S / VAR.P '
               '/ VARP / VARA, STDEV / STDEV.S / STDEV.P / STDEVP / STDEVA / STDEVPA, AVEDEV, GEOMEAN, HARMEAN, LARGE '
               '(numerically: 1 and 1.0 are the same result; two errors: the same code); MODE and MODE.SNGL only under '
               'regrouping; SLOPE is arranged once',
               'a text or blank criteria cell does not satisfy an ordering criterion such as ">3" nor "=n" and is simply not '
               'selected; <>n is satisfied by every cell that is not the number n, text and blank cells included',
               'a wildcard pattern selects text cells only ("" is one; numbers and blanks never), * and ? inside a cell are '
               'ordinary characters; wildcard matching is case-sensitive and judged on lower-case text only',
               'a bare criterion that spells a number (also +3, 3.0, .5) selects the numeric cells equal to it, not text '
               'cells; any other bare text selects the identical text cells; a decimal in a criterion is the double nearest '
               'to it, as the cells are',
               'empty selection: SUMIF(S), COUNTIF and MAXIFS give 0, AVERAGEIF(S) must be an error (any)',
               'SUMIF sums and 2-argument AVERAGEIF averages the selected criteria cells themselves; with a third range '
               'AVERAGEIF averages its cells at the same flattened positions; the ..IFS forms pair value and criteria cells '
               'by position',
               'an error item: the result must be an error whose code is one of the injected ones (either of two; returned, '
               'raised or reported by parse alike), #DIV/0! for the expression 1/0',
               'SLOPE: the first half of the arguments are the y, the second half the x; all x equal must not give a value - '
               'demanded on integer / dyadic data only, on decimal or rescaled data nothing is demanded then',
               'COUNT and COUNTA count every item (the statement is about numeric items; the lists hold numbers only, empty '
               'arrays add nothing)',
               'a scalar that arrives as the value of a cell (answered by the callCellValue listener of the host) is the item it is as a variable: a '
               'zero or FALSE is an item, only an unanswered cell is a blank (r4)',
               'a Python tuple handed over by the host (as the value of a variable) is an array like the list of the same items: '
               'the aggregate over it is the aggregate over the list (stat cases; only top-level arrays are turned into tuples, '
               'and only under the 27 names of STAT_FNS)']
EXHAUSTIVE = {'quick': False, 'thorough': False}

ORDER_FREE = ['SUM', 'PRODUCT', 'AVERAGE', 'MIN', 'MAX', 'COUNT', 'MEDIAN', 'VAR', 'VAR.S', 'VAR.P', 'VARP', 'STDEV', 'STDEV.S',
              'STDEV.P', 'STDEVP', 'AVEDEV', 'GEOMEAN', 'HARMEAN', 'AVERAGEA', 'MAXA', 'MINA', 'VARA', 'STDEVA', 'STDEVPA', 'COUNTA']
ORDERED = ['MODE', 'MODE.SNGL']
STAT_FNS = ORDER_FREE + ORDERED
ERR_FNS = ['SUM', 'PRODUCT', 'AVERAGE', 'MIN', 'MAX', 'MEDIAN']
ERR_CODES = ['#DIV/0!', '#N/A', '#NUM!', '#VALUE!', '#NAME?', '#REF!', '#NULL!', '#ERROR!']
SIMPLE_NUM = re.compile(r'^[ \t\n\r\f\v]*[+-]?([0-9]+(_[0-9]+)*|[0-9]+\.[0-9]*|\.[0-9]+)[ \t\n\r\f\v]*$')


# --------------------------------------------------------------------------- values

def errs():
    common.load_repo()
    from hotxlfp.formulas import error
    return error


def dec(v):
    """JSON-able description -> Python value"""
    if isinstance(v, dict):
        if 'e' in v:
            return errs().from_message(v['e'])
        if 'd' in v:
            return datetime.datetime(*v['d'])
    if isinstance(v, list):
        return [dec(x) for x in v]
    return v


def flat(v):
    if isinstance(v, list):
        out = []
        for x in v:
            out += flat(x)
        return out
    return [v]


def is_num(v):
    return isinstance(v, (int, float)) and not isinstance(v, bool)


def text_modelled(s):
    """text whose to_number() the Lean model covers"""
    try:
        int(s)
        isnum = True
    except ValueError:
        try:
            float(s)
            isnum = True
        except ValueError:
            isnum = False
    return (not isnum) or SIMPLE_NUM.match(s) is not None


def all_text_modelled(v):
    if isinstance(v, str):
        return text_modelled(v) and '"' not in v
    if isinstance(v, list):
        return all(all_text_modelled(x) for x in v)
    return True


# --------------------------------------------------------------------------- rendering

def lit(v):
    if isinstance(v, bool):
        return 'TRUE' if v else 'FALSE'
    if isinstance(v, int):
        return str(v)
    if isinstance(v, float):
        r = repr(v)
        if 'e' in r or 'n' in r:
            raise ValueError(r)
        if r.startswith('-'):
            return r
        return r
    if isinstance(v, str):
        return '"' + v + '"'
    if isinstance(v, list):
        if len(v) == 0:
            raise ValueError('empty array literal')
        return '{' + ','.join(lit(x) for x in v) + '}'
    raise ValueError(v)


def literal_ok(v):
    try:
        lit(v)
        return True
    except ValueError:
        return False


VNAMES = ['v' + a + b for a in 'abcdefgh' for b in 'abcdefghij']


def formula_of(c):
    """-> (text, variables) for the call F(args) of a case with via in ('lit', 'var')"""
    args = c['args']
    variables = {}
    parts = []
    for i, a in enumerate(args):
        # a non-dyadic decimal literal is an exact decimal in the model but a double in Python: next to
        # variables (doubles on both sides) it goes into a variable too
        use_var = c['via'] == 'var' and (isinstance(a, (list, dict)) or a is None or i % 3 == 0 or
                                         (isinstance(a, float) and a * 8 != int(a * 8)))
        if isinstance(a, dict) and 'x' in a:
            parts.append(a['x'])           # a raw sub-expression such as 1/0
        elif use_var or not literal_ok(a):
            name = VNAMES[i % len(VNAMES)]
            variables[name] = dec(a)
            parts.append(name)
        else:
            parts.append(lit(a))
    return c['fn'] + '(' + ','.join(parts) + ')', variables


def has_expr(v):
    if isinstance(v, dict):
        return 'x' in v
    if isinstance(v, list):
        return any(has_expr(x) for x in v)
    return False


# --------------------------------------------------------------------------- running

_p = [None]


_cellvals = {}
CELL_NAMES = ['A1', 'B1', 'C1', 'D1', 'E1', 'F1', 'G1', 'H1']


def parser():
    if _p[0] is None:
        common.load_repo()
        import hotxlfp
        _p[0] = hotxlfp.Parser()
        # route cell: scalar arguments as values of the cells A1.. answered by the host's listener (0 and FALSE are values, not blanks)
        _p[0].on('callCellValue', lambda cell, setter: setter(_cellvals.get(cell.label)))
    return _p[0]


def call_cells(c):
    """the call of a case whose arguments are all scalars, written over cells -> ('val', v) | ('err', code)"""
    _cellvals.clear()
    for lab, a in zip(CELL_NAMES, c['args']):
        _cellvals[lab] = dec(a)
    r = parser().parse('%s(%s)' % (c['fn'], ','.join(CELL_NAMES[:len(c['args'])])))
    return ('err', r['error']) if r['error'] is not None else ('val', r['result'])


def call(c, args=None, tup=False):
    """-> ('val', v) | ('err', code) | ('raise', code) ; raise only distinguished on the direct path.  tup: every top-level array
    argument is handed over as a Python TUPLE (a host variable holding a tuple, a host function doing `return a, b, c`)"""
    e = errs()
    args = c['args'] if args is None else args
    if tup:
        cc = dict(c, args=args, via='var')
        text, variables = formula_of(cc)
        p = parser()
        for k, v in variables.items():
            p.set_variable(k, tuple(v) if isinstance(v, list) else v)
        r = p.parse(text)
        return ('err', r['error']) if r['error'] is not None else ('val', r['result'])
    if c['via'] == 'fn':
        common.load_repo()
        import hotxlfp.formulas as F
        fn = F.get_for(c['fn'])
        try:
            v = fn(*[dec(a) for a in args])
        except Exception as ex:
            return ('raise', str(e.from_message(ex)))
        if isinstance(v, e.XLError):
            return ('err', str(v))
        return ('val', v)
    cc = dict(c)
    cc['args'] = args
    text, variables = formula_of(cc)
    p = parser()
    for k, v in variables.items():
        p.set_variable(k, v)
    r = p.parse(text)
    if r['error'] is not None:
        return ('err', r['error'])
    return ('val', r['result'])


def impl(c):
    out = {'r': call(c)}
    if 'args2' in c:
        out['r2'] = call(c, c['args2'])
    if c['kind'] == 'stat' and c.get('via') != 'lit' and any(isinstance(a, list) for a in c['args']) and not has_expr(c['args']):
        out['r3'] = call(c, tup=True)
    if c['kind'] == 'stat' and 1 <= len(c['args']) <= len(CELL_NAMES) and not any(isinstance(a, (list, dict)) or a is None for a in c['args']):
        out['r4'] = call_cells(c)
    return out


def inexact_number_text(v):
    """a (criteria) text spelling a decimal that is not exactly a double: the model reads text as the exact decimal"""
    if isinstance(v, list):
        return any(inexact_number_text(x) for x in v)
    if not isinstance(v, str):
        return False
    for t in (v, v.lstrip('<>=').split('\n')[0]):
        try:
            f = float(t)
            if Fraction(f) != Fraction(t.strip().replace('_', '')):
                return True
        except (ValueError, OverflowError):
            pass
    return False


def request(c):
    if c.get('nomodel'):
        return None
    if not all_text_modelled(c['args']):
        return None
    if inexact_number_text(c['args']) and (c['via'] != 'lit' or formula_of(c)[1]):
        return None        # cells are doubles, the criteria text would be an exact decimal in the model
    if c['via'] == 'fn':
        if has_expr(c['args']):
            return None
        return 'fn %s %s' % (common.enc_str(c['fn']), ' '.join(fx.to_wire(dec(a)) for a in c['args']))
    text, variables = formula_of(c)
    return 'eval %s %s' % (common.enc_str(text), fx.env_wire(variables=variables))


# --------------------------------------------------------------------------- model comparison

def scale_of(c):
    m = 1.0
    for v in flat(c['args']):
        if is_num(v):
            m = max(m, abs(v))
    return m


def close(v, q, scale, rel=1e-12):
    if isinstance(v, bool) or not isinstance(v, (int, float)):
        return False
    if isinstance(v, float) and (math.isnan(v) or math.isinf(v)):
        return False
    fv = Fraction(v)
    return fv == q or abs(fv - q) <= Fraction(rel) * max(abs(q), Fraction(scale))


def tag_matches(tag, v):
    """symbolic results of the model: sqrt:n/d, root:N:n/d"""
    if tag.startswith('sqrt:'):
        q = Fraction(tag[5:])
        if not isinstance(v, float) or v < 0 or math.isnan(v) or math.isinf(v):
            return False
        if q == 0:
            return v == 0.0
        return abs(Fraction(v) ** 2 - q) <= q * Fraction(1, 10 ** 13)
    if tag.startswith('root:'):
        _, n, q = tag.split(':')
        n, q = int(n), Fraction(q)
        if not isinstance(v, float) or v <= 0 or math.isnan(v) or math.isinf(v):
            return False
        return abs(Fraction(v) ** n - q) <= q * Fraction(1, 10 ** 9)
    return None


def match_value(m, v, scale, rel=1e-12):
    if isinstance(m, list) and m and m[0] == 'o':
        return tag_matches(m[1], v)
    if isinstance(m, list) and m and m[0] == 'i':
        return isinstance(v, int) and not isinstance(v, bool) and v == int(m[1])
    if isinstance(m, list) and m and m[0] == 'f':
        return isinstance(v, float) and close(v, Fraction(int(m[1]), int(m[2])), scale, rel)
    return fx.value_matches(m, v)


def rel_of(c):
    # the float evaluation of n*Sxy - Sx*Sy cancels on decimal data: 1e-9 there, 1e-12 everywhere else
    return 1e-9 if c['fn'] == 'SLOPE' and not dyadic(c) else 1e-12


def agree(c, impl_ans, model_ans):
    kind, v = impl_ans['r']
    m = fx.parse_sexp(model_ans)
    scale = scale_of(c)
    if c['via'] == 'fn':
        if isinstance(m, list) and m and m[0] == 'raise':
            return kind == 'raise' and fx.ERR_TAGS.get(v) == m[1]
        if isinstance(m, list) and m and m[0] == 'e':
            return kind == 'err' and fx.ERR_TAGS.get(v) == m[1]
        if kind != 'val':
            return isinstance(m, list) and m and m[0] == 'o' and tag_matches(m[1], 0.0) is None
        return match_value(m, v, scale, rel_of(c)) is not False
    rec = m[0]
    if not (isinstance(rec, list) and len(rec) == 3 and rec[0] == 'rec'):
        return False
    _, mres, merr = rec
    if merr != 'none':
        return kind == 'err' and fx.ERR_TAGS.get(v) == merr
    if isinstance(mres, list) and mres and mres[0] == 'o' and tag_matches(mres[1], 1.0) is None:
        return True
    if kind != 'val':
        return False
    if mres == 'none':
        return v is None
    return match_value(mres, v, 1.0 if c['fn'] == 'SLOPE' else scale, rel_of(c)) is not False


# --------------------------------------------------------------------------- the statement: textbook definitions

class NoDemand(Exception):
    pass


def F(x):
    return Fraction(x)


def textbook(fn, xs):
    """exact value of the statistic on the numeric items xs (Fractions), or
    ('error',) when the statement demands an error, ('pow', N, q) for g^N = q, ('sq', q) for s^2 = q,
    ('member', set) for MODE; raises NoDemand outside the textbook domain"""
    n = len(xs)
    if fn in ('COUNT', 'COUNTA'):
        return F(n)
    if n == 0:
        raise NoDemand()
    s = sum(xs, F(0))
    mu = s / n
    if fn == 'SUM':
        return s
    if fn == 'PRODUCT':
        p = F(1)
        for x in xs:
            p *= x
        return p
    if fn in ('AVERAGE', 'AVERAGEA'):
        return mu
    if fn in ('MIN', 'MINA'):
        return min(xs)
    if fn in ('MAX', 'MAXA'):
        return max(xs)
    if fn == 'MEDIAN':
        t = sorted(xs)
        return t[n // 2] if n % 2 == 1 else (t[n // 2 - 1] + t[n // 2]) / 2
    if fn in ('MODE', 'MODE.SNGL'):
        best = max(xs.count(x) for x in xs)
        return ('member', set(x for x in xs if xs.count(x) == best))
    ss = sum(((x - mu) ** 2 for x in xs), F(0))
    if fn in ('VAR', 'VAR.S', 'VARA'):
        return ('error',) if n < 2 else ss / (n - 1)
    if fn in ('VAR.P', 'VARP'):
        return ss / n
    if fn in ('STDEV', 'STDEV.S', 'STDEVA'):
        return ('error',) if n < 2 else ('sq', ss / (n - 1))
    if fn in ('STDEV.P', 'STDEVP', 'STDEVPA'):
        return ('sq', ss / n)
    if fn == 'AVEDEV':
        return sum((abs(x - mu) for x in xs), F(0)) / n
    if fn == 'GEOMEAN':
        if any(x <= 0 for x in xs):
            raise NoDemand()
        p = F(1)
        for x in xs:
            p *= x
        return ('pow', n, p)
    if fn == 'HARMEAN':
        if any(x <= 0 for x in xs):
            raise NoDemand()
        return n / sum((1 / x for x in xs), F(0))
    raise NoDemand()


# results that CPython computes exactly (then rounds once): demanded exactly
EXACT = {'SUM', 'PRODUCT', 'AVERAGE', 'AVERAGEA', 'MIN', 'MINA', 'MAX', 'MAXA', 'COUNT', 'COUNTA', 'MEDIAN', 'MODE', 'MODE.SNGL',
         'VAR', 'VAR.S', 'VAR.P', 'VARP', 'VARA', 'LARGE'}


def dyadic(c):
    return all((not isinstance(v, float)) or (v * 8 == int(v * 8) and abs(v) <= 4096) for v in flat(c['args']) if is_num(v))


def all_ints(c):
    return all(isinstance(v, int) for v in flat(c['args']) if is_num(v))


def num_equal(v, q, exact, scale, rel=1e-12):
    if isinstance(v, bool) or not isinstance(v, (int, float)):
        return False
    if isinstance(v, float) and (math.isnan(v) or math.isinf(v)):
        return False
    if exact:
        return Fraction(v) == q or (isinstance(v, float) and v == float(q))
    return close(v, q, scale, rel)


def judge(fn, exp, res, exact, scale):
    """does the observed result satisfy the textbook expectation?"""
    kind, v = res
    if exp == ('error',):
        return kind != 'val'
    if kind != 'val':
        return False
    if isinstance(exp, tuple) and exp[0] == 'member':
        return is_num(v) and Fraction(v) in exp[1]
    if isinstance(exp, tuple) and exp[0] == 'sq':
        q = exp[1]
        if not isinstance(v, float) or v < 0 or v != v or v in (float('inf'),):
            return False
        return v == 0.0 if q == 0 else abs(Fraction(v) ** 2 - q) <= q * Fraction(1, 10 ** 9)
    if isinstance(exp, tuple) and exp[0] == 'pow':
        _, n, q = exp
        if not isinstance(v, float) or v <= 0 or v != v or v in (float('inf'),):
            return False
        return abs(Fraction(v) ** n - q) <= q * Fraction(1, 10 ** 9)
    return num_equal(v, exp, exact, scale)


def same_result(r1, r2, exact, scale):
    """two arrangements of the same items give the same outcome (numerically)"""
    if r1[0] != 'val' or r2[0] != 'val':
        return (r1[0] != 'val') == (r2[0] != 'val') and (r1[0] == 'val' or r1[1] == r2[1])
    a, b = r1[1], r2[1]
    if not (is_num(a) and is_num(b)):
        return a == b
    if any(isinstance(x, float) and (x != x or x in (float('inf'), float('-inf'))) for x in (a, b)):
        return repr(a) == repr(b)
    if exact:
        return Fraction(a) == Fraction(b)
    return abs(Fraction(a) - Fraction(b)) <= Fraction(1e-12) * max(abs(Fraction(a)), Fraction(scale))


# --------------------------------------------------------------------------- the statement: selection

OPS = ['>', '<', '>=', '<=', '=', '<>']


def ref_glob(pat, text):
    """* = any run of characters, ? = exactly one character, anything else itself (dynamic programming)"""
    n, m = len(pat), len(text)
    ok = [[False] * (m + 1) for _ in range(n + 1)]
    ok[n][m] = True
    for i in range(n - 1, -1, -1):
        for j in range(m, -1, -1):
            ch = pat[i]
            if ch == '*':
                ok[i][j] = ok[i + 1][j] or (j < m and ok[i][j + 1])
            elif j < m and (ch == '?' or ch == text[j]):
                ok[i][j] = ok[i + 1][j + 1]
    return ok[0][0]


def crit_number(t):
    """the number a criteria text spells: an integer, or the double nearest to the decimal (cells are doubles too)"""
    t = t.strip()
    try:
        return F(int(t))
    except ValueError:
        return F(float(t))


def sem(cr, cell):
    """does the criteria cell satisfy the criterion (the three forms of the statement)?"""
    form = cr['form']
    if form == 'op':
        q = crit_number(cr['num'])
        isn = is_num(cell) or isinstance(cell, bool)
        op = cr['op']
        if op == '=':
            return isn and F(cell) == q
        if op == '<>':
            return not (isn and F(cell) == q)
        if not isn:
            return False
        x = F(cell)
        return {'>': x > q, '<': x < q, '>=': x >= q, '<=': x <= q}[op]
    if form == 'glob':
        return isinstance(cell, str) and ref_glob(cr['text'], cell)
    if form == 'bare':
        t = cr['text']
        try:
            q = crit_number(t)
            return (is_num(cell) or isinstance(cell, bool)) and F(cell) == q
        except ValueError:
            return isinstance(cell, str) and cell == t
    raise NoDemand()


def crit_text(cr):
    if cr['form'] == 'op':
        return cr['op'] + cr['num']
    return cr['text']


def crit_expect(c):
    """-> exact expectation for a crit case: ('error',) | Fraction"""
    fn = c['fn']
    args = [dec(a) for a in c['args']]
    crits = c['crits']
    if fn in ('SUMIF', 'COUNTIF'):
        cells = flat(args[0])
        vals = cells
        ranges = [cells]
    elif fn == 'AVERAGEIF':
        cells = flat(args[0])
        vals = flat(args[2]) if len(args) > 2 else cells
        ranges = [cells]
    else:
        vals = args[0]
        ranges = [args[1 + 2 * k] for k in range(len(crits))]
    if any(len(r) != len(vals) for r in ranges):
        raise NoDemand()
    sel = [vals[i] for i in range(len(vals)) if all(sem(cr, r[i]) for cr, r in zip(crits, ranges))]
    if fn == 'COUNTIF':
        return F(len(sel))
    if not all(is_num(v) for v in sel):
        raise NoDemand()
    sel = [F(v) for v in sel]
    if fn in ('SUMIF', 'SUMIFS'):
        return sum(sel, F(0))
    if fn == 'MAXIFS':
        return max(sel) if sel else F(0)
    if not sel:
        return ('error',)
    return sum(sel, F(0)) / len(sel)


# --------------------------------------------------------------------------- oracle

def show(c):
    try:
        if c['via'] == 'fn':
            return '%s(*%r)' % (c['fn'], c['args'])
        t, vs = formula_of(c)
        return t + ((' with ' + repr(vs)) if vs else '')
    except Exception:
        return repr(c)


def oracle(c, ans):
    kind = c['kind']
    res = ans['r']
    scale = scale_of(c)
    fn = c['fn']
    try:
        if kind == 'stat':
            xs = [F(v) for v in flat(dec(c['args'])) if is_num(v)]
            exact = fn in EXACT and (fn != 'PRODUCT' or all_ints(c)) and (fn != 'MEDIAN' or dyadic(c)) and (fn != 'SUM' or dyadic(c))
            try:
                exp = textbook(fn, xs)
                if not judge(fn, exp, res, exact, scale):
                    return '%s gives %r; the textbook definition gives %s' % (show(c), res, show_exp(exp))
            except NoDemand:
                pass
            if 'r3' in ans and not same_result(res, ans['r3'], dyadic(c) and fn in EXACT and (fn != 'PRODUCT' or all_ints(c)), scale):
                return '%s gives %r but the same call with its arrays handed over as tuples gives %r' % (show(c), res, ans['r3'])
            if 'r4' in ans and not same_result(res, ans['r4'], dyadic(c) and fn in EXACT and (fn != 'PRODUCT' or all_ints(c)), scale):
                return '%s gives %r but the same call with its arguments as values of cells (answered by the listener) gives %r' % (show(c), res, ans['r4'])
            if 'args2' in c:
                r2 = ans['r2']
                pair_exact = dyadic(c) and fn in EXACT and (fn != 'PRODUCT' or all_ints(c))
                if not same_result(res, r2, pair_exact, scale):
                    c2 = dict(c)
                    c2['args'] = c['args2']
                    return '%s gives %r but the same items as %s give %r' % (show(c), res, show(c2), r2)
            return None
        if kind == 'large':
            arr, k = dec(c['args'][0]), c['args'][1]
            xs = sorted((F(v) for v in flat(arr)), reverse=True)
            if not (isinstance(k, int) and 1 <= k <= len(xs)):
                return None
            if not judge(fn, xs[k - 1], res, True, scale):
                return '%s gives %r; the %d-th largest item is %s' % (show(c), res, k, xs[k - 1])
            if 'args2' in c and not same_result(res, ans['r2'], True, scale):
                c2 = dict(c)
                c2['args'] = c['args2']
                return '%s gives %r but the same items as %s give %r' % (show(c), res, show(c2), ans['r2'])
            return None
        if kind == 'slope':
            half = len(c['args']) // 2
            ys = [F(v) for v in c['args'][:half]]
            xs = [F(v) for v in c['args'][half:]]
            n = len(xs)
            den = n * sum(x * x for x in xs) - sum(xs) ** 2
            if den == 0:
                if dyadic(c) and res[0] == 'val':
                    return '%s gives %r; all x are equal, the slope is undefined' % (show(c), res)
                return None
            exp = (n * sum(x * y for x, y in zip(xs, ys)) - sum(xs) * sum(ys)) / den
            if res[0] != 'val' or not num_equal(res[1], exp, False, 1.0 if dyadic(c) else 1.0, 1e-12 if dyadic(c) else 1e-9):
                return '%s gives %r; the least-squares slope is %s' % (show(c), res, exp)
            return None
        if kind == 'crit':
            exp = crit_expect(c)
            exact = dyadic(c) and fn not in ('AVERAGEIF', 'AVERAGEIFS')
            if not judge(fn, exp, res, exact, scale):
                return '%s gives %r; over exactly the selected items the statement gives %s' % (show(c), res, show_exp(exp))
            return None
        if kind == 'err':
            codes = set(v['e'] for v in flat_raw(c['args']) if isinstance(v, dict) and 'e' in v)
            if any(isinstance(v, dict) and 'x' in v for v in flat_raw(c['args'])):
                codes.add('#DIV/0!')
            if res[0] == 'val' or res[1] not in codes:
                return '%s gives %r; an error item (%s) must be the result' % (show(c), res, ', '.join(sorted(codes)))
            return None
    except NoDemand:
        return None
    return None


def flat_raw(v):
    if isinstance(v, list):
        out = []
        for x in v:
            out += flat_raw(x)
        return out
    return [v]


def show_exp(exp):
    if exp == ('error',):
        return 'an error'
    if isinstance(exp, tuple) and exp[0] == 'sq':
        return 'sqrt(%s)' % (exp[1],)
    if isinstance(exp, tuple) and exp[0] == 'pow':
        return '(%s)^(1/%d)' % (exp[2], exp[1])
    if isinstance(exp, tuple) and exp[0] == 'member':
        return 'one of %s' % sorted(exp[1])
    return '%s (= %r)' % (exp, float(exp))


def nontrivial(c, ans):
    if c['kind'] == 'err':
        return ans['r'][0] != 'val'
    if c['kind'] == 'unit':
        return True
    if c.get('empty'):
        return True
    return ans['r'][0] == 'val'


# --------------------------------------------------------------------------- generators

def gen_numbers(rng, n, flavour):
    """n numbers: 'int', 'dyadic' (ints and k/8), 'decimal' (also 1-2 place decimals)"""
    pool_size = rng.choice([max(1, n // 3), max(1, n // 2), n, 2 * n + 3])
    pool = []
    for _ in range(pool_size):
        r = rng.random()
        big = rng.random() < 0.15
        hi = 1000 if big else 30
        if flavour == 'int' or r < 0.4:
            pool.append(rng.randint(-hi, hi))
        elif flavour == 'dyadic' or r < 0.7:
            pool.append(rng.randint(-hi * 8, hi * 8) / 8.0)
        else:
            pool.append(round(rng.uniform(-hi, hi), rng.choice([1, 2])))
    return [rng.choice(pool) for _ in range(n)]


def gen_len(rng):
    return rng.choice([1, 1, 2, 2, 3, 4, 5, 6, 8, 10, 15, 25, 40, rng.randint(1, 40)])


def nest(rng, items, depth):
    out = []
    i = 0
    while i < len(items):
        if depth < 3 and rng.random() < 0.22:
            k = rng.randint(1, min(5, len(items) - i))
            out.append(nest(rng, items[i:i + k], depth + 1))
            i += k
        else:
            out.append(items[i])
            i += 1
    return out


def arrange(rng, items, allow_empty=False):
    """a partition of the items (in order) into scalar arguments and (nested) arrays"""
    args = []
    i = 0
    while i < len(items):
        k = rng.choice([1, 1, 1, 2, 3, 5, 8, len(items)])
        chunk = items[i:i + k]
        i += len(chunk)
        if len(chunk) == 1 and rng.random() < 0.7:
            args.append(chunk[0])
        else:
            args.append(nest(rng, chunk, 1))
        if allow_empty and rng.random() < 0.05:
            args.append([])
    return args


def positive(xs):
    return [abs(x) if x != 0 else 1 for x in xs]


def gen_stat(rng, fn=None):
    fn = fn or rng.choice(STAT_FNS + ['SUM', 'PRODUCT', 'AVERAGE', 'MIN', 'MAX', 'MEDIAN', 'VAR', 'VAR.P', 'AVEDEV', 'HARMEAN', 'GEOMEAN', 'STDEV', 'STDEV.P'])
    n = gen_len(rng)
    flavour = rng.choice(['int', 'dyadic', 'dyadic', 'decimal'])
    xs = gen_numbers(rng, n, flavour)
    if fn in ('GEOMEAN', 'HARMEAN'):
        r = rng.random()
        if r < 0.8:
            xs = positive(xs)
        if rng.random() < 0.25:
            # many items of large or of tiny magnitude: the mean is an ordinary number although the product of the items leaves
            # the range of doubles (certainly with 40 items; the sum of reciprocals that HARMEAN needs stays inside it)
            n = rng.choice([12, 20, 30, 40])
            if rng.random() < 0.5:
                xs = [rng.randrange(10 ** 8, 10 ** 9) if rng.random() < 0.7 else float(rng.randrange(10 ** 8, 10 ** 9)) + 0.5 for _ in range(n)]
            else:
                xs = [rng.randrange(1, 4096) / float(2 ** 40) for _ in range(n)]
    if fn == 'PRODUCT' and n > 12:
        xs = [x if abs(x) <= 30 else rng.randint(-9, 9) for x in xs]
    via = rng.choice(['lit', 'var', 'fn'])
    ys = list(xs)
    if fn in ORDER_FREE and rng.random() < 0.8 and not (fn == 'HARMEAN' and any(x <= 0 for x in xs)):
        rng.shuffle(ys)
    c = {'kind': 'stat', 'fn': fn, 'via': via, 'args': arrange(rng, xs, via != 'lit'), 'args2': arrange(rng, ys, via != 'lit')}
    return c


def gen_large(rng):
    n = gen_len(rng)
    xs = gen_numbers(rng, n, rng.choice(['int', 'dyadic', 'decimal']))
    ys = list(xs)
    rng.shuffle(ys)
    a1 = nest(rng, xs, 1)
    a2 = nest(rng, ys, 1)
    k = rng.randint(1, n)
    via = rng.choice(['lit', 'var', 'fn'])
    return {'kind': 'large', 'fn': 'LARGE', 'via': via, 'args': [a1, k], 'args2': [a2, k]}


def gen_slope(rng):
    n = rng.choice([2, 2, 3, 4, 5, 8, 12, 20])
    if rng.random() < 0.7:
        xs = gen_numbers(rng, n, rng.choice(['int', 'dyadic']))
        ys = gen_numbers(rng, n, rng.choice(['int', 'dyadic']))
    else:
        xs = [round(rng.uniform(-20, 20), 1) for _ in range(n)]
        ys = [round(rng.uniform(-20, 20), 1) for _ in range(n)]
    if rng.random() < 0.9 and len(set(xs)) == 1:
        xs[0] += 1
    if rng.random() < 0.3:
        # the same data on another scale (x in hundred-thousandths or billionths; y as it is, in thousandths or in thousands):
        # the slope is an ordinary number although sums of squares of the xs are tiny
        # (powers of two only: scaling by them is exact in binary floating point, so no new rounding enters)
        kx = rng.choice([2.0 ** -17, 2.0 ** -30])
        ky = rng.choice([1, 2 ** -10, 2 ** 10])
        xs = [x * kx for x in xs]
        ys = [y * ky for y in ys]
    return {'kind': 'slope', 'fn': 'SLOPE', 'via': rng.choice(['lit', 'var', 'fn']), 'args': ys + xs}


ALPHA = 'abc'


def gen_word(rng, wild=0.15):
    n = rng.choice([0, 1, 1, 2, 2, 3, 4])
    return ''.join(rng.choice('*?') if rng.random() < wild else rng.choice(ALPHA) for _ in range(n))


def gen_pattern(rng):
    while True:
        n = rng.choice([1, 2, 2, 3, 3, 4, 5])
        p = ''.join(rng.choice('*?') if rng.random() < 0.45 else rng.choice(ALPHA) for _ in range(n))
        if '*' in p or '?' in p:
            return p


def num_text(rng, v):
    """a criteria spelling of the number v"""
    if isinstance(v, int):
        s = str(v)
        if v >= 0 and rng.random() < 0.15:
            s = '+' + s
        if rng.random() < 0.1:
            s = s + '.0'
        return s
    s = repr(v)
    if s.startswith('0.') and rng.random() < 0.2:
        s = s[1:]
    return s


def gen_criterion(rng, cells_kind, cells):
    """a criterion for a range of 'num' or 'text' cells"""
    if cells_kind == 'num':
        nums = [v for v in cells if is_num(v)]
        r = rng.random()
        if nums and r < 0.7:
            v = rng.choice(nums)
        elif r < 0.9:
            v = rng.choice([0, 1, -1, 2.5, -0.125, 10, 100000, -100000])
        else:
            v = rng.randint(-30, 30)
        if rng.random() < 0.8:
            return {'form': 'op', 'op': rng.choice(OPS), 'num': num_text(rng, v)}
        return {'form': 'bare', 'text': num_text(rng, v)}
    if rng.random() < 0.75:
        return {'form': 'glob', 'text': gen_pattern(rng)}
    texts = [v for v in cells if isinstance(v, str) and v != '' and '*' not in v and '?' not in v]
    t = rng.choice(texts) if texts and rng.random() < 0.7 else (gen_word(rng, 0) or 'a')
    if not t or t[0] in '<>=':
        t = 'a'
    return {'form': 'bare', 'text': t}


def gen_cells(rng, n, kind, pure=False):
    if kind == 'num':
        xs = gen_numbers(rng, n, rng.choice(['int', 'dyadic', 'decimal']))
        if not pure and rng.random() < 0.3:     # text and blank cells among the numbers: they satisfy no ordering / = criterion
            xs = [rng.choice([gen_word(rng), None, '']) if rng.random() < 0.25 else x for x in xs]
        return xs
    return [gen_word(rng) for _ in range(n)]


def gen_crit(rng):
    fn = rng.choice(['SUMIF', 'COUNTIF', 'COUNTIF', 'AVERAGEIF', 'AVERAGEIF', 'SUMIFS', 'SUMIFS', 'AVERAGEIFS', 'MAXIFS', 'MAXIFS'])
    n = gen_len(rng)
    via = rng.choice(['lit', 'var', 'fn'])
    if fn in ('SUMIF', 'COUNTIF', 'AVERAGEIF'):
        three = fn == 'AVERAGEIF' and rng.random() < 0.6
        kind = 'text' if (fn == 'COUNTIF' or three) and rng.random() < 0.45 else 'num'
        cells = gen_cells(rng, n, kind, pure=not (fn == 'COUNTIF' or three))
        if fn == 'COUNTIF' and rng.random() < 0.2:        # mixed cells: wildcards, = and <> never raise
            cells = [rng.choice([gen_word(rng), rng.randint(-5, 5)]) for _ in range(n)]
            cr = gen_criterion(rng, 'text', cells) if rng.random() < 0.6 else \
                {'form': 'op', 'op': rng.choice(['=', '<>']), 'num': num_text(rng, rng.randint(-5, 5))}
        else:
            cr = gen_criterion(rng, kind, cells)
        args = [nest(rng, cells, 1), crit_text(cr)]
        if three:
            args.append(nest(rng, gen_numbers(rng, n, rng.choice(['int', 'dyadic', 'decimal'])), 1))
        return {'kind': 'crit', 'fn': fn, 'via': via, 'args': args, 'crits': [cr]}
    vals = gen_numbers(rng, n, rng.choice(['int', 'dyadic', 'decimal']))
    k = rng.choice([1, 1, 2, 2, 3])
    args = [vals]
    crits = []
    for _ in range(k):
        kind = rng.choice(['num', 'num', 'text'])
        cells = vals if (kind == 'num' and rng.random() < 0.3) else gen_cells(rng, n, kind)
        cr = gen_criterion(rng, kind, cells)
        args += [list(cells), crit_text(cr)]
        crits.append(cr)
    return {'kind': 'crit', 'fn': fn, 'via': via, 'args': args, 'crits': crits}


def gen_empty_selection(rng):
    c = gen_crit(rng)
    # replace the first criterion by one nothing satisfies
    fn = c['fn']
    cr = rng.choice([{'form': 'op', 'op': '>', 'num': '100000'}, {'form': 'op', 'op': '<', 'num': '-100000'},
                     {'form': 'op', 'op': '=', 'num': '77777.5'}, {'form': 'bare', 'text': '99999'},
                     {'form': 'bare', 'text': 'zzz'}])
    cells_text = any(isinstance(v, str) for v in flat(c['args'][0] if fn in ('SUMIF', 'COUNTIF', 'AVERAGEIF') else c['args'][1]))
    if cells_text:
        cr = rng.choice([{'form': 'bare', 'text': 'zzz'}, {'form': 'glob', 'text': 'z*'}, {'form': 'glob', 'text': '?z?*'},
                         {'form': 'op', 'op': '=', 'num': '5'}])
    c['crits'][0] = cr
    if fn in ('SUMIF', 'COUNTIF', 'AVERAGEIF'):
        c['args'][1] = crit_text(cr)
    else:
        c['args'][2] = crit_text(cr)
    c['empty'] = True
    return c


def gen_err(rng):
    fn = rng.choice(ERR_FNS)
    n = rng.choice([1, 2, 3, 5, 9])
    xs = gen_numbers(rng, n, rng.choice(['int', 'dyadic']))
    via = rng.choice(['lit', 'var', 'fn'])
    items = list(xs)
    k = rng.choice([1, 1, 2])
    for _ in range(k):
        if via == 'lit':
            inj = {'x': '1/0'}
        else:
            inj = {'e': rng.choice(ERR_CODES)}
        items.insert(rng.randint(0, len(items)), inj)
    if via == 'lit':
        # expressions cannot go inside the JSON-described nested lists that become variables: keep them top level or in literals
        args = []
        for it in items:
            args.append(it)
        return {'kind': 'err', 'fn': fn, 'via': 'lit', 'args': args}
    return {'kind': 'err', 'fn': fn, 'via': via, 'args': arrange(rng, items)}


UNIT_ITEMS = [0, 1, -1, 3, 3.0, 2.5, -0.125, 10, True, False, None, '', 'a', 'abc', 'ab', 'b', 'a*', '*', '?', 'a?c', '3', '3.0', ' 3',
              'A', 'aXc', 'a\nb', {'e': '#N/A'}, {'e': '#DIV/0!'}, {'d': [2020, 1, 15]}]
UNIT_CRITS = ['', '=', '<', '>', '<>', '>=', '<=', '==', '=<2', '=>2', '><3', '==3', '<<3', '>3', '<3', '>=3', '<=3', '=3', '<>3',
              '=3.0', '>2.5', '<-0.125', '>=-1', '<=+1', '=.5', '=-0', '> 3', '>3 ', '= 3', '3', '3.0', ' 3', '+3', '-1', '0', '007',
              '1_0', '2.5', '.5', '5.', 'a', 'abc', 'ab', 'A', '=a', '=abc', '<>a', '<>abc', '>a', '<b', '>=ab', '<=ab', '=a*', '<>a*',
              'a*', '*', '?', '??', '???', 'a?c', '*a*', '*c', 'a*c', '*?', '?*', '**', 'a**', '*b*', '\n', '=\n', '>\n3', '3\n4',
              'a*\nb', '>3\n', '=*', '>*', '*=', 'a=b', '3>', 'TRUE', 'True', '=TRUE', '<>', '=<>', '>=<=3', 'x=3']
UNIT_NONSTR = [3, None, True, 2.5, {'e': '#N/A'}, ['>', '1']]


def gen_unit_cases():
    out = []
    for cr in UNIT_CRITS:
        for it in UNIT_ITEMS:
            out.append({'kind': 'unit', 'fn': 'COUNTIF', 'via': 'fn', 'args': [[it], cr]})
        out.append({'kind': 'unit', 'fn': 'SUMIFS', 'via': 'fn', 'args': [[1, 2, 4], [1, 5, 'a'], cr]})
        out.append({'kind': 'unit', 'fn': 'MAXIFS', 'via': 'fn', 'args': [[-1, -2.5, -4], [1, 5, 'abc'], cr, ['a', 'ab', 'abc'], 'a*']})
        out.append({'kind': 'unit', 'fn': 'AVERAGEIFS', 'via': 'fn', 'args': [[1, 2, 4], [3, 3.0, '3'], cr]})
        out.append({'kind': 'unit', 'fn': 'AVERAGEIF', 'via': 'fn', 'args': [[3, 'a', 'abc', None], cr, [1, 2, 4, 8]]})
        out.append({'kind': 'unit', 'fn': 'SUMIF', 'via': 'fn', 'args': [[3, 2.5, -1, 10], cr]})
    for cr in UNIT_NONSTR:
        out.append({'kind': 'unit', 'fn': 'COUNTIF', 'via': 'fn', 'args': [[1, 2], cr]})
        out.append({'kind': 'unit', 'fn': 'SUMIFS', 'via': 'fn', 'args': [[1, 2], [1, 2], cr]})
    return out


E = lambda s: {'e': s}
EDGE = [
    # shapes, arities, non-numeric items: model comparison
    ('SUM', []), ('PRODUCT', []), ('AVERAGE', []), ('MIN', []), ('MAX', []), ('MEDIAN', []), ('MODE', []), ('COUNT', []),
    ('VAR', [5]), ('VAR.P', [5]), ('STDEV', [5]), ('STDEV.P', [5]), ('VAR', []), ('VAR.P', []), ('STDEV.P', []), ('GEOMEAN', []), ('HARMEAN', []),
    ('HARMEAN', [0]), ('HARMEAN', [-1]), ('HARMEAN', [2.5]), ('HARMEAN', [1, 0, 2]), ('HARMEAN', [1, -1, 2]), ('HARMEAN', [2, 2]),
    ('GEOMEAN', [0, 1]), ('GEOMEAN', [-1, 2]), ('GEOMEAN', [4]),
    ('SUM', ['3', 'x', None, True, [1, '2.5']]), ('PRODUCT', ['3', 2, None, 4]), ('AVERAGE', ['3', 'x', None, 5]),
    ('AVERAGEA', ['3', 'x', None, 5]), ('MAX', ['30', 2, 'x']), ('MAXA', ['30', 2, 'x']), ('MINA', ['30', 2, 'x']), ('MIN', ['-30', 2]),
    ('MEDIAN', ['3', 1, 2, 'x']), ('MODE', ['3', 3, 1, 1]), ('VARA', ['x', 1, 2]), ('STDEVA', ['x', 1, 2]), ('STDEVPA', ['x', 1, 2]),
    ('COUNT', ['a', None, 1, [2, [E('#N/A')]]]), ('COUNTA', ['a', None, 1, '', [2, [E('#N/A')]]]), ('COUNTBLANK', ['a', None, 1, '', [None, ['']]]),
    ('AVEDEV', [1, 2, 3, 4]), ('AVEDEV', [[1, 2], [3.5]]), ('AVEDEV', ['3', 1]), ('AVEDEV', [None, 1]), ('AVEDEV', ['x', 1]), ('AVEDEV', []),
    ('AVEDEV', [1, E('#NUM!'), 'x']), ('AVEDEV', [True, 2]),
    ('MODE', [1.0, 1, 2, 2]), ('MODE', [2, 1, 1.0, 2.0]), ('MAX', [1, 1.0]), ('MAX', [1.0, 1]), ('MIN', [2.0, 2]), ('MEDIAN', [1, 1.0, 1.0]),
    ('MEDIAN', [1.0, 1, 1]), ('MEDIAN', [1, 2]), ('MEDIAN', [1, 3]), ('AVERAGE', [1, 2]), ('AVERAGE', [1, 3]), ('AVERAGE', [1.0, 3]),
    ('VAR', [1, 2, 3]), ('VAR', [1, 2]), ('VAR', [1.0, 2, 3]), ('VAR.P', [1, 3]), ('VAR.P', [1, 2]),
    ('LARGE', [[3, 1, 2], 1]), ('LARGE', [[3, 1, 2], 3]), ('LARGE', [[3, 1, 2], 0]), ('LARGE', [[3, 1, 2], 4]), ('LARGE', [[3, 1, 2], 2.0]),
    ('LARGE', [[3, 1, 2], 1.5]), ('LARGE', [[3, 1, 2], '2']), ('LARGE', [[3, 1, 2], 'x']), ('LARGE', [[3, 1, 2], E('#N/A')]), ('LARGE', [[3, 1, 2], True]),
    ('LARGE', [[3, None, 2], 3]), ('LARGE', [[3, 'x', 2], 3]), ('LARGE', [[3, E('#NUM!'), 2], 1]), ('LARGE', [[3, E('#NUM!'), 2], 9]),
    ('LARGE', [5, 1]), ('LARGE', ['ab', 1]), ('LARGE', ['ab', 3]), ('LARGE', [[[1, 2], [3, 4]], 2]), ('LARGE', [[[1, 2], [3, 4]], 3]), ('LARGE', [[1, 2]]),
    ('SLOPE', []), ('SLOPE', [1, 2, 3]), ('SLOPE', [1, 2]), ('SLOPE', [1, 2, 3, 3]), ('SLOPE', [1, 2, 3, 4]), ('SLOPE', [1, 'x', 3, 4]),
    ('SLOPE', [[1, 2], [3, 4]]), ('SLOPE', [1, None, 3, 4]), ('SLOPE', [1, 2, E('#N/A'), 4]), ('SLOPE', [True, 2, 3, 5]),
    ('SUMIF', [[1, 2, 3]]), ('SUMIF', [5, '>3']), ('SUMIF', [[1, 'a', 3], '<>1']), ('SUMIF', [[1, None, 3], '>0']), ('SUMIF', [[1, [2, [3]]], '>1']),
    ('COUNTIF', [5, '>3']), ('COUNTIF', [[1, 2, 3], '>1', 3]), ('COUNTIF', [[1, 'a', None], '>0']),
    ('AVERAGEIF', [[1, 2, 3], '>1']), ('AVERAGEIF', [[1, 2, 3], '>1', []]), ('AVERAGEIF', [[1, 2, 3], '>1', 0]), ('AVERAGEIF', [[1, 2, 3], '>1', None]),
    ('AVERAGEIF', [[1, 2, 3], '>1', [10, 20]]), ('AVERAGEIF', [[1, 2, 3], '>1', [10, 'x', 30]]), ('AVERAGEIF', [[1, 2, 3], '>1', [10, '20', 30]]),
    ('AVERAGEIF', [[1, 2, 3], '>2', [10, 'x', 30]]), ('AVERAGEIF', [[], '>1']), ('AVERAGEIF', [[], '>1', [1]]), ('AVERAGEIF', [[1, 2, 3], '=<1']),
    ('AVERAGEIF', [7, '>1']), ('AVERAGEIF', [[1, 2, 3], '>1', 5]), ('AVERAGEIF', [[1, 2, 3], '>5']), ('AVERAGEIF', [[1, 2, 3], 3]),
    ('SUMIFS', []), ('SUMIFS', [[1, 2]]), ('SUMIFS', [[1, 2], [1, 2]]), ('SUMIFS', [[1, 2], 'ab', 'a*']), ('SUMIFS', [[1, 2], [1, 2, 3], '>0']),
    ('SUMIFS', [[1, 2], 5, '>0']), ('SUMIFS', [5, [1], '>0']), ('SUMIFS', [[1, 'x'], [1, 2], '>0']), ('SUMIFS', [[1, 'x'], [1, 2], '>1']),
    ('SUMIFS', [[1, 'x'], [1, 2], '<2']), ('SUMIFS', ['ab', ['a', 'b'], 'c']), ('SUMIFS', [[1, 2], [1, 2], '=<0']), ('SUMIFS', [[1, 2], [1, 2, 3], '=<0']),
    ('SUMIFS', [[1, 2], [0, 'a'], '<1', ['a', 'b'], '>0']), ('SUMIFS', [[[1, 2], [3, 4]], [1, 2], '>0']), ('SUMIFS', [[1, 2], [[1], [2]], '>0']),
    ('AVERAGEIFS', []), ('AVERAGEIFS', [[1, 2]]), ('AVERAGEIFS', [[1, 2], [1, 2]]), ('AVERAGEIFS', [[1, 2], [1], '>0']), ('AVERAGEIFS', [[1, 2], [1, 2, 3], '>1']),
    ('AVERAGEIFS', [5, [1], '>0']), ('AVERAGEIFS', [[1, 2], 5, '>0']), ('AVERAGEIFS', [[1, 2], 'ab', 'a']), ('AVERAGEIFS', [[1, 2], 'ab', 'c']),
    ('AVERAGEIFS', [[1, 'x'], [1, 2], '>1']), ('AVERAGEIFS', [[1, 2], [0, 'a'], '<1', ['a', 'b'], '>0']),
    ('MAXIFS', []), ('MAXIFS', [[1, 2]]), ('MAXIFS', [[-1, -2]]), ('MAXIFS', [[1, 2], [1, 2]]), ('MAXIFS', [['a', 'b'], [1, 2], '>0']),
    ('MAXIFS', [['a', 1], [1, 2], '>0']), ('MAXIFS', [['a', 1], [1, 2], '>1']), ('MAXIFS', [[None], [1], '>0']), ('MAXIFS', [[None, 1], [1, 1], '>0']),
    ('MAXIFS', [[[1, 2], [1, 3]], [1, 1], '>0']), ('MAXIFS', [[[1, 2], [1]], [1, 1], '>0']), ('MAXIFS', [[[1, 'a'], [1, 2]], [1, 1], '>0']),
    ('MAXIFS', [[True, 0.5], [1, 1], '>0']), ('MAXIFS', [[1, 2], [1], '>0']), ('MAXIFS', ['ab', [1, 1], '>0']), ('MAXIFS', [5, [1], '>0']),
    ('MAXIFS', [[E('#N/A'), 1], [1, 1], '>0']), ('MAXIFS', [[E('#N/A')], [1], '>0']),
]


def edge_cases():
    out = []
    for fn, args in EDGE:
        out.append({'kind': 'unit', 'fn': fn, 'via': 'fn', 'args': args})
    return out


# found by this check and repaired in /repo (f44ff49 LARGE, 71d424e ordering criterion on a text/blank cell): regression cases
REGRESSIONS = [
    {'kind': 'large', 'fn': 'LARGE', 'via': 'lit', 'args': [[1, 2, 3, 4], 3], 'args2': [[[1, 2], [3, 4]], 3]},
    {'kind': 'large', 'fn': 'LARGE', 'via': 'var', 'args': [[[1, 2], [3, 4]], 4], 'args2': [[4, [3, [2, [1]]]], 4]},
    {'kind': 'crit', 'fn': 'SUMIFS', 'via': 'lit', 'args': [[1, 2], ['a', 5], '>3'], 'crits': [{'form': 'op', 'op': '>', 'num': '3'}]},
    {'kind': 'crit', 'fn': 'COUNTIF', 'via': 'var', 'args': [['a', 5, None, 2, ''], '<=3'], 'crits': [{'form': 'op', 'op': '<=', 'num': '3'}]},
    {'kind': 'crit', 'fn': 'MAXIFS', 'via': 'fn', 'args': [[-1, -2, -3], [None, 'x', 7], '>=0'], 'crits': [{'form': 'op', 'op': '>=', 'num': '0'}]},
    {'kind': 'crit', 'fn': 'AVERAGEIFS', 'via': 'fn', 'args': [[1, 2, 4], [None, 'x', 7], '<0'], 'crits': [{'form': 'op', 'op': '<', 'num': '0'}], 'empty': True},
    # HARMEAN with a zero and a negative item is outside the textbook domain (positive items): model comparison only
    {'kind': 'unit', 'fn': 'HARMEAN', 'via': 'lit', 'args': [0, -1]},
    {'kind': 'unit', 'fn': 'HARMEAN', 'via': 'lit', 'args': [-1, 0]},
]

CORE = [
    # the two repaired defects
    {'kind': 'crit', 'fn': 'COUNTIF', 'via': 'lit', 'args': [['a*', 'ab', 'b', 'a'], 'a*'], 'crits': [{'form': 'glob', 'text': 'a*'}]},
    {'kind': 'crit', 'fn': 'COUNTIF', 'via': 'lit', 'args': [['a*', 'ab', 'b', 'a'], 'a?'], 'crits': [{'form': 'glob', 'text': 'a?'}]},
    {'kind': 'crit', 'fn': 'SUMIFS', 'via': 'lit', 'args': [[1, 2, 4, 8], ['a*', 'ab', 'b', 'a'], '?*'], 'crits': [{'form': 'glob', 'text': '?*'}]},
    {'kind': 'crit', 'fn': 'MAXIFS', 'via': 'lit', 'args': [[-1, -2, -3], [1, 2, 3], '>1'], 'crits': [{'form': 'op', 'op': '>', 'num': '1'}]},
    {'kind': 'crit', 'fn': 'MAXIFS', 'via': 'lit', 'args': [[-1, -2, -3], [1, 2, 3], '>5'], 'crits': [{'form': 'op', 'op': '>', 'num': '5'}], 'empty': True},
    {'kind': 'crit', 'fn': 'AVERAGEIFS', 'via': 'lit', 'args': [[1, 2, 3], [1, 2, 3], '>5'], 'crits': [{'form': 'op', 'op': '>', 'num': '5'}], 'empty': True},
    {'kind': 'crit', 'fn': 'AVERAGEIF', 'via': 'lit', 'args': [[1, 2, 3], '>5'], 'crits': [{'form': 'op', 'op': '>', 'num': '5'}], 'empty': True},
    {'kind': 'stat', 'fn': 'SUM', 'via': 'lit', 'args': [[[1, 2], [3, 4]]], 'args2': [4, [3, [2, [1]]]]},
    {'kind': 'err', 'fn': 'SUM', 'via': 'lit', 'args': [1, {'x': '1/0'}, 3]},
    {'kind': 'err', 'fn': 'MEDIAN', 'via': 'var', 'args': [[1, 2], E('#NUM!')]},
]


def cases(rng, ctx):
    thorough = ctx['tier'] == 'thorough'
    sc = ctx['scale'] * (60 if thorough else 2)
    out = [dict(c) for c in CORE] + [dict(c) for c in REGRESSIONS]
    out += edge_cases()
    out += gen_unit_cases()
    for fn in STAT_FNS:
        for _ in range(8 * sc):
            out.append(gen_stat(rng, fn))
        # scalar arguments only, zeros among them (each also evaluated over cells answered by the host's listener: a zero is an
        # item, a blank is none)
        for args in ([0, 3, 4.5], [2, 0, 0.0, 7], [0], [5, 0]):
            if fn in ('GEOMEAN', 'HARMEAN'):
                continue
            out.append({'kind': 'stat', 'fn': fn, 'via': 'var', 'args': list(args)})
    for _ in range(500 * sc):
        out.append(gen_stat(rng))
    for _ in range(250 * sc):
        out.append(gen_large(rng))
    for _ in range(200 * sc):
        out.append(gen_slope(rng))
    for _ in range(1400 * sc):
        out.append(gen_crit(rng))
    for _ in range(200 * sc):
        out.append(gen_empty_selection(rng))
    for _ in range(250 * sc):
        out.append(gen_err(rng))
    return out


def search(rng, ctx, disagreements):
    c2 = dict(ctx)
    c2['tier'] = 'thorough'
    return cases(rng, c2)


def shrink(case, msg):
    """drop items (from both arrangements) while the oracle still fails"""
    if case['kind'] not in ('stat',):
        return case, msg

    def fails(c):
        try:
            return oracle(c, impl(c))
        except Exception:
            return None
    c = dict(case)
    items = flat_raw(c['args'])
    items2 = flat_raw(c.get('args2', c['args']))
    c['args'], c['args2'], c['via'] = list(items), list(items2), 'fn' if case['via'] == 'fn' else 'lit'
    m = fails(c)
    if not m:
        return case, msg
    changed = True
    while changed and len(c['args']) > 1:
        changed = False
        for i in range(len(c['args'])):
            t = dict(c)
            t['args'] = c['args'][:i] + c['args'][i + 1:]
            a2 = list(c['args2'])
            try:
                a2.remove(c['args'][i])
            except ValueError:
                continue
            t['args2'] = a2
            mm = fails(t)
            if mm:
                c, m, changed = t, mm, True
                break
    return c, m
