# -*- coding: utf-8 -*-
"""C03 - parser instances are isolated; evaluation is re-entrant and thread-independent

Sub-checks (case kinds):
  nest    (a) re-entrancy: one (outer, inner) pair of formulas; the inner evaluation is interposed at every
          callback position of the outer one, on every target (other / same / newly constructed parser), and to
          depth 2 with a third formula; a third of the callbacks interpose it inside the host's `except XLError:`
          block, while an XL error the host raised itself is being handled; the pool includes formulas whose
          functions raise XL errors (RAISERS) and whose host function MKNA answers with an error object of the
          host's own making (HOSTMADE; these pairs run last); 5 fixed pairs come first: TEXT with a time format
          around TEXT with a date-only format, two number formats, LARGE / SMALL / MEDIAN / RANK / MATCH on `lst`, ONE
          host list registered on every parser of the rig and reset before every solo / nested run; a sample of
          the runs is compared with the Lean interleaving model (`interleave.batch`)
  bind    (b) isolation of bindings: variables / predefined names / functions / builtin names / listeners
          (on, once) of P and a journal listener that edits the argument list it is handed are invisible on a Q
          created before and a Q created after; variable / function cases also: P's own outcomes under the name and
          its other spellings (upper, lower, swapped case, capitalised) before and after ANOTHER parser R registers
          its own things under those spellings; one `globals` case: the process-wide interpreter settings read
          before, during (from a host function, a listener, a nested evaluation) and after evaluations; oracle only
  sched   (c) threads on distinct parsers under a harness-controlled scheduler: every lexer operation
          (`Lexer.input`, `Lexer.token`) waits for its turn according to the schedule; compared with the Lean
          interleaving model (`interleave.run owned …`)
  linesched (c) two threads on distinct long-lived parsers at LINE granularity: thread 1 runs under sys.settrace and is
          held, in turn, at the k-th line event inside the library's own files while the main thread evaluates the
          other formula completely on another parser; both outcomes against the outcomes alone; oracle only
  stress  (c) free-running threads with a 1 µs switch interval while a further thread constructs parsers; oracle only
  cold    (c) the first evaluations of a fresh interpreter process, on distinct parsers in threads released
          together; oracle only
  sheet   (d) = (a)+(c) a spreadsheet-style host on long-lived parsers: cells hold formulas, the callCellValue listener
          resolves a cell by evaluating its formula re-entrantly and hands the inner RESULT (blank, 0, FALSE, text,
          an error) to the setter; the callRangeValue listener walks the coordinates of the Cell objects it was
          given progressively and resolves every cell the same way, so that complete evaluations (nested on the same /
          another parser, or in another thread) run between two uses of the objects it holds; compared with an
          independent bottom-up reference in which no evaluation is nested in another one, and every formula with
          the Lean evaluator (`c04.batch`) on the reference values
  handed  (e) = (a)+(c) what the host's callbacks are HANDED: two or three formulas over one small set of coordinates of
          the case's own, every reference spelled anew ($ marks, letter case, corner order), evaluated on distinct
          parsers one after the other, nested in one another's callbacks (to depth 2) and in threads; every
          evaluation's record and the sequence of things its callbacks received (label, $ marks and coordinates of the
          Cell objects of cell and range events, the arguments of function events) against the same formula ALONE on a
          fresh parser in a fresh interpreter process that evaluates nothing else; one formula per case also against
          the Lean evaluator (`eval`: record and event sequence)
"""
import itertools
import json
import math
import os
import random as _random
import re
import sys
import threading
import time

from .. import common, fx
from ..common import enc_str
from . import c04, c08

ID = 'C03'
LEAN_MODULES = ['HotXL.Props.C03']
FUNCTIONS = ['hotxlfp.grammarparser.parser:Parser.__init__', 'hotxlfp.grammarparser.parser:Parser.parse',
             'hotxlfp.parser:Parser.__init__', 'hotxlfp.parser:Parser.parse', 'hotxlfp.parser:Parser.call_function',
             'hotxlfp.parser:Parser.call_variable', 'hotxlfp.parser:Parser.call_cell_value',
             'hotxlfp.parser:Parser.call_range_value', 'hotxlfp.parser:Parser.set_variable',
             'hotxlfp.parser:Parser.set_function', 'hotxlfp.tinyemitter:Emitter.__init__',
             'hotxlfp.tinyemitter:Emitter.on', 'hotxlfp.tinyemitter:Emitter.emit',
             'ply.yacc:LRParser.parse', 'ply.yacc:LRParser.parseopt_notrack', 'ply.lex:Lexer.input',
             'ply.lex:Lexer.token', 'ply.lex:Lexer.clone', 'ply.lex:lex',
             'hotxlfp.helper.cell:extract_label', 'hotxlfp.helper.cell:to_label']
RULE = ('(a) nest: all ordered pairs (outer, inner) of a seeded pool of formulas: of the 41 hand-written ones (CB '
        'calls, cell / range '
        'references, arrays, strings, syntax errors, illegal characters, unknown names, error literals, raising host '
        'functions, the '
        'empty formula) quick takes the first 5 + 9 seeded, thorough all; of the 7 RAISERS (a function, built-in or the '
        'host\'s, ends by RAISING an XL error, which the evaluator turns into the call\'s value: SUM / MAX / AVERAGE over an '
        'array holding NA(), SQRT(-1), LN(0), RAISE_NUM() / RAISE_NA(), under ISNA / IFNA / IFERROR / ISERROR / IF or bare, '
        'each with a CB call) quick takes 2 seeded, thorough all; of the 3 HOSTMADE (the host function MKNA ANSWERS with '
        'error.XLError("#N/A"), an error object of the host\'s own making, not one of the library\'s constants: CB(MKNA()), '
        'IFNA(MKNA(),CB(2))&"|", ISNA(MKNA())+CB(1)) quick takes 1 seeded, thorough all; plus up to 6 (thorough 16; +3 per '
        'step of scale) generated '
        'ones, alternately a C04 tree (c04.gen_top, depth 1-3, 30% with white space added) and a C08 tree (c08.gen, depth 1-3, '
        'error-leaf probability 0.15 / 0.4) with the hook function CB wrapped around each sub-expression with probability 0.4, '
        'duplicates among the generated ones dropped: up to 23^2 = 529 pairs quick (35^2 at scale 5), 67^2 = 4489 thorough. '
        'AHEAD of these pairs, as the first nest cases of the case list (after the bind and cold cases), 5 fixed pairs outer | inner, '
        'third formula CB(7), on functions that keep tables or work on a host list: CB(1)&" at "&TEXT(DATE(2024,3,5),"hh:mm") | '
        'TEXT(DATE(2024,11,17),"dd/mm/yyyy") (a time format evaluated after a date-only format ran inside it); '
        'CB(2)&TEXT(1234.5,"#,##0.00") | TEXT(0.25,"0%") (two number formats); CB(1)+INDEX(lst,1) | LARGE(lst,1); CB(1)+INDEX(lst,1) | '
        'SMALL(lst,1)+MEDIAN(lst); CB(1)+MATCH(2,lst,0) | RANK(2,lst)+COUNT(lst): with them up to 534 nest cases quick at scale 1, 1230 at scale 5, '
        '4494 thorough. lst = SHARED_LST: ONE Python list [3,1,2] that equip registers, the same object and without offset, as the '
        'variable lst on every parser of the rig (A, B, N, those of the solo rig, the thread parsers) and that reset_shared sets back '
        'in place to [3,1,2] before every solo run and every nested run; the outer formulas read lst AFTER their CB call, so an inner '
        'evaluation that edited the host\'s list (a sort in place) shows in INDEX / MATCH of the outer one. No pool formula and no '
        'sched / linesched / stress formula mentions lst. '
        'The C04 trees are c04.gen_top WITHOUT the leaves C04 switches on for its own cases only (no error variables, no '
        'non-dyadic decimals, no blank operands): 60% arithmetic / 25% one comparison / 15% & chain of 2-4 integer operands '
        'over prime integers, dyadic decimals, leading-dot, percent and power literals, 5 variables (ovr among them), 5 cell references in '
        'either case, + - * /, unary minus, one-argument calls ID() / ABS() (70 / 30 % of the call nodes; ABS is the shipped builtin '
        'here), parenthesised comparisons and (5% of the operands) parenthesised '
        'concatenations as numbers, boundary twins in 30% of the comparisons; minimal parentheses. The C08 trees are c08.gen: 4% '
        'a TEXT that spells an error code (literal, concatenation of two parts, 30% through ID, 30% lower case), 56% '
        'numeric, 25% one comparison (a quarter of these between two & nodes), 15% a & node; leaves are prime integers or, with '
        'the error-leaf probability, C08\'s error producers (error literals, e_<tag> variables, k/0, "a"+1, NA(), SUM(1/0), '
        'RAISE_<TAG>(), PYRAISE(), ID(1/0), the families date arithmetic before 1900 / text under + - * / / division by '
        'zero-likes / failing builtin calls / these inside calls / the cells C3, D4) or (15% of them) an error x array node '
        '(inline arrays, lst_* names, A1:A3 ranges); rendered fully parenthesised by c03.render8 - C08\'s wraps (IFERROR / '
        'IFNA / IS* / ERROR.TYPE and the falsy fallbacks 0 / FALSE / "") are applied in c08.forms, not in c08.gen, and do not '
        'occur here. All pool formulas are evaluated under THIS rig\'s bindings (equip), not C04\'s / C08\'s: C04\'s 5 variables (va vb v_c rate_x ovr; ovr a plain variable 41 + offset here, no listener answers it) '
        'and 5 cells shifted by the parser\'s offset, txt, lst (the shared list, not shifted), lv (set by the listener), e_<tag> / RAISE_<TAG> for C08\'s 9 codes, '
        'PYRAISE, MKNA, ID (the identity, not re-entrant), OFF, CB, every range a 2x2 block; the names only C08 binds (dt_*, '
        'blank, lst_*) are unknown names here (#NAME? after a callVariable event) and the cells C3 / D4 / Z9 blank - what a '
        'formula evaluates to does not matter, only that it does so alike alone and nested. The nest cases are sorted '
        '(stably) so that the pairs whose outer, inner or third formula is one of HOSTMADE come after all the others (intent: the '
        'solo runs of the other formulas, taken and cached at first use, precede the nest runs in which the host makes an '
        'error object of its own, so that what such an object leaves behind in the process shows against them). '
        'The outer formula runs on the '
        'pre-built parser A; A, B and N (built inside a callback) carry the same variables / functions / listeners with values '
        'shifted by 0 / 1000 / 2000, so an answer from another parser\'s bindings shows; A and B live for the whole process. For '
        'each pair the inner evaluation is '
        'interposed at EVERY callback position of the outer one (k-th call of the custom function CB, k-th callVariable / '
        'callCellValue / callRangeValue / callFunction emission, as counted in the outer formula\'s solo run) x target in '
        '{the other pre-built parser, the same parser, a parser constructed inside the callback}; depth 2: the inner '
        'evaluation\'s '
        'own callback positions evaluate a third formula (seeded from the pool per pair; quick: 4 seeded (first position, target) '
        'x every second position x a seeded target; '
        'thorough: every first position and target x every second position x every target). '
        'handling: every plan (depth 1 and depth 2) gets, with probability 0.33, a seeded one of C08\'s 9 error codes under '
        '`handling`, and independently with probability 0.33 the depth-2 trigger of a plan gets one too: the callback then '
        'raises that XL error itself (error.from_message), catches it, and interposes the evaluation INSIDE its '
        '`except XLError:` block, i.e. while an XL error the host raised is being handled; the other callbacks interpose it '
        'directly. A plan kept by shrink (`only`) keeps its handling. '
        'Oracle: every evaluation\'s record and callback-event sequence equal those of its solo run on a parser of the same '
        'profile (A / B / a fresh N of a separate solo rig; solo runs are made outside any except block, with no trigger), '
        'as many evaluations ran as planned, no callback fires outside an '
        'evaluation or during an evaluation on another parser (in the solo runs of the outer and the inner formula too). '
        'Model: of the n runs of a pair every max(1, n // 6)-th one (6-11 runs when n >= 6, else all), if it passed and none of '
        'its formulas is the empty one, '
        'as interleave.batch on the observed order of lexer operations: tokens fetched per activation, every activation '
        'finished; pairs '
        'without such a run are oracle-only. The except block (handling) and the host-made error object are not part of the '
        'request: the model sees formula texts, fetch counts and the order of lexer operations only. '
        '(b) bind (oracle-only; 43 cases: one `globals` case + 42 = 10 kinds x names x 2 seeded values, an integer in '
        '2..10^6-1, a text v0..v99): globals (fresh parser P with the host functions PROBE, which records the settings and '
        'answers 1, and NEST, which evaluates its text argument on P re-entrantly, and a callCellValue listener that records '
        'the settings and sets 2; the 6 formulas PROBE()+1, A1+PROBE(), SUM(A1:B2)+PROBE(1,2), NEST("PROBE()+A1")*2, '
        '1/0+PROBE(), PROBE( evaluated in a row; the 10 process-wide interpreter settings recursion limit, switch interval, '
        'decimal context precision and rounding, locale (LC_ALL), environment TZ, int_max_str_digits, threading.stack_size, '
        'sys.dont_write_bytecode, repr of the SIGALRM handler are read before, at every PROBE / listener call - i.e. during '
        'an evaluation, a nested one included - and after all six: every snapshot must equal the one before, and at least '
        'one must have been taken during an evaluation; the six records are kept but not judged), variable (4 names, '
        'one spelled like a builtin), predefined name overridden (TRUE, NULL), custom function (3 names), function named like a '
        'builtin (SUM, MAX), callVariable (2 names) / callCellValue / callRangeValue / callFunction listener, once-listener, '
        'journal (a callFunction listener on P that edits the argument list it is handed, P evaluating the probe once; 4 probes '
        'with zero-argument and builtin calls). Q created before P and Q created after the registration: the probe on both, and '
        'on the first once more after P evaluated it, gives the record the first Q gave before the registration (for variable / '
        'function / callVariable that must be #NAME?, for callCellValue / once blank), P\'s listeners are not called by Q, '
        'get_variable / get_function on Q do not find the binding. Variable and function cases (the 4 + 3 names x 2 values) '
        'go on: `spell` = the distinct ones of the name, its upper-case, lower-case, swapped-case and capitalised form '
        '(sorted, at most 5); P evaluates every spelling (a function as sp(1,2)) and, for a variable, every sp*2 as well '
        '(P_spell_before); then ANOTHER parser R, created now, registers under every spelling but the name itself a variable '
        'holding the text R<i> / a function answering R<i>, and evaluates the first of the forms once; P evaluates all forms '
        'again (P_spell_after): every record must equal the one before; what P gives for a spelling (the value or #NAME?) is '
        'not judged, only that it stays. '
        '(c) sched: 2-3 threads, each on its own long-lived parser (thread i always the same one), every Lexer.input/Lexer.token '
        'call (= one step) gated by a schedule (list of thread ids, finished threads skipped, round-robin tail): quick = ALL '
        'interleavings of va*2 | 1/0 (5+5 steps: 252) and of 1 @ | nope (3+3: 20) + 250 x scale seeded schedules (3 threads with '
        'probability 0.4); thorough = these + ALL of CB(7) | -va+1 (6+6: 924) and 2+*3 | A1+2 (4+5: 126) + 1500 x scale seeded 3-thread '
        'schedules; seeded ones: formulas from 14 short ones + the first 30 non-empty pool formulas under 40 characters '
        '(the nest pool in its order: hand-written, RAISERS, HOSTMADE, generated; thorough: 40 hand-written ones qualify, so '
        'all 30 are hand-written), bursts of '
        '1-3 turns, 30% '
        'cut to a seeded prefix; the step counts come from solo runs on the thread parsers made while the cases are '
        'generated. Oracle: each thread\'s record equals its solo record on that parser; model (interleave.run): the '
        'tokens each thread fetched. linesched (oracle-only, no model request): LINE_PAIRS = 16 pairs of formulas of '
        'one shape with different arguments (YEAR, COUNTIF, SUMIF, ROMAN, DAYS, UPPER & LEFT, va*2+A1 | vb*3+B2, wildcard MATCH, '
        'DEC2HEX, MONTH + DAY, text date + 1, SUM + CB, IF & text, ROUND, TEXTJOIN, AVERAGEIF); quick = 8 seeded pairs, each '
        'with stride 3 and a seeded phase 0..2 (every third line boundary) + the fixed pair YEAR("2021-03-01") | '
        'YEAR("2020-01-15") at all boundaries = 9 cases; thorough = all 16 pairs at all boundaries + the fixed pair = 17 cases; '
        'a pair is swapped with probability 0.5; scale does not change this. run_linesched: f1 on thread parser 0, f2 on thread '
        'parser 1 (the long-lived parsers of the sched cases), each evaluated once first (= the outcomes alone, so both parsers '
        'have evaluated their formula before); a counting run of f1 in a thread under sys.settrace gives the number L of line '
        'events in frames whose code file lies under <repo>/hotxlfp/ (frames of ply, of the standard library and of the harness '
        'are not traced) and its record must equal the first one; then for k = 1..L (quick: k = phase+1, phase+4, ...) a new '
        'thread evaluates f1 under the same trace and is held at its k-th line event (it waits for an Event, at most 60 s) while '
        'the main thread, untraced, evaluates f2 completely; then thread 1 is released and joined; a k the thread does not reach '
        'is skipped; the record of thread 1 and the record of f2 must equal the ones alone (exactly, type and repr); a case '
        'stops at its first k with a finding. stress (oracle-only): 4 '
        'free-running threads x 300 (thorough 900) evaluations of that formula set on distinct parsers, switch '
        'interval 1 µs, while '
        'a fifth thread keeps constructing parsers (up to 2000; each construction rebinds ply\'s process-global '
        'lexer) and evaluates '
        'va*2+1 on them; every record equals the solo one. cold (oracle-only): 2 cases (thorough 4) of 3 / 4 / 6 '
        'formulas of a pool '
        'of 15 (builtin calls, va+1), each run 2 (thorough 3) times in a fresh interpreter: one parser per formula, the FIRST '
        'evaluations of the process in threads released together by a barrier; repr(result) and error equal those of the formula '
        'on a fresh parser in the harness process. '
        '(d) sheet: 200 x scale (thorough 1500 x scale) seeded random spreadsheets (2-4 x 2-4 cells, thorough 2-5 x 2-5; constants: '
        'integers -3..12, 0, blank, logicals, the texts ab / xy / empty, the fractions 2.5 / -0.5 / 0.25; a cell holds a formula '
        'with probability 0.35 / 0.5 / 0.7 per sheet: depth 1-2 over cell references (letters in mixed case, 12% '
        '$-forms), integers '
        '0..12, "ab" / "xy" / TRUE / FALSE, ranges written in all four corner orders and '
        'mixed case that like to share corner labels, SUM / IF / ISBLANK / IFERROR / NULL / + - * / & and comparisons; acyclic by '
        'a seeded direction in which references go, nesting depth <= 2 by levels) served by a host on long-lived parsers P, Q, R '
        'that live for the whole process: the callCellValue listener evaluates the cell\'s formula re-entrantly (seeded: on the '
        'same parser / alternating between P and Q / on parsers constructed inside the listener, at most 2 per sheet, then '
        're-used / a seeded mix; 25% memoising per query) and hands the inner result to the setter (an inner error: seeded, as '
        'blank result or as the error '
        'value); the callRangeValue listener walks start.row.index .. end.col.index (seeded: re-read at every cell / at every '
        'row / read once), resolving every cell the same way, and keeps the Cell objects it received. Runs per sheet: every '
        'query (up to 2 formula cells by reference or inside ISBLANK / IF(ISBLANK) / SUM / +1 / &"|", the whole sheet and 1-2 '
        'seeded ranges in seeded corner orders under SUM, a seeded expression of depth 2) on P; then 3 (thorough 6) extra runs '
        'in which, at a seeded hold point of the listeners '
        '(before a cell is resolved, i.e. between two uses of the held objects; the first one at or after the seeded index that '
        'keeps the depth <= 2) one more complete evaluation is interposed - '
        'on the same parser, nested on parser R, or on R in ANOTHER THREAD while the first thread waits (one forced '
        'interleaving per hold point; the only way for a formula that itself nests to depth 2) - its formula half of the time a '
        'range that shares a written corner label with a range '
        'of the sheet, the other corner anywhere, in either order, else a seeded range, a formula cell or a seeded expression; '
        'every 25th sheet (thorough: every 4th) sweeps EVERY hold '
        'point of one query x the three ways. Oracle: every evaluation that ran (query, nested, interposed, other thread) gives '
        'the record and makes the lookups (labels, coordinates, values set) that the same formula gives in the reference: the '
        'sheet evaluated bottom-up, every formula ALONE on a reference parser the host never sees (a fresh one per formula for '
        'every 5th sheet and the fixed witnesses, else one fresh parser per sheet used strictly sequentially), the values of '
        'the cells it mentions computed before and supplied as plain constants; the Cell objects a listener holds read the '
        'same after every evaluation that ran while it was using them as when it received them; no listener fires outside an '
        'evaluation or on another parser\'s evaluation; a run of more than 4000 evaluations or a range walk of more than 200000 '
        'cells fails as run-away. Model (c04.batch): the Lean evaluator on '
        'every formula of the sheet with the cells / ranges bound to the reference values, its record against the one observed '
        'inside the running sheet and the one alone (floats: 8 ulps or 1e-9 x max(1,|v|); model answers without opinion skipped; '
        'excepted: formulas with & beside another operator / function and formulas that look up text other than ab / xy / empty / '
        'blank / filled). 4 fixed witness sheets (regression cases) are always run. '
        '(e) handed: 3 fixed witnesses (HAND_CORPUS) + 100 x scale (thorough 600 x scale) seeded cases, generated LAST (the seeded streams '
        'of the kinds above are as they were) and run last. A case = 2 (30%) or 3 formulas over coordinates of its own: 2-4 points of a 4 x 4 '
        'block whose corner is seeded in rows 1..6000 x columns A..AAZ, i.e. within A1..ABC6003 (so that two cases, and the other kinds, which stay within A1..Z9, do '
        'not meet on a coordinate but by accident), 1-3 ranges between those points (a point with itself included: one-cell ranges); each formula '
        'one of 16 templates (SUM / COUNT / MAX - MIN / IF / CB over a range, a cell, both, two ranges, two cells, the variable hv, & and + '
        'of cells) whose range slots take, with probability 0.6, a range the first formula used; EVERY occurrence of a reference is spelled '
        'anew: each corner with one of the four $ forms (A1, $A$1, A$1, $A1: equally likely), each letter lower case with probability 0.3, '
        'a range in one of the four corner orders (as written, swapped, the two mixed ones). how = label (60%) | coords: the host answers a '
        'cell / range event with numbers computed from the LABEL TEXT of the Cell objects it is handed (so that $A$1 and A1 are different '
        'data, as for a host that keeps its blocks under the reference text) or from their coordinates, plus the parser\'s offset (X 0, Y '
        '1000, Z 2000, a parser constructed on the spot 3000); it reads the objects after any interposed evaluation has run. parsers = long '
        '(60%: X, Y, Z live for the whole process and serve every such case) | fresh (constructed for the case). Runs of a case (hand_plans): '
        'seq = f0 on X, f1 on Y, f2 on Z, f0 on X, f1 on Y one after the other; the first three again, each in a thread of its own started '
        'and joined in turn; nest = f1 on Y and, at EVERY callback position k of it (k-th callback of any sort: CB call, callVariable / '
        'callCellValue / callRangeValue / callFunction listener, counted in f1\'s outcome alone), before the host answers, f0 evaluated '
        'completely inside the callback on a seeded one of X / Y itself / a parser constructed there (thorough: on each), and for one seeded k '
        '(thorough: every k) once more with f2 evaluated at a seeded callback of f0 on a seeded one of Z / f0\'s parser / a new one; thread = '
        'the same with f0 evaluated in ANOTHER THREAD on X or a new parser while the thread of f1 waits inside its callback (quick: two seeded '
        'positions k when there are more than two; thorough: all, on both); free = f0 on X | f1 on Y | f2 on Z in threads released together by '
        'a barrier, 3 (thorough 8) evaluations each. About 9 runs and 30 evaluations per case quick. Oracle, for EVERY evaluation of every run: '
        'its record (type and repr) and the sequence of what its callbacks were handed - [cell, label, (row index, row label, row $), (column '
        'index, column label, column $)], [range, the same for both Cell objects], [fn, name, arguments], [var, name], [cb, arguments] - equal '
        'those of the same formula ALONE under the same host on a fresh parser with the same offset: hand_refs, one forked child process per '
        '(formula, offset, how), forked from a server process that imported the library (common.load_repo), constructed one parser it never '
        'uses and evaluated nothing, so that nothing any evaluation of this run left behind in the process can reach the yardstick; the Cell '
        'objects a callback holds read the same after the interposed evaluation as before; as many evaluations ran as planned; no callback '
        'fires outside an evaluation of its thread or during an evaluation on another parser. Model (eval; every case): ONE formula of the '
        'case (seeded which) on the Lean evaluator, cells and ranges bound to what the host answers for the labels the formula is handed alone, '
        'CB as (first), hv as variable: the model\'s record and its event sequence (labels, $ marks, indices, function arguments; the cb '
        'entries have no counterpart and are left out) against those observed in the first run of that formula on its parser and those of '
        'the reference process. shrink keeps the first failing run (`only`). '
        'search (proof or correspondence broke, no failing input yet): the whole generation again at scale 3, oracle only, until '
        'the first failure. Records are compared exactly (type and repr), only the sheet model comparison has a tolerance. '
        'Time limits are wall-clock (time.time): 180 s per sched case, 120 s stress, 120 s per cold process, '
        '60 s per other-thread sheet evaluation, 60 s per thread of a handed run, 30 s per reference process (a reference that crashes or '
        'does not answer is a harness error too); exceeded = harness error (exit 2), never a verdict (the 60 s waits of a '
        'linesched run are plain Event / join time-outs: a held thread is released after them and no error is raised). '
        'Non-trivial = nest / sheet: a nested (or other-thread) evaluation actually ran; handed: a run had evaluations on two parsers or in two threads; sched: the effective order switches '
        'threads at least twice; bind: the binding is live on P (P answers differently or its listener was called), globals: at least one snapshot '
        'was taken during an evaluation; stress, cold, linesched: '
        'always. Bulk counting (weight): a nest / sheet case counts every evaluation (sheet: reference runs included), every run '
        'with nesting and every model comparison it made; a handed case counts every evaluation, its reference processes and every run '
        'that had evaluations on two parsers or in two threads; stress counts its evaluations and constructed parsers; linesched '
        'counts 2 evaluations per boundary run + 3 and every boundary run but one as non-trivial input.')
TRUSTED = ['granularity: the controlled scheduler and the Lean model interleave at lexer operations (Lexer.input / Lexer.token); '
           'interleavings inside these methods (bytecode level) are exercised only by the free-running stress and '
           'cold-start tests; between the two, linesched interleaves at the line events of the library\'s own files (not inside '
           'ply, so not inside these two methods, and not within a line), one whole evaluation of the other thread per '
           'boundary, the other parser warm',
           'linesched: sys.settrace on the thread that evaluates f1 (global tracer returns the local one only for frames '
           'whose co_filename starts with <repo>/hotxlfp/) delivers the same sequence of line events in every run of f1 on '
           'that parser, so that the k-th event of the held run is the k-th boundary of the counting run; threading.Event '
           'holds and releases the thread; the main thread is not traced; tracing does not change what f1 evaluates to '
           '(checked: the counting run must give the record of the untraced first run)',
           'CPython object internals (GIL atomicity of dict/list operations, copy.copy in Lexer.clone) are not modelled',
           'ply keeps the LR stacks in locals of LRParser.parseopt_notrack; the attributes it leaves on the LRParser object '
           '(token, statestack, symstack, state, errorok) are never read back because p_error always raises - by inspection, '
           'and exercised by the same-parser nesting cases with failing formulas',
           'the machine step of an activation (LR automaton + semantic actions) is a parameter of the Lean model; the driver '
           'comparison instantiates only the lexer side (token sequences), with the number of fetches of each activation taken '
           'from its SOLO run on the real implementation',
           'the taps: while a nest / sched case or one of their solo runs goes on, ply.lex.Lexer.input and '
           'Lexer.token are replaced (class attributes) by '
           'wrappers that attribute each call to the evaluation frame on top of the stack / to the calling thread and, in sched '
           'cases, make it wait for its turn; every lexer access of the library is assumed to go through these two methods',
           'solo runs are the yardstick and are taken once per (formula, parser profile / thread parser) and cached; the thread '
           'parsers and the pre-built parsers A, B, P, Q, R serve all cases of the process, so the yardstick itself is taken on '
           'parsers with a history; cold-start cases are measured against the warm harness process',
           'nest, handling / host-made errors: the model request carries formula texts, fetch counts and the order of lexer '
           'operations only; that a callback interposes its evaluation inside its own `except XLError:` block, and that the host '
           'function MKNA answers with an XLError object of its own making, are outside the model and judged by the oracle '
           'alone, against solo runs made outside any except block. Running the HOSTMADE pairs last orders the nest cases only: '
           'the solo runs that count the steps of the sched formulas are made on the thread parsers while the cases are '
           'generated, and in the quick tier a HOSTMADE formula can be among them',
           'nest: the formulas borrowed from C04 / C08 (c04.gen_top, c08.gen) are taken as texts only; their own oracles '
           '(exact values, which error wins) are not applied here and the bindings are this rig\'s, not theirs - the solo run '
           'is the only yardstick',
           'nest, shared list: SHARED_LST is a module-level list of the harness; setting it back in place before every solo and '
           'nested run (reset_shared) is the harness\'s hygiene, so that a run starts from [3,1,2] whatever an earlier one did to '
           'it - a mutation shows within the run that made it (outer against its solo run), not across runs; the thread parsers '
           'carry lst too but no scheduled formula reads it; the five pairs stand first among the nest cases only: bind cases and '
           'the step-counting solo runs of the sched formulas (made while the cases are generated) have evaluated on other parsers '
           'of the process before',
           'bind, globals: the 10 interpreter settings watched are the harness\'s choice (a setting not in the list is not '
           'watched), they are read only at the calls of the host function PROBE and of the callCellValue listener and after '
           'the six evaluations (a change undone between two reads is not seen), the SIGALRM handler is compared by repr; '
           'the records of the six probe formulas are not judged',
           'the wall-clock limits of the scheduler, the stress, cold-start and other-thread runs are harness errors, not verdicts',
           'sheet cases: the Lean model has no host that evaluates inside a listener; the model comparison binds the cells and '
           'ranges of every formula to the values of the bottom-up reference run of the REAL implementation (inner outcomes are '
           'data for the model) and compares the model\'s record with the record observed inside the running sheet and alone, '
           'floats within 8 ulps or 1e-9 x max(1,|v|) (the model sums exactly, Python left to right); formulas in which '
           'text may reach '
           'arithmetic (dateutil reads "7-6" as a date) and model answers without opinion are not compared',
           'sheet cases: the harness\'s own reading of a formula text (which cells a formula mentions, for the bottom-up order) '
           'is a regular expression over texts its own generator wrote; a lookup the text does not announce aborts the run '
           'as a harness error',
           'sheet cases with another thread: one forced interleaving per hold point (thread 1 up to the hold point, thread 2 '
           'completely, thread 1 to the end); finer interleavings of such hosts are not enumerated',
           'handed cases, the yardstick: "alone" is taken OUTSIDE the harness process - a server process (python -c, the source of the '
           'host functions canon / canon_rec / snap / hh_* / HandLog sent along by inspect.getsource, so both sides run the same host '
           'code) loads the tree under test through common.load_repo (ply never writes its tables into the tree), constructs one parser '
           'it never uses (so that ply\'s tables are built once) and then only forks: every reference evaluation is the first and only '
           'evaluation of its child process (os.fork; the children run eight at a time on three identical servers, 30 s alarm each). '
           'Trusted: fork gives the child the state of a process that has evaluated nothing; constructing that one parser leaves '
           'nothing behind that an evaluation on another parser could read; the JSON pipe carries the answers unchanged',
           'handed cases, the host: its answers are pure functions of what it is handed (label text or coordinates of the Cell objects, '
           'read after any interposed evaluation) and of the parser\'s offset, so an interposed evaluation changes nothing the host '
           'itself contributes; ranges are answered with at most 6 x 6 values; CB returns its first argument',
           'handed cases, threads: the other-thread runs are ONE forced interleaving per callback position (thread 1 up to its '
           'callback, thread 2 completely, thread 1 to the end); the free-running threads are unscheduled (3 or 8 evaluations each) '
           'and may or may not overlap; the outcome alone is deterministic, so every interleaving is judged by the same yardstick',
           'handed cases, model: the environment of the Lean evaluator (cell and range values) is computed by the harness from the labels '
           'the REFERENCE process was handed; a label the model computes differently finds no entry (blank) and shows as a disagreement. '
           'One formula per case is compared; the interposition itself (nesting, threads) is outside the model, which sees one '
           'evaluation alone']
ASSUMPTIONS = ['"outcome" = the record returned by Parser.parse, compared exactly (type and repr of result and '
               'error); in nest and '
               'sheet cases the sequence of callback events of an evaluation is compared too '
               '(an evaluation that made different host calls was influenced); a planned nested evaluation that does not start, '
               'and a listener that fires outside any evaluation or during an evaluation on another parser, count as violations',
               'host callbacks return values that do not depend on the nested evaluation (the hook function is the identity); '
               'the solo run of the outer formula uses the same callbacks with the nested evaluation switched off',
               'threads run on DISTINCT parser objects (the statement does not promise one parser object to be usable from '
               'two threads at once); constructing parsers in one thread while others evaluate, and the very first evaluations '
               'of a process made in several threads at once, are read as covered by "whatever the interleaving"',
               'bind: "Q" is both a parser created before P and one created after the registration; invisible = Q answers the '
               'probe as it did before the registration (#NAME? for variable / function / callVariable, blank for a cell, '
               'merely unchanged for predefined names, builtin names, ranges, callFunction and journal), P\'s '
               'listeners are not called and '
               'get_variable / get_function on Q raise KeyError (an overridden predefined name may keep its own value on Q)',
               'bind, spellings: isolation holds in both directions and for every spelling: what another parser R registers '
               'under the upper-case, lower-case, swapped-case or capitalised spelling of a name P has registered, and an '
               'evaluation on R, leave every outcome of P - under the name as registered and under those spellings - as it '
               'was; whether P itself treats two spellings as one name is not this property\'s subject',
               'linesched: "whatever the interleaving" is read at the granularity of source lines of the library too: a '
               'thread may be suspended between any two lines of hotxlfp\'s own code for as long as another thread needs for a '
               'complete evaluation on its own parser, and both get what they get alone',
               'bind, journal: the argument list handed to a callFunction listener belongs to that evaluation: a host '
               'that edits it '
               'on P must not change what Q computes (what P itself computes afterwards is not judged)',
               'bind, globals: the process-wide interpreter settings (recursion limit, switch interval, decimal context, locale, '
               'TZ, int_max_str_digits, thread stack size, dont_write_bytecode, SIGALRM handler) belong to the host and to every '
               'other parser and thread of the process: an evaluation - failing ones and nested ones included - leaves them as it '
               'found them, also while it is in progress (as seen from a host function and a listener it calls)',
               'nest: a host may start an evaluation from inside an `except XLError:` block of its own, while an XL error it '
               'raised itself is being handled; that is an ordinary nested evaluation, and it and the evaluations around it '
               'yield what they yield alone (outside any except block)',
               'nest: a host function may answer with an XLError object it constructed itself (error.XLError("#N/A")) instead of '
               'one of the library\'s constants; formulas that call it fall under the statement like any other, and making '
               'such an object does not change what other evaluations of the process yield',
               'nest: a host may register one and the same list object as a variable on several parsers; an evaluation that '
               'reads it (LARGE, SMALL, MEDIAN, RANK, COUNT, MATCH, INDEX) leaves it as it is, so that the evaluation it is nested '
               'in reads what it reads alone; likewise what a formatting function (TEXT) keeps from one format text does not '
               'change what another format yields around it',
               'sheet cases: a listener that evaluates the formula of a cell and hands its result to the setter is a host '
               'whose answer depends on the nested evaluation only through that evaluation\'s outcome; "the outcome '
               'it yields when '
               'run alone" is therefore computed bottom-up: the formula on a parser of the reference, the outcomes of the cells '
               'it mentions supplied as constants. Sheets are generated with nesting depth <= 2 (query -> formula cell -> formula '
               'cell), the depth the statement quantifies over; an evaluation in another thread may itself nest to that depth',
               'sheet cases: the arguments an evaluation hands to its listeners belong to that evaluation: Cell objects that '
               'change their label / coordinates while the listener that received them is still running, because another '
               'evaluation ran in between, count as one evaluation influencing the other (checked only within the event, not '
               'after the listener returned)',
               'sheet cases: a host that is served a finite acyclic sheet makes finitely many evaluations; a top-level run that '
               'exceeds 4000 evaluations or walks more than 200000 range cells counts as a violation (run-away), not '
               'as a harness error',
               'the reference parser of a sheet may serve several formulas one after the other (sequential reuse of a parser '
               'is not this property\'s subject); every 5th sheet uses a fresh parser per formula',
               'handed cases: "the outcome it yields when run alone" includes what the evaluation hands to its host - the label, the '
               '$ marks and the coordinates of the Cell objects of cell and range events, the arguments of function events and of '
               'custom functions, in their order: a host resolves its data by them, so an evaluation that is handed another '
               'spelling of a reference ($A$1 for A1) because ANOTHER evaluation - on another parser, in another thread, nested in '
               'it, or earlier in the process - wrote it that way has been influenced by that evaluation, whether or not this host\'s '
               'answer (and so the record) changes',
               'handed cases: "alone" = the same formula under the same host on a fresh parser in a process in which nothing else has '
               'been evaluated; evaluations that ran EARLIER in the process on another parser count as "other evaluations" just as '
               'nested and concurrent ones do (the statement\'s "never influence each other"); the last two evaluations of the '
               'sequential run repeat f0 on X and f1 on Y, i.e. a parser re-evaluating its own formula after other parsers evaluated '
               'other spellings in between - judged against the same yardstick, since the formula is the same']
EXHAUSTIVE = {'quick': False, 'thorough': False}

KINDS = ['fn', 'var', 'cell', 'range', 'callfn']
KIND_TEXT = {'fn': 'call of the custom function CB', 'var': 'callVariable listener', 'cell': 'callCellValue listener',
             'range': 'callRangeValue listener', 'callfn': 'callFunction listener'}
OFFSETS = {'A': 0, 'B': 1000, 'N': 2000}


class HarnessTimeout(BaseException):
    """not an Exception: Parser.parse swallows those"""


class SchedulerFailure(RuntimeError):
    """the harness's own scheduler failed (deadlock / timeout): exit 2, never a verdict"""


def _harness_errors(fn):
    """HarnessTimeout is a BaseException inside the workers (Parser.parse swallows Exceptions); out here it is
    an ordinary harness error"""
    def wrapped(*a, **kw):
        try:
            return fn(*a, **kw)
        except HarnessTimeout as e:
            _restore()
            raise SchedulerFailure('HARNESS-TIMEOUT in the C03 thread scheduler: %s' % (e,))
    wrapped.__name__ = fn.__name__
    return wrapped


# =========================================================================== taps on ply's lexer

_tap = [None]
_patched = [None]


def _install():
    """replace Lexer.input / Lexer.token by observing wrappers (class attributes); idempotent"""
    if _patched[0] is not None:
        return
    common.load_repo()
    import ply.lex as lex
    orig_input, orig_token = lex.Lexer.input, lex.Lexer.token

    def input_(self, s):
        tap = _tap[0]
        h = tap.enter(self) if tap is not None else None
        if h is None:
            return orig_input(self, s)
        try:
            r = orig_input(self, s)
            tap.note(h, ['input', s])
            return r
        finally:
            tap.leave(h)

    def token_(self):
        tap = _tap[0]
        h = tap.enter(self) if tap is not None else None
        if h is None:
            return orig_token(self)
        try:
            try:
                t = orig_token(self)
            except BaseException as e:
                tap.note(h, ['raise', type(e).__name__])
                raise
            tap.note(h, ['eof'] if t is None else [t.type, t.value])
            return t
        finally:
            tap.leave(h)
    lex.Lexer.input = input_
    lex.Lexer.token = token_
    _patched[0] = (lex, orig_input, orig_token)


def _restore():
    if _patched[0] is None:
        return
    lex, oi, ot = _patched[0]
    lex.Lexer.input = oi
    lex.Lexer.token = ot
    _patched[0] = None
    _tap[0] = None


class tapped(object):
    def __init__(self, tap):
        self.tap = tap

    def __enter__(self):
        _install()
        _tap[0] = self.tap
        return self.tap

    def __exit__(self, *a):
        _restore()


# =========================================================================== canonical values

def canon(v):
    if v is None or isinstance(v, (bool, int, str)):
        return [type(v).__name__, repr(v)]
    if isinstance(v, float):
        return ['float', repr(v)]
    if isinstance(v, (list, tuple)):
        return ['list'] + [canon(x) for x in v]
    if isinstance(v, dict):
        return ['dict'] + [[canon(k), canon(x)] for k, x in sorted(v.items(), key=repr)]
    return [type(v).__name__, str(v)]


def canon_rec(rec):
    return [canon(rec.get('result')), canon(rec.get('error'))] if isinstance(rec, dict) else ['not-a-record', repr(rec)]


# =========================================================================== parsers with a profile

def equip(p, off, hook):
    """variables, functions, listeners of one parser; every value depends on `off` so that a parser answering
    with another parser's bindings shows; `hook(parser, kind, payload)` is told about every callback"""
    from hotxlfp.formulas import error
    for k, v in c04.VARS.items():
        p.set_variable(k, v + off)
    p.set_variable('txt', 'text%d' % off)
    p.set_variable('lst', SHARED_LST)          # ONE host list registered on every parser of the host (reset before every run)
    for tag, code in c08.CODES.items():
        p.set_variable('e_' + tag, error.from_message(code))

        def mk(code=code):
            def f(*a):
                raise error.from_message(code)
            return f
        p.set_function('RAISE_' + tag.upper(), mk())

    def pyraise(*a):
        raise ValueError('boom')
    p.set_function('PYRAISE', pyraise)
    # a host function answering with an error object of the host's own making (not one of the library's constants)
    p.set_function('MKNA', lambda *a: error.XLError('#N/A'))
    p.set_function('ID', lambda x: x)
    p.set_function('OFF', lambda: off)

    def cb(*a):
        hook(p, 'fn', canon(list(a)))
        return a[0] if a else None
    p.set_function('CB', cb)

    def on_var(name, setter):
        hook(p, 'var', name)
        if name == 'lv':
            setter(7 + off)
    p.on('callVariable', on_var)

    def on_cell(cell, setter):
        hook(p, 'cell', cell.label)
        for lab, v in c04.CELLS.items():
            if cell.label == lab.upper():
                setter(v + off)
    p.on('callCellValue', on_cell)

    def on_range(start, end, setter):
        hook(p, 'range', [start.label, end.label])
        setter([[1 + off, 2 + off], [3 + off, 4 + off]])
    p.on('callRangeValue', on_range)

    def on_fn(name, args, setter):
        hook(p, 'callfn', [name, canon(list(args))])
    p.on('callFunction', on_fn)
    return p


SHARED_LST = [3, 1, 2]


def reset_shared():
    SHARED_LST[:] = [3, 1, 2]


def new_parser(off, hook):
    common.load_repo()
    import hotxlfp
    return equip(hotxlfp.Parser(), off, hook)


# =========================================================================== (a) nesting rig

class Frame(object):
    def __init__(self, parser, name, formula, trigger):
        self.parser, self.name, self.formula, self.trigger = parser, name, formula, trigger
        self.count = {}
        self.events = []
        self.fired = False
        self.rec = None
        self.ops = []          # lexer operations of this activation


class Rig(object):
    """two pre-built parsers A, B (B built last: ply's process-global lexer is B's), parsers built inside
    callbacks are N; a stack of evaluation frames; also the tap that attributes lexer operations to frames"""

    def __init__(self):
        self.names = {}
        self.A = self.build('A')
        self.B = self.build('B')
        self.stack = []
        self.frames = []
        self.order = []        # frame index of every lexer operation, in global order = the schedule
        self.anomalies = []

    def build(self, name):
        p = new_parser(OFFSETS[name], self.hook)
        self.names[id(p)] = name
        if not hasattr(self, 'keep'):
            self.keep = []
        self.keep.append(p)
        return p

    def reset(self):
        self.stack, self.frames, self.order, self.anomalies = [], [], [], []

    # ---- tap interface
    def enter(self, lexer):
        if not self.stack:
            return None
        return self.stack[-1]

    def note(self, fr, what):
        fr.ops.append(what)
        self.order.append(self.frames.index(fr))

    def leave(self, fr):
        pass

    # ---- callbacks of the parsers
    def hook(self, X, kind, payload):
        if not self.stack:
            self.anomalies.append('a %s of parser %s fired outside any evaluation' % (KIND_TEXT[kind], self.names.get(id(X))))
            return
        fr = self.stack[-1]
        if fr.parser is not X:
            self.anomalies.append('a %s registered on parser %s fired during an evaluation on parser %s' % (
                KIND_TEXT[kind], self.names.get(id(X)), fr.name))
            return
        k = fr.count.get(kind, 0)
        fr.count[kind] = k + 1
        fr.events.append([kind, payload])
        tr = fr.trigger
        if tr is not None and not fr.fired and tr['pos'] == [kind, k]:
            fr.fired = True
            if tr.get('handling'):
                # the host interposes the evaluation while it is handling an XL error of its own (inside its `except XLError:`)
                from hotxlfp.formulas import error
                try:
                    raise error.from_message(tr['handling'])
                except error.XLError:
                    self.evaluate(tr['formula'], tr['target'], X, tr.get('then'))
            else:
                self.evaluate(tr['formula'], tr['target'], X, tr.get('then'))

    def evaluate(self, formula, target, current, trigger):
        if target == 'same':
            T = current
        elif target == 'other':
            T = self.B if current is self.A else self.A
        elif target == 'new':
            T = self.build('N')
        else:
            T = {'A': self.A, 'B': self.B}[target]
        fr = Frame(T, self.names[id(T)], formula, trigger)
        self.frames.append(fr)
        self.stack.append(fr)
        try:
            fr.rec = T.parse(formula)
        finally:
            self.stack.pop()
        return fr


def frame_summary(fr):
    return {'on': fr.name, 'f': fr.formula, 'rec': canon_rec(fr.rec), 'events': fr.events, 'ops': fr.ops,
            'fired': fr.fired, 'count': dict(fr.count)}


_solo_cache = {}
_solo_rig = [None]


def solo(formula, name):
    """the formula evaluated ALONE on a parser with profile `name` (A, B pre-built; N freshly constructed)"""
    key = (formula, name)
    if key not in _solo_cache:
        if _solo_rig[0] is None:
            _solo_rig[0] = Rig()
        rig = _solo_rig[0]
        rig.reset()
        reset_shared()
        with tapped(rig):
            fr = rig.evaluate(formula, 'new' if name == 'N' else name, rig.A, None)
        s = frame_summary(fr)
        if rig.anomalies:
            s['anomalies'] = list(rig.anomalies)
        _solo_cache[key] = s
    return _solo_cache[key]


def positions(summary):
    return [[k, i] for k in KINDS for i in range(summary['count'].get(k, 0))]


def target_name(target, current):
    if target == 'same':
        return current
    if target == 'new':
        return 'N'
    return 'B' if current == 'A' else 'A'


_nest_rig = [None]


def run_nested(outer, trigger):
    """-> (list of frame summaries in start order, schedule, anomalies).  The pre-built parsers A and B live as
    long as the process: whatever one evaluation leaves behind on them is in view of all later ones"""
    if _nest_rig[0] is None:
        _nest_rig[0] = Rig()
    rig = _nest_rig[0]
    rig.reset()
    reset_shared()
    del rig.keep[2:]
    with tapped(rig):
        rig.evaluate(outer, 'A', rig.A, trigger)
    return [frame_summary(fr) for fr in rig.frames], list(rig.order), list(rig.anomalies)


def nest_plans(c):
    """the (trigger, description) list of a nest case: every position x target, and the depth-2 ones"""
    if c.get('only') is not None:
        return [c['only']]
    outer, inner, third = c['outer'], c['inner'], c['third']
    rng = _random.Random(c['seed'])
    thorough = c.get('thorough', False)
    plans = []
    so = solo(outer, 'A')
    for pos in positions(so):
        for target in ('other', 'same', 'new'):
            plans.append({'pos': pos, 'target': target, 'formula': inner})
    # depth 2
    firsts = [(pos, t) for pos in positions(so) for t in ('other', 'same', 'new')]
    if not thorough and len(firsts) > 4:
        firsts = rng.sample(firsts, 4)
    for pos, target in firsts:
        tn = target_name(target, 'A')
        si = solo(inner, tn)
        for pos2 in positions(si):
            for t2 in (('other', 'same', 'new') if thorough else (rng.choice(('other', 'same', 'new')),)):
                plans.append({'pos': pos, 'target': target, 'formula': inner,
                              'then': {'pos': pos2, 'target': t2, 'formula': third}})
    # a third of the callbacks interpose their evaluation while the host is handling an XL error of its own
    codes = sorted(c08.CODES.values())
    for pl in plans:
        if rng.random() < 0.33:
            pl['handling'] = rng.choice(codes)
        if pl.get('then') and rng.random() < 0.33:
            pl['then']['handling'] = rng.choice(codes)
    return plans


def describe(plan, depth=1):
    s = 'at the %d. %s the callback evaluates %r on %s' % (
        plan['pos'][1] + 1, KIND_TEXT[plan['pos'][0]], plan['formula'],
        {'other': 'another pre-built parser', 'same': 'the SAME parser', 'new': 'a parser constructed inside the callback'}[plan['target']])
    if plan.get('handling'):
        s += ' (while the host is handling the error %s it raised itself, inside its except block)' % plan['handling']
    if plan.get('then'):
        s += '; inside that evaluation, ' + describe(plan['then'], depth + 1)
    return s


def expected_frames(outer, plan):
    """[(formula, profile)] of the activations a plan should start, in order"""
    res = [(outer, 'A')]
    cur = 'A'
    p = plan
    while p is not None:
        cur = target_name(p['target'], cur)
        res.append((p['formula'], cur))
        p = p.get('then')
    return res


def judge_nested(outer, plan, frames, anomalies):
    """the property statement on one nested run; None = fine"""
    if anomalies:
        return anomalies[0]
    exp = expected_frames(outer, plan)
    if len(frames) != len(exp):
        return 'expected %d evaluations, %d ran' % (len(exp), len(frames))
    for depth, (fr, (f, prof)) in enumerate(zip(frames, exp)):
        s = solo(f, prof)
        who = ['the outer evaluation', 'the nested evaluation', 'the evaluation nested at depth 2'][depth]
        if fr['rec'] != s['rec']:
            return '%s of %r (parser %s) gives %r, alone it gives %r' % (who, f, prof, fr['rec'], s['rec'])
        if fr['events'] != s['events']:
            return '%s of %r (parser %s) made the host calls %r, alone it makes %r' % (who, f, prof, fr['events'], s['events'])
    return None


# =========================================================================== (b) bindings

BIND_WHAT = ['variable', 'predefined', 'function', 'builtin', 'callVariable', 'callCellValue', 'callRangeValue',
             'callFunction', 'once', 'journal']


def interpreter_settings():
    """process-wide settings an evaluation has no business changing (every other thread and parser lives under them too)"""
    import decimal
    import locale
    import signal
    import sys
    import threading
    out = {'recursionlimit': sys.getrecursionlimit(), 'switchinterval': sys.getswitchinterval(),
           'decimal_prec': decimal.getcontext().prec, 'decimal_rounding': decimal.getcontext().rounding,
           'locale': locale.setlocale(locale.LC_ALL), 'tz': os.environ.get('TZ'), 'int_max_str_digits': getattr(sys, 'get_int_max_str_digits', lambda: None)(),
           'stack_size': threading.stack_size(), 'dont_write_bytecode': sys.dont_write_bytecode}
    try:
        out['sigalrm'] = repr(signal.getsignal(signal.SIGALRM))
    except (ValueError, AttributeError):
        pass
    return out


def run_globals(c):
    """the settings before, DURING (seen from a host function the formula calls, from a listener and from a nested evaluation)
    and after an evaluation"""
    common.load_repo()
    import hotxlfp
    P = hotxlfp.Parser()
    seen = []
    P.set_function('PROBE', lambda *a: (seen.append(interpreter_settings()), 1)[1])
    P.set_function('NEST', lambda t: P.parse(t)['result'])
    P.on('callCellValue', lambda cell, setter: (seen.append(interpreter_settings()), setter(2)))
    before = interpreter_settings()
    recs = [canon_rec(P.parse(f)) for f in c['formulas']]
    after = interpreter_settings()
    return {'globals': True, 'before': before, 'seen': seen, 'after': after, 'recs': recs, 'formulas': c['formulas']}


def run_bind(c):
    """-> dict of observations"""
    if c['what'] == 'globals':
        return run_globals(c)
    common.load_repo()
    import hotxlfp
    what, name, val = c['what'], c['name'], c['value']
    obs = {}
    calls = []
    Qb = hotxlfp.Parser()
    P = hotxlfp.Parser()
    probe = {'variable': name, 'predefined': name, 'function': name + '(1,2)', 'builtin': name + '(1,2)',
             'callVariable': name, 'callCellValue': 'A1', 'callRangeValue': 'A1:B2', 'callFunction': 'SUM(1,2)',
             'once': 'A1', 'journal': name}[what]
    obs['probe'] = probe
    obs['before'] = canon_rec(Qb.parse(probe))
    if what in ('variable', 'predefined'):
        P.set_variable(name, val)
    elif what in ('function', 'builtin'):
        P.set_function(name, lambda *a: val)
    elif what == 'callVariable':
        P.on('callVariable', lambda n, setter: (calls.append(n), setter(val)))
    elif what == 'callCellValue':
        P.on('callCellValue', lambda cell, setter: (calls.append(cell.label), setter(val)))
    elif what == 'callRangeValue':
        P.on('callRangeValue', lambda s, e, setter: (calls.append(s.label), setter([[val]])))
    elif what == 'callFunction':
        P.on('callFunction', lambda n, a, setter: (calls.append(n), setter(val)))
    elif what == 'once':
        P.once('callCellValue', lambda cell, setter: (calls.append(cell.label), setter(val)))
    elif what == 'journal':
        # a call journal on P that edits the argument list it is handed (its own copy, as far as the host can tell)
        P.on('callFunction', lambda n, a, setter: (calls.append(n), a.insert(0, val), a.append(n)))
        P.parse(probe)
        del calls[:]
    Qa = hotxlfp.Parser()
    obs['Q_before'] = canon_rec(Qb.parse(probe))
    obs['Q_after'] = canon_rec(Qa.parse(probe))
    obs['calls_by_Q'] = list(calls)
    obs['P'] = canon_rec(P.parse(probe))
    obs['calls_by_P'] = len(calls) - len(obs['calls_by_Q'])
    obs['Q_before_again'] = canon_rec(Qb.parse(probe))
    obs['calls_total_after_Q'] = len(calls) - obs['calls_by_P']
    if what in ('variable', 'function'):
        # P's own outcomes - the name as registered and in its other spellings - before and after ANOTHER parser R registers
        # things under those other spellings: what R does is R's business
        spell = sorted(set([name, name.upper(), name.lower(), name.swapcase(), name.capitalize()]))
        forms = [(sp if what == 'variable' else sp + '(1,2)') for sp in spell] + [sp + '*2' for sp in spell if what == 'variable']
        n0 = len(calls)
        obs['P_spell_before'] = [[f, canon_rec(P.parse(f))] for f in forms]
        R = hotxlfp.Parser()
        for i, sp in enumerate(spell):
            if sp != name:
                if what == 'variable':
                    R.set_variable(sp, 'R%d' % i)
                else:
                    R.set_function(sp, lambda *a, i=i: 'R%d' % i)
        R.parse(forms[0])
        obs['P_spell_after'] = [[f, canon_rec(P.parse(f))] for f in forms]
        del calls[n0:]
    # through the public accessors too
    leak = []
    for who, q in (('Q created before', Qb), ('Q created after', Qa)):
        try:
            if what in ('variable', 'predefined'):
                got = q.get_variable(name)
                if what == 'variable' or canon(got) == canon(val):
                    leak.append('%s: get_variable(%r) = %r' % (who, name, got))
            elif what in ('function', 'builtin'):
                q.get_function(name)
                leak.append('%s: get_function(%r) succeeds' % (who, name))
        except KeyError:
            pass
    obs['leak'] = leak
    return obs


def judge_bind(c, obs):
    if obs.get('globals'):
        for when, snap in [('after the evaluations', obs['after'])] + [('during an evaluation', x) for x in obs['seen']]:
            for k, v in obs['before'].items():
                if snap.get(k) != v:
                    return ('evaluating %r changes the process-wide interpreter setting %s: %r before, %r %s (other threads and parsers '
                            'run under it too)' % (obs['formulas'], k, v, snap.get(k), when))
        if not obs['seen']:
            return 'the probe formulas %r called neither the host function nor the listener' % (obs['formulas'],)
        return None
    what, val = c['what'], c['value']
    unset = obs['before']          # what a parser that never heard of the binding answers
    for who in ('Q_before', 'Q_after', 'Q_before_again'):
        if obs[who] != unset:
            return '%s %r set on parser P; %s evaluates %r to %r, without P it gives %r' % (
                what, c['name'], who.replace('_', ' '), obs['probe'], obs[who], unset)
    if obs['calls_by_Q'] or obs['calls_total_after_Q']:
        return 'a %s listener of parser P was called by an evaluation on parser Q (%r)' % (what, obs['calls_by_Q'])
    if obs['leak']:
        return '%s %r set on P is visible on Q: %s' % (what, c['name'], '; '.join(obs['leak']))
    for (f, b), (_f, a) in zip(obs.get('P_spell_before', []), obs.get('P_spell_after', [])):
        if a != b:
            return ('%s %r set on parser P: P evaluates %r to %r; after ANOTHER parser registered its own %ss under other spellings of '
                    'that name, P evaluates it to %r' % (what, c['name'], f, b, what, a))
    # the statement's words: Q gives #NAME? / blank
    if what in ('variable', 'function', 'callVariable') and unset != [canon(None), canon('#NAME?')]:
        return '%r on an untouched parser gives %r, not #NAME?' % (obs['probe'], unset)
    if what in ('callCellValue', 'once') and unset != [canon(None), canon(None)]:
        return '%r on an untouched parser gives %r, not blank' % (obs['probe'], unset)
    return None


# =========================================================================== (c) threads

class Gate(object):
    """turn-taking at lexer operations.  schedule = list of thread ids; a finished thread's turns are
    skipped; when the list is used up the turns go round-robin"""

    def __init__(self, schedule, n, deadline):
        self.cv = threading.Condition()
        self.sched = list(schedule)
        self.n = n
        self.i = 0
        self.finished = [False] * n
        self.effective = []
        self.ops = [[] for _ in range(n)]
        self.lexers = [set() for _ in range(n)]
        self.idents = {}
        self.deadline = deadline
        self.dead = False

    def _holder(self):
        while True:
            t = self.sched[self.i] if self.i < len(self.sched) else (self.i - len(self.sched)) % self.n
            if not self.finished[t]:
                return t
            self.i += 1

    # ---- tap interface
    def enter(self, lexer):
        me = self.idents.get(threading.get_ident())
        if me is None:
            return None
        with self.cv:
            while True:
                if self.dead:
                    raise HarnessTimeout('scheduler aborted')
                if self._holder() == me:
                    break
                left = self.deadline - time.time()
                if left <= 0:
                    self.dead = True
                    self.cv.notify_all()
                    raise HarnessTimeout('thread %d waited for its turn past the deadline (schedule position %d)' % (me, self.i))
                self.cv.wait(min(left, 1.0))
        self.lexers[me].add(id(lexer))
        return me

    def note(self, me, what):
        self.ops[me].append(what)

    def leave(self, me):
        with self.cv:
            self.effective.append(me)
            self.i += 1
            self.cv.notify_all()

    def finish(self, me):
        with self.cv:
            self.finished[me] = True
            self.cv.notify_all()


_thread_parsers = []


def thread_parser(i):
    while len(_thread_parsers) <= i:
        _thread_parsers.append(new_parser(1000 * len(_thread_parsers), lambda *a: None))
    return _thread_parsers[i]


_tsolo = {}


def thread_solo(i, formula):
    key = (i, formula)
    if key not in _tsolo:
        g = Gate([], 1, time.time() + 30)
        g.idents[threading.get_ident()] = 0
        p = thread_parser(i)
        with tapped(g):
            rec = p.parse(formula)
        _tsolo[key] = {'rec': canon_rec(rec), 'ops': g.ops[0]}
    return _tsolo[key]


def run_sched(formulas, schedule, timeout=180.0):
    n = len(formulas)
    parsers = [thread_parser(i) for i in range(n)]
    gate = Gate(schedule, n, time.time() + timeout)
    recs = [None] * n
    errs = [None] * n

    def work(i):
        gate.idents[threading.get_ident()] = i
        try:
            recs[i] = parsers[i].parse(formulas[i])
        except BaseException as e:   # HarnessTimeout, or anything parse let through
            errs[i] = e
        finally:
            gate.finish(i)
    ths = [threading.Thread(target=work, args=(i,), daemon=True) for i in range(n)]
    with tapped(gate):
        for t in ths:
            t.start()
        for t in ths:
            t.join(max(0.1, gate.deadline - time.time() + 2.0))
        if any(t.is_alive() for t in ths):
            with gate.cv:
                gate.dead = True
                gate.cv.notify_all()
            for t in ths:
                t.join(2.0)
            raise HarnessTimeout('scheduler deadlock: threads still alive after %.0fs (formulas %r, schedule %r, position %d)' % (
                timeout, formulas, schedule, gate.i))
    for e in errs:
        if isinstance(e, HarnessTimeout):
            raise e
    shared = [(i, j) for i in range(n) for j in range(i + 1, n) if gate.lexers[i] & gate.lexers[j]]
    return {'recs': [canon_rec(r) if e is None else ['exception', repr(e)] for r, e in zip(recs, errs)],
            'ops': gate.ops, 'effective': gate.effective, 'shared_lexer': shared}


def steps_of(i, formula):
    return len(thread_solo(i, formula)['ops'])


def run_stress(c):
    common.load_repo()
    rng = _random.Random(c['seed'])
    n, m = c['threads'], c['n']
    pool = c['pool']
    work = [[rng.choice(pool) for _ in range(m)] for _ in range(n)]
    parsers = [thread_parser(i) for i in range(n)]
    for i in range(n):
        for f in set(work[i]):
            thread_solo(i, f)
    out = [[None] * m for _ in range(n)]
    errs = [None] * n
    go = threading.Event()

    def run(i):
        go.wait(10)
        try:
            p = parsers[i]
            for k, f in enumerate(work[i]):
                out[i][k] = canon_rec(p.parse(f))
        except BaseException as e:
            errs[i] = repr(e)
    built = [0]
    stop = threading.Event()

    def construct():
        # a further thread keeps CONSTRUCTING parsers (each construction rebinds ply's process-global lexer and
        # parse function) and evaluates on each new instance
        import hotxlfp
        go.wait(10)
        try:
            while not stop.is_set() and built[0] < 2000:
                q = hotxlfp.Parser()
                q.set_variable('va', built[0])
                r = canon_rec(q.parse('va*2+1'))
                if r != [canon(built[0] * 2 + 1), canon(None)]:
                    errs.append('parser constructed while other threads evaluate: va*2+1 with va=%d gives %r' % (built[0], r))
                    return
                built[0] += 1
        except BaseException as e:
            errs.append('constructing thread: %r' % (e,))
    errs.append(None)
    old = sys.getswitchinterval()
    ths = [threading.Thread(target=run, args=(i,), daemon=True) for i in range(n)]
    ths.append(threading.Thread(target=construct, daemon=True))
    try:
        sys.setswitchinterval(1e-6)
        for t in ths:
            t.start()
        go.set()
        deadline = time.time() + 120
        for t in ths[:n]:
            t.join(max(0.1, deadline - time.time()))
        stop.set()
        ths[n].join(max(0.1, deadline - time.time()))
    finally:
        stop.set()
        sys.setswitchinterval(old)
    if any(t.is_alive() for t in ths):
        raise HarnessTimeout('stress threads did not finish in 120 s')
    bad = []
    for e in errs[n:]:
        if e:
            bad.append([n, -1, 'a parser constructed concurrently', e, None])
    for i in range(n):
        if errs[i]:
            bad.append([i, -1, None, errs[i], None])
        for k, f in enumerate(work[i]):
            s = thread_solo(i, f)['rec']
            if out[i][k] != s and len(bad) < 5:
                bad.append([i, k, f, out[i][k], s])
    return {'bad': bad, 'evaluations': n * m + built[0], 'constructed': built[0]}


# =========================================================================== (d) spreadsheet-style host
#
# A sheet = {label: constant | '=formula'}.  The host keeps ONE long-lived parser P (and Q, R); its callCellValue
# listener resolves a cell by evaluating the cell's formula re-entrantly (same parser / the other long-lived parser /
# a parser built on the spot) and hands the inner RESULT to the setter; its callRangeValue listener walks the
# coordinates of the two Cell objects it was given PROGRESSIVELY (re-reading start/end while it goes) and resolves
# every cell the same way, so that complete evaluations run between two uses of the objects the listener holds.
# The reference: every formula on a parser of its own, dependencies first, their values fed in as constants.

_REF = re.compile(r'(\$?)([A-Za-z]+)(\$?)([0-9]+)(?::(\$?)([A-Za-z]+)(\$?)([0-9]+))?')
SHEET_MAX_LEVEL = 2            # the statement quantifies to nesting depth 2: query -> formula cell -> formula cell
SHEET_EVAL_CAP = 4000
SHEET_NEW_PARSERS = 2          # parsers a sheet case constructs inside its listeners (then it goes on using those)


class SheetBudget(BaseException):
    """a sheet evaluation ran away (not an Exception: Parser.parse swallows those)"""


def col_label(c):
    s, c = '', c + 1
    while c > 0:
        c, r = divmod(c - 1, 26)
        s = chr(65 + r) + s
    return s


def col_index(s):
    n = 0
    for ch in s.upper():
        n = n * 26 + ord(ch) - 64
    return n - 1


def lab(r, c):
    return col_label(c) + str(r + 1)


def unlab(label):
    col = label.rstrip('0123456789')
    return int(label[len(col):]) - 1, col_index(col)


def is_formula(content):
    return isinstance(content, str) and content.startswith('=')


def static_refs(formula):
    """the references written in a formula (the generator writes no digits outside numbers and references):
    ('cell', spelled upper, r, c) | ('range', [r1, c1, r2, c2] normalised, spelled start upper, spelled end upper)"""
    out = []
    for m in _REF.finditer(formula):
        a1, cl1, a2, rw1, b1, cl2, b2, rw2 = m.groups()
        r, c = int(rw1) - 1, col_index(cl1)
        if cl2 is None:
            out.append(('cell', m.group(0).upper(), r, c))
        else:
            r2, c2 = int(rw2) - 1, col_index(cl2)
            s, e = m.group(0).upper().split(':')
            out.append(('range', [min(r, r2), min(c, c2), max(r, r2), max(c, c2)], s, e))
    return out


def static_deps(formula):
    """labels of the cells a formula looks up, ranges expanded"""
    deps = []
    for ref in static_refs(formula):
        if ref[0] == 'cell':
            deps.append(lab(ref[2], ref[3]))
        else:
            r1, c1, r2, c2 = ref[1]
            deps += [lab(r, c) for r in range(r1, r2 + 1) for c in range(c1, c2 + 1)]
    return deps


def sheet_level(cells, formula, memo=None, path=()):
    """how deep the evaluation of a formula nests on this sheet (0 = it touches constants only)"""
    memo = {} if memo is None else memo
    lv = 0
    for d in set(static_deps(formula)):
        content = cells.get(d)
        if not is_formula(content):
            continue
        if d in path:
            raise ValueError('cyclic sheet at %s' % d)
        if d not in memo:
            memo[d] = 1 + sheet_level(cells, content[1:], memo, path + (d,))
        lv = max(lv, memo[d])
    return lv


def snap(cell):
    """what a listener can read off a Cell object"""
    def pl(x):
        try:
            return [x.index, x.label, x.is_absolute]
        except AttributeError:
            return repr(x)
    return [cell.label, pl(cell.row), pl(cell.col)]


def host_value(opt, rec):
    """what the host puts into a cell whose formula evaluated to `rec`"""
    if rec['error'] is not None and opt.get('errors') == 'pass':
        from hotxlfp.formulas import error
        return error.from_message(rec['error'])
    return rec['result']


_sheet_host = [None]
_sheet_parsers = {}


def _bind_sheet(p, name):
    def on_cell(cell, setter):
        h = _sheet_host[0]
        if h is not None:
            h.on_cell(name, cell, setter)

    def on_range(start, end, setter):
        h = _sheet_host[0]
        if h is not None:
            h.on_range(name, start, end, setter)
    p.on('callCellValue', on_cell)
    p.on('callRangeValue', on_range)
    return p


def sheet_parser(name):
    """the long-lived parsers of the sheet host: they serve every sheet case of the process"""
    if name not in _sheet_parsers:
        common.load_repo()
        import hotxlfp
        _sheet_parsers[name] = _bind_sheet(hotxlfp.Parser(), name)
    return _sheet_parsers[name]


PARSER_TEXT = {'P': 'the long-lived parser P', 'Q': 'the second long-lived parser Q', 'R': 'a third long-lived parser R'}


def parser_text(name):
    return PARSER_TEXT.get(name, 'a parser %s constructed inside the listener' % name)


class SheetHost(object):
    """one top-level evaluation on the sheet, formula cells resolved re-entrantly"""

    def __init__(self, c, extra=None, new=None):
        self.cells = c['cells']
        self.opt = c['host']
        self.rng = _random.Random(c.get('seed', 0))
        self.frames = []
        self.stacks = {}
        self.anomalies = []
        self.points = 0
        self.extra = extra
        self.extra_at = None
        self.extra_level = sheet_level(self.cells, extra['formula']) if extra else 0
        self.memo = {}
        self.new = {} if new is None else new      # parsers constructed inside listeners (kept for the whole case)
        self.ticks = 0
        self.main = threading.get_ident()

    # ---- evaluations
    def stack(self):
        return self.stacks.setdefault(threading.get_ident(), [])

    def parser(self, name):
        if name in self.new:
            return self.new[name]
        return sheet_parser(name)

    def evaluate(self, formula, pname, why):
        st = self.stack()
        fr = {'f': formula, 'on': pname, 'events': [], 'rec': None, 'why': why,
              'parent': self.frames.index(st[-1]) if st else None, 'depth': len(st),
              'thread': threading.get_ident() != self.main}
        self.frames.append(fr)
        if len(self.frames) > SHEET_EVAL_CAP:
            raise SheetBudget('more than %d evaluations' % SHEET_EVAL_CAP)
        p = self.parser(pname)
        st.append(fr)
        try:
            fr['rec'] = p.parse(formula)
        finally:
            st.pop()
        return fr['rec']

    def pick_target(self, current):
        t = self.opt.get('target', 'same')
        if current not in ('P', 'Q'):
            t = 'same' if t == 'alt' else t      # R (other thread / extra) and new parsers never touch P or Q
        if t == 'mix':
            t = self.rng.choice(['same', 'alt', 'new'] if current in ('P', 'Q') else ['same', 'new'])
        if t == 'alt':
            return 'Q' if current == 'P' else 'P'
        if t == 'new':
            if len(self.new) < SHEET_NEW_PARSERS:
                import hotxlfp
                name = 'N%d' % (len(self.new) + 1)
                self.new[name] = _bind_sheet(hotxlfp.Parser(), name)     # constructed while evaluations are in progress
                return name
            others = sorted(n for n in self.new if n != current)
            return self.rng.choice(others) if others else current
        return current

    def resolve(self, r, c, current):
        label = lab(r, c)
        content = self.cells.get(label)
        if not is_formula(content):
            return content
        if self.opt.get('memo') and label in self.memo:
            return self.memo[label]
        rec = self.evaluate(content[1:], self.pick_target(current), 'formula of cell %s' % label)
        v = host_value(self.opt, rec)
        if self.opt.get('memo'):
            self.memo[label] = v
        return v

    # ---- a point between two uses of the objects a listener holds: the seeded extra evaluation goes here
    def point(self):
        if threading.get_ident() != self.main:
            return
        k = self.points
        self.points += 1
        ex = self.extra
        if ex is None or self.extra_at is not None or k < ex['at'] or (ex.get('exact') and k > ex['at']):
            return
        depth = len(self.stack()) - 1
        if ex['where'] != 'thread' and depth + 1 + self.extra_level > SHEET_MAX_LEVEL:
            return        # would nest deeper than the statement quantifies: take the next point that fits
        self.extra_at = k
        current = self.stack()[-1]['on']
        if ex['where'] == 'same':
            self.evaluate(ex['formula'], current, 'interposed')
        elif ex['where'] == 'other':
            self.evaluate(ex['formula'], 'R', 'interposed')
        else:
            err = []

            def work():
                try:
                    self.evaluate(ex['formula'], 'R', 'in another thread')
                except BaseException as e:
                    err.append(e)
            th = threading.Thread(target=work, daemon=True)
            th.start()
            th.join(60)
            if th.is_alive():
                raise HarnessTimeout('the thread evaluating %r did not finish in 60 s' % (ex['formula'],))
            if err:
                raise err[0]

    def tick(self):
        self.ticks += 1
        if self.ticks > 50 * SHEET_EVAL_CAP:
            raise SheetBudget('a range listener walked more than %d cells' % self.ticks)

    # ---- listeners
    def top(self, name, what):
        st = self.stack()
        if not st:
            self.anomalies.append('a %s listener of %s fired outside any evaluation' % (what, parser_text(name)))
            return None
        if st[-1]['on'] != name:
            self.anomalies.append('a %s listener registered on %s fired during an evaluation on %s' % (
                what, parser_text(name), parser_text(st[-1]['on'])))
            return None
        return st[-1]

    def held(self, fr, what, objs, hold):
        now = [snap(o) for o in objs]
        if now != hold and not fr.get('held'):
            fr['held'] = ('the Cell objects handed to the %s listener changed while the listener was still using them '
                          '(other evaluations ran in between): received %r, now %r' % (what, hold, now))

    def on_cell(self, name, cell, setter):
        fr = self.top(name, 'callCellValue')
        if fr is None:
            return
        hold = [snap(cell)]
        label0, r, c = cell.label, cell.row.index, cell.col.index
        self.point()
        self.held(fr, 'callCellValue', [cell], hold)
        v = self.resolve(cell.row.index, cell.col.index, name)
        self.held(fr, 'callCellValue', [cell], hold)
        fr['events'].append(['cell', label0, r, c, canon(v)])
        setter(v)

    def on_range(self, name, start, end, setter):
        fr = self.top(name, 'callRangeValue')
        if fr is None:
            return
        hold = [snap(start), snap(end)]
        ev = ['range', start.label, end.label, [start.row.index, start.col.index, end.row.index, end.col.index]]
        style = self.opt.get('walk', 'cells')
        rows = []
        if style == 'eager':
            r1, c1, r2, c2 = ev[3]
            for r in range(r1, r2 + 1):
                row = []
                for c in range(c1, c2 + 1):
                    self.point()
                    row.append(self.resolve(r, c, name))
                    self.held(fr, 'callRangeValue', [start, end], hold)
                rows.append(row)
        else:
            r = start.row.index
            while r <= end.row.index:
                row = []
                c = start.col.index
                last = end.col.index           # 'rows': the columns of a row are fixed when the row is begun
                while c <= (last if style == 'rows' else end.col.index):
                    self.tick()
                    self.point()
                    row.append(self.resolve(r, c, name))
                    self.held(fr, 'callRangeValue', [start, end], hold)
                    c += 1
                rows.append(row)
                r += 1
        ev.append(canon(rows))
        fr['events'].append(ev)
        setter(rows)


class SheetRef(object):
    """the independent reference: every (sub)formula evaluated ALONE on a parser of its own, bottom-up - the values
    of the cells it looks up are computed first and handed to it as plain constants; no evaluation ever runs inside
    another one"""

    def __init__(self, c):
        self.cells = c['cells']
        self.opt = c['host']
        self.values = {}
        self.alone_ = {}
        self.busy = set()
        self.p = None
        self.current = None
        self.per_formula = c.get('ref', 'formula') == 'formula'

    def parser(self):
        """the reference's own parser, never seen by the host: a fresh one for every formula (case['ref'] = 'formula'),
        or one fresh parser per sheet used strictly sequentially - one complete evaluation after the other, none
        inside a listener (case['ref'] = 'sheet': constructing a parser is slow when ply has no cached tables)"""
        if self.p is None or self.per_formula:
            common.load_repo()
            import hotxlfp
            self.p = hotxlfp.Parser()

            def on_cell(cell, setter):
                get, events = self.current
                r, c = cell.row.index, cell.col.index
                v = get(r, c)
                events.append(['cell', cell.label, r, c, canon(v)])
                setter(v)

            def on_range(start, end, setter):
                get, events = self.current
                r1, c1, r2, c2 = start.row.index, start.col.index, end.row.index, end.col.index
                rows = [[get(r, c) for c in range(c1, c2 + 1)] for r in range(r1, r2 + 1)]
                events.append(['range', start.label, end.label, [r1, c1, r2, c2], canon(rows)])
                setter(rows)
            self.p.on('callCellValue', on_cell)
            self.p.on('callRangeValue', on_range)
        return self.p

    def value(self, label):
        content = self.cells.get(label)
        if not is_formula(content):
            return content
        if label not in self.values:
            if label in self.busy:
                raise ValueError('cyclic sheet at %s' % label)
            self.busy.add(label)
            self.values[label] = host_value(self.opt, self.alone(content[1:])['raw'])
            self.busy.discard(label)
        return self.values[label]

    def alone(self, formula):
        if formula in self.alone_:
            return self.alone_[formula]
        known = {}
        for d in static_deps(formula):          # dependencies first, in Python: no parser is running here
            known[d] = self.value(d)
        events = []
        trouble = []

        def get(r, c):
            label = lab(r, c)
            if label not in known:
                if is_formula(self.cells.get(label)):
                    trouble.append('the reference evaluation of %r looked up %s, which its text does not mention' % (formula, label))
                    return None
                return self.cells.get(label)
            return known[label]
        if self.current is not None:
            raise RuntimeError('reference evaluations must not nest')
        self.current = (get, events)
        try:
            rec = self.parser().parse(formula)
        finally:
            self.current = None
        if trouble:
            raise RuntimeError(trouble[0])
        res = {'raw': rec, 'rec': canon_rec(rec), 'events': events}
        self.alone_[formula] = res
        return res


def frame_path(frames, fr):
    chain = []
    while fr is not None:
        chain.append(fr)
        fr = frames[fr['parent']] if fr['parent'] is not None else None
    chain.reverse()
    return ' > '.join('%r on %s%s' % (f['f'], f['on'], ' [%s]' % f['why'] if f['why'] not in (None, 'query') else '') for f in chain)


ALONE_TEXT = 'evaluated alone (on a fresh parser, the values of the cells it looks up supplied as constants) it'


def judge_sheet(host, ref):
    """the statement on one top-level evaluation of the sheet host: EVERY evaluation that ran (the query, the nested
    ones, the interposed one) yields what it yields alone"""
    for fr in host.frames:
        a = ref.alone(fr['f'])
        if fr['rec'] is None:
            continue        # cut short by a budget: reported below
        if canon_rec(fr['rec']) != a['rec']:
            return 'the evaluation %s gives %r, %s gives %r' % (frame_path(host.frames, fr), canon_rec(fr['rec']), ALONE_TEXT, a['rec'])
    for fr in host.frames:
        a = ref.alone(fr['f'])
        if fr['rec'] is not None and fr['events'] != a['events']:
            return 'the evaluation %s made the lookups %r, %s makes %r' % (frame_path(host.frames, fr), fr['events'], ALONE_TEXT, a['events'])
    for fr in host.frames:
        if fr.get('held'):
            return 'during the evaluation %s: %s' % (frame_path(host.frames, fr), fr['held'])
    if host.anomalies:
        return host.anomalies[0]
    return None


def run_sheet_once(c, formula, extra, new=None):
    host = SheetHost(c, extra, new)
    for n in ('P', 'Q', 'R'):
        sheet_parser(n)
    _sheet_host[0] = host
    try:
        try:
            host.evaluate(formula, 'P', 'query')
        except SheetBudget as e:
            host.anomalies.append('the evaluation of %r on the sheet ran away: %s' % (formula, e))
    finally:
        _sheet_host[0] = None
    return host


def sheet_formulas(c):
    """every formula text of a sheet case, distinct, in a fixed order"""
    fs = []
    for label in sorted(c['cells']):
        if is_formula(c['cells'][label]):
            fs.append(c['cells'][label][1:])
    fs += list(c['queries']) + [e['formula'] for e in c.get('extras', [])]
    seen = []
    for f in fs:
        if f not in seen:
            seen.append(f)
    return seen


def run_sheet(c):
    ref = SheetRef(c)
    runs = []
    new = {}
    observed = {}
    npoints = []

    def note(host):
        for fr in host.frames:
            if fr['rec'] is not None and fr['f'] not in observed:
                observed[fr['f']] = fr['rec']
    for qi, q in enumerate(c['queries']):
        if sheet_level(c['cells'], q) > SHEET_MAX_LEVEL:
            raise ValueError('sheet case nests deeper than %d: %r' % (SHEET_MAX_LEVEL, q))
        host = run_sheet_once(c, q, None, new)
        note(host)
        npoints.append(host.points)
        runs.append({'q': qi, 'extra': None, 'msg': judge_sheet(host, ref), 'nframes': len(host.frames),
                     'nested': len([f for f in host.frames if f['depth'] > 0])})
    plan = []
    for ei, ex in enumerate(c.get('extras', [])):
        if sheet_level(c['cells'], ex['formula']) > SHEET_MAX_LEVEL:
            raise ValueError('sheet case nests deeper than %d: %r' % (SHEET_MAX_LEVEL, ex['formula']))
        qi = ex['q'] % len(c['queries'])
        if not npoints[qi]:
            continue
        if ei == 0 and c.get('sweep'):
            # EVERY hold point of the query x every way of interposing
            lv = sheet_level(c['cells'], ex['formula'])
            for at in range(npoints[qi]):
                for where in (('same', 'other', 'thread') if lv < SHEET_MAX_LEVEL else ('thread',)):
                    plan.append({'q': qi, 'at': at, 'formula': ex['formula'], 'where': where, 'exact': True})
        else:
            plan.append({'q': qi, 'at': ex['at'] % npoints[qi], 'formula': ex['formula'], 'where': ex['where']})
    for ex in plan:
        host = run_sheet_once(c, c['queries'][ex['q']], ex, new)
        if ex.get('exact') and host.extra_at != ex['at']:
            continue        # this point does not admit the formula within the depth bound (a later one was taken: covered there)
        note(host)
        runs.append({'q': ex['q'], 'extra': ex, 'msg': judge_sheet(host, ref), 'nframes': len(host.frames),
                     'nested': len([f for f in host.frames if f['depth'] > 0 or f['thread']]),
                     'fired': host.extra_at})
    fs = sheet_formulas(c)
    alone = {f: ref.alone(f) for f in fs}
    # the model's view: every formula, the values of the cells / ranges it mentions as the reference computed them
    cells, ranges = {}, {}
    for f in fs:
        for r in static_refs(f):
            if r[0] == 'cell':
                cells[r[1]] = ref.value(lab(r[2], r[3]))
            else:
                r1, c1, r2, c2 = r[1]
                ranges[(lab(r1, c1), lab(r2, c2))] = [[ref.value(lab(i, j)) for j in range(c1, c2 + 1)] for i in range(r1, r2 + 1)]
    # text that reaches arithmetic is outside the value-level model comparison (dateutil reads "-3-3", "7-6" as
    # dates): formulas that concatenate inside a larger expression or look up text other than the plain words
    risky = [f for f in fs if ('&' in f and _BEYOND_AMP.search(f))
             or any(has_odd_text(ref.value(d)) for d in static_deps(f))]
    return {'runs': runs, 'formulas': fs, 'observed': observed, 'alone': {f: alone[f]['raw'] for f in fs}, 'risky': risky,
            'env': fx.env_wire(cells=cells, ranges=ranges), 'ref_evals': len(ref.alone_)}


_BEYOND_AMP = re.compile(r'[-+*/<>=]|SUM|IF|ISBLANK')
SAFE_TEXT = ('ab', 'xy', '', 'blank', 'filled')


def has_odd_text(v):
    if isinstance(v, str):
        return v not in SAFE_TEXT
    if isinstance(v, list):
        return any(has_odd_text(x) for x in v)
    return False


def describe_sheet_run(c, r):
    s = 'sheet %s, host %s: query %r on the long-lived parser P' % (
        json.dumps(c['cells'], sort_keys=True), json.dumps(c['host'], sort_keys=True), c['queries'][r['q']])
    if r['extra'] is not None:
        ex = r['extra']
        s += '; at hold point %s of the listeners %r is evaluated %s' % (
            r.get('fired'), ex['formula'], {'same': 'on the SAME parser', 'other': 'on another long-lived parser (nested)',
                                            'thread': 'on another parser in ANOTHER THREAD (the first thread waits)'}[ex['where']])
    return s


# ---- seeded sheets

def spell(rng, r, c, absolute=False):
    col = ''.join(ch.lower() if rng.random() < 0.25 else ch for ch in col_label(c))
    if absolute and rng.random() < 0.12:
        return rng.choice(['$%s$%d', '%s$%d', '$%s%d']) % (col, r + 1)
    return '%s%d' % (col, r + 1)


def gen_sheet(rng, thorough=False, sweep=False, ref='formula'):
    """a random acyclic sheet: a direction (references only go right / left / down / up) makes it acyclic, levels
    (a formula only mentions cells of level <= 1) bound the nesting depth by SHEET_MAX_LEVEL"""
    hi = 6 if thorough else 5
    ncols, nrows = rng.randrange(2, hi), rng.randrange(2, hi)
    direction = rng.choice(['right', 'left', 'down', 'up'])
    every = [(r, c) for r in range(nrows) for c in range(ncols)]
    pool = rng.sample(every, min(len(every), rng.randrange(3, 6)))      # corner labels the ranges like to share

    def rank(rc):
        r, c = rc
        return {'right': c, 'left': ncols - 1 - c, 'down': r, 'up': nrows - 1 - r}[direction]

    def region(rc):
        k = rank(rc)
        return [x for x in every if rank(x) > k]

    cells = {}
    level = {}

    class G(object):
        def __init__(self, reg, maxlevel):
            self.reg = reg
            self.maxlevel = maxlevel      # cells of a higher level must not be mentioned
            self.ok = [x for x in reg if level.get(x, 0) <= maxlevel]
            self.pool = [x for x in pool if x in reg]

        def corner(self):
            if self.pool and rng.random() < 0.6:
                return rng.choice(self.pool)
            return rng.choice(self.reg)

        def cellref(self):
            cand = [x for x in self.pool if x in self.ok] if rng.random() < 0.4 else []
            r, c = rng.choice(cand or self.ok)
            return spell(rng, r, c, True)

        def rng_text(self, a, b):
            (r1, c1), (r2, c2) = a, b
            form = rng.randrange(4)
            if form == 1:
                a, b = b, a
            elif form == 2:
                a, b = (r1, c2), (r2, c1)
            elif form == 3:
                a, b = (r2, c1), (r1, c2)
            return spell(rng, *a) + ':' + spell(rng, *b)

        def range_(self):
            for _ in range(8):
                a, b = self.corner(), self.corner()
                rect = [(r, c) for r in range(min(a[0], b[0]), max(a[0], b[0]) + 1)
                        for c in range(min(a[1], b[1]), max(a[1], b[1]) + 1)]
                if all(x in self.reg and level.get(x, 0) <= self.maxlevel for x in rect):
                    return self.rng_text(a, b)
            return self.cellref()

        def atom(self):
            x = rng.random()
            if x < 0.7:
                return self.cellref()
            if x < 0.9:
                return str(rng.randrange(0, 13))
            return rng.choice(['"ab"', 'TRUE', 'FALSE', '"xy"'])

        def operand(self, d):
            if d <= 0 or rng.random() < 0.6:
                return self.atom()
            return '(' + self.scalar(d) + ')'

        def cond(self, d):
            x = rng.random()
            if x < 0.3:
                return 'ISBLANK(%s)' % self.cellref()
            lhs = self.cellref() if x < 0.75 else 'SUM(%s)' % self.range_()
            rhs = str(rng.randrange(0, 9)) if rng.random() < 0.7 else self.cellref()
            return lhs + rng.choice(['>', '<', '=', '<>', '>=', '<=']) + rhs

        def branch(self, d):
            return 'NULL' if rng.random() < 0.3 else self.scalar(d)

        def scalar(self, d):
            x = rng.random()
            if d <= 0 or x < 0.2:
                return self.atom()
            if x < 0.45:
                args = []
                for _ in range(rng.randrange(1, 4)):
                    y = rng.random()
                    args.append(self.range_() if y < 0.6 else self.cellref() if y < 0.88 else str(rng.randrange(0, 9)))
                return 'SUM(' + ','.join(args) + ')'
            if x < 0.65:
                return 'IF(%s,%s,%s)' % (self.cond(d - 1), self.branch(d - 1), self.branch(d - 1))
            if x < 0.75:
                risky = '%s/%s' % (self.operand(d - 1), rng.choice(['0', self.cellref()])) if rng.random() < 0.6 else self.scalar(d - 1)
                return 'IFERROR(%s,%s)' % (risky, self.branch(d - 1))
            if x < 0.8:
                return 'ISBLANK(%s)' % self.cellref()
            if x < 0.84:
                return '%s/%s' % (self.operand(d - 1), rng.choice(['0', self.cellref()]))
            if x < 0.96:
                return self.operand(d - 1) + rng.choice('+-*') + self.operand(d - 1)
            return self.operand(d - 1) + '&' + self.operand(d - 1)

    def constant():
        x = rng.random()
        if x < 0.2:
            return None
        if x < 0.28:
            return rng.choice([True, False])
        if x < 0.36:
            return rng.choice(['ab', 'xy', ''])
        if x < 0.4:
            return rng.choice([2.5, -0.5, 0.25])
        if x < 0.5:
            return 0
        return rng.randrange(-3, 13)

    density = rng.choice([0.35, 0.5, 0.7])
    for rc in sorted(every, key=lambda x: -rank(x)):
        reg = region(rc)
        content = constant()
        if reg and rng.random() < density:
            f = G(reg, SHEET_MAX_LEVEL - 1).scalar(rng.randrange(1, 3))
            content = '=' + f
        cells[lab(*rc)] = content
        level[rc] = 0
        if is_formula(content):
            level[rc] = 1 + max([level.get(unlab(d), 0) for d in static_deps(content[1:])] or [0])
    formula_cells = [rc for rc in every if is_formula(cells[lab(*rc)])]
    whole = G(every, SHEET_MAX_LEVEL)
    queries = []
    for rc in rng.sample(formula_cells, min(len(formula_cells), 2)):
        L = spell(rng, *rc)
        queries.append(rng.choice(['%s', 'ISBLANK(%s)', 'IF(ISBLANK(%s),"blank","filled")', 'SUM(%s,1)', '%s+1', '%s&"|"']) % L)
    queries.append('SUM(%s)' % whole.rng_text((0, 0), (nrows - 1, ncols - 1)))
    for _ in range(rng.randrange(1, 3)):
        queries.append('SUM(%s)' % whole.range_())
    queries.append(whole.scalar(2))
    # evaluations interposed between two uses of the objects a listener holds
    written = [x for f in [cells[k][1:] for k in cells if is_formula(cells[k])] + queries
               for ref in static_refs(f) if ref[0] == 'range' for x in (ref[2], ref[3])]
    extras = []
    for _ in range(6 if thorough else 3):
        x = rng.random()
        if x < 0.5 and written:
            # a range that shares a written corner label with a range of the sheet, the other corner anywhere
            L = rng.choice(written)
            M = spell(rng, *rng.choice(every))
            if rng.random() < 0.5:
                L = L.lower()
            f = 'SUM(%s:%s)' % ((L, M) if rng.random() < 0.5 else (M, L))
        elif x < 0.75:
            f = 'SUM(%s)' % whole.range_()
        elif x < 0.9 and formula_cells:
            f = rng.choice(['%s', 'ISBLANK(%s)', 'SUM(%s,1)']) % spell(rng, *rng.choice(formula_cells))
        else:
            f = G(every, SHEET_MAX_LEVEL - 1).scalar(2)
        where = rng.choice(['same', 'other', 'thread'])
        if sheet_level(cells, f) >= SHEET_MAX_LEVEL:
            where = 'thread'      # nested under a listener it would exceed the depth the statement quantifies over
        extras.append({'q': rng.randrange(len(queries)), 'at': rng.randrange(1 << 16), 'formula': f, 'where': where})
    host = {'errors': rng.choice(['drop', 'drop', 'pass']), 'memo': rng.random() < 0.25,
            'target': rng.choice(['same', 'same', 'same', 'alt', 'alt', 'new', 'mix']),
            'walk': rng.choice(['cells', 'cells', 'cells', 'rows', 'rows', 'eager'])}
    c = {'kind': 'sheet', 'cells': cells, 'queries': queries, 'extras': extras, 'host': host,
         'seed': rng.randrange(1 << 30), 'ref': ref}
    if sweep:
        c['sweep'] = True
    return c


# minimal witnesses of changes this check once missed (regression cases; the generator reaches both classes on its own)
SHEET_CORPUS = [
    # a formula cell whose result is blank, resolved on the same parser: the blank must stay blank
    {'kind': 'sheet', 'cells': {'A1': '=IF(B1>3,NULL,B1)', 'A2': '=B1*2', 'B1': 5},
     'queries': ['A2+1', 'A1', 'ISBLANK(A1)', 'IF(ISBLANK(A1),"blank","filled")', 'SUM(A1,A2,1)'], 'extras': [],
     'host': {'errors': 'drop', 'memo': False, 'target': 'same', 'walk': 'cells'}, 'seed': 1},
    {'kind': 'sheet', 'cells': {'A1': None, 'B1': 7}, 'queries': ['ISBLANK(A1)', 'A1'],
     'extras': [{'q': 0, 'at': 0, 'formula': 'B1', 'where': 'same'}, {'q': 1, 'at': 0, 'formula': 'B1+1', 'where': 'same'}],
     'host': {'errors': 'drop', 'memo': False, 'target': 'same', 'walk': 'cells'}, 'seed': 2},
    # a range walked row by row while a range sharing a corner label, written in another corner order, is
    # evaluated elsewhere (nested on another parser, on the same parser, in another thread)
    {'kind': 'sheet', 'cells': {'A1': 1, 'B1': 10, 'C1': 100, 'A2': 2, 'B2': 20, 'C2': 200, 'A3': 3, 'B3': 30, 'C3': 300},
     'queries': ['SUM(A1:B3)'],
     'extras': [{'q': 0, 'at': 2, 'formula': 'SUM(C1:B3)', 'where': 'other'}], 'sweep': True,
     'host': {'errors': 'drop', 'memo': False, 'target': 'same', 'walk': 'rows'}, 'seed': 3},
    {'kind': 'sheet', 'cells': {'A1': 1, 'B1': 10, 'C1': 100, 'A2': '=SUM(c1:B3)', 'B2': 20, 'C2': 200, 'A3': 3, 'B3': 30, 'C3': 300},
     'queries': ['SUM(A1:B3)', 'SUM(b3:a1)'], 'extras': [],
     'host': {'errors': 'drop', 'memo': False, 'target': 'alt', 'walk': 'cells'}, 'seed': 4},
]


# =========================================================================== (e) what the host's listeners are HANDED
#
# Two or three formulas over ONE small set of coordinates, each spelling the references its own way ($ marks, letter
# case, corner order); they are evaluated on distinct parsers one after the other, nested in one another's callbacks and
# in threads.  Every evaluation's record and the sequence of things its callbacks were handed (label, $ marks and
# coordinates of the Cell objects, arguments of function events) must be those of the same formula ALONE: on a fresh
# parser in a fresh interpreter process that never evaluated anything else (the reference server below).
#
# The functions from `hh_text_val` to `hh_alone` are the host itself; their SOURCE is sent to the reference process, so
# they use nothing of this module but `canon`, `canon_rec`, `snap` (sent along) and the standard library.

def hh_text_val(text, off):
    """a number that depends on every character of a reference text (so that '$A$1' and 'A1' are different data)"""
    n = 0
    for ch in text:
        n = (n * 31 + ord(ch)) % 99991
    return n % 997 + 1 + off


def hh_cell_value(how, s, off):
    """the host's value of a cell from what it can read off the Cell object (s = snap): by its label text or by coordinates"""
    if how == 'coords':
        return (s[1][0] * 7 + s[2][0] * 3) % 101 + 1 + off
    return hh_text_val(s[0], off)


def hh_range_value(how, s, e, off):
    r1, c1, r2, c2 = s[1][0], s[2][0], e[1][0], e[2][0]
    rows = []
    for r in range(r1, min(r2, r1 + 5) + 1):
        row = []
        for c in range(c1, min(c2, c1 + 5) + 1):
            if how == 'coords':
                row.append((r * 7 + c * 3) % 101 + 1 + off)
            else:
                row.append(hh_text_val('%s:%s/%d/%d' % (s[0], e[0], r - r1, c - c1), off))
        rows.append(row)
    return rows


def hh_equip(p, name, off, get):
    """the bindings of one parser of the host; `get()` = the host object in charge now (attributes `how`, `on_event`).
    Every callback first reports what it was handed, then answers from what it reads off the objects THEN"""
    p.set_variable('hv', 5 + off)

    def cb(*a):
        h = get()
        if h is not None:
            h.on_event(name, ['cb', canon(list(a))], [], list(a))
        return a[0] if a else None
    p.set_function('CB', cb)

    def on_cell(cell, setter):
        h = get()
        if h is None:
            return
        h.on_event(name, ['cell', snap(cell)], [cell], None)
        setter(hh_cell_value(h.how, snap(cell), off))
    p.on('callCellValue', on_cell)

    def on_range(start, end, setter):
        h = get()
        if h is None:
            return
        h.on_event(name, ['range', snap(start), snap(end)], [start, end], None)
        setter(hh_range_value(h.how, snap(start), snap(end), off))
    p.on('callRangeValue', on_range)

    def on_fn(fname, args, setter):
        h = get()
        if h is not None:
            h.on_event(name, ['fn', fname, canon(list(args))], [], list(args))
    p.on('callFunction', on_fn)

    def on_var(vname, setter):
        h = get()
        if h is not None:
            h.on_event(name, ['var', vname], [], None)
    p.on('callVariable', on_var)
    return p


class HandLog(object):
    """the host of the reference run: it only writes down what it is handed"""

    def __init__(self, how):
        self.how = how
        self.log = []

    def on_event(self, name, ev, objs, raw):
        self.log.append(ev)


def hh_alone(job):
    """ONE formula on a fresh parser; in the reference process this is the first and only evaluation of its interpreter"""
    import hotxlfp
    host = HandLog(job['how'])
    p = hh_equip(hotxlfp.Parser(), 'ref', job['off'], lambda: host)
    rec = p.parse(job['f'])
    return {'rec': canon_rec(rec), 'events': host.log}


HAND_SERVER_MAIN = r'''
def _hand_serve():
    """jobs per line; every job in a forked child of THIS process, which imported the library and did nothing else"""
    import os, signal, traceback
    import hotxlfp
    def child(job, w):
        try:
            signal.alarm(30)
            try:
                out = json.dumps(hh_alone(job))
            except BaseException:
                out = json.dumps({'crash': traceback.format_exc()[-600:]})
            os.write(w, out.encode('utf-8'))
        finally:
            os._exit(0)
    while True:
        line = sys.stdin.readline()
        if not line:
            break
        jobs = json.loads(line)
        results = [None] * len(jobs)
        live = []
        nxt = 0
        while nxt < len(jobs) or live:
            while nxt < len(jobs) and len(live) < 8:
                r, w = os.pipe()
                pid = os.fork()
                if pid == 0:
                    os.close(r)
                    child(jobs[nxt], w)
                os.close(w)
                live.append((nxt, pid, r))
                nxt += 1
            i, pid, r = live.pop(0)
            data = b''
            while True:
                chunk = os.read(r, 65536)
                if not chunk:
                    break
                data += chunk
            os.close(r)
            os.waitpid(pid, 0)
            try:
                results[i] = json.loads(data.decode('utf-8'))
            except ValueError:
                results[i] = {'crash': 'the reference process of %r gave no answer (killed after 30 s?)' % (jobs[i],)}
        sys.stdout.write('REF ' + json.dumps(results) + '\n')
        sys.stdout.flush()

_hand_serve()
'''

HAND_OFF = {'X': 0, 'Y': 1000, 'Z': 2000, 'N': 3000}
HAND_SERVERS = 3
_hand_server = [None] * HAND_SERVERS
_hand_refs = {}
_hand_pending = []


def hand_off(pname):
    return HAND_OFF['N' if pname.startswith('N') else pname]


def _hand_server_start():
    import atexit
    import inspect
    import subprocess
    # the server loads the library the way the harness does (common.load_repo: the tree under test, ply never writing its
    # tables into it) and constructs ONE parser it never uses, so that ply's tables are built once and not in every child
    src = ('import sys, json\nsys.dont_write_bytecode = True\nsys.path.insert(0, sys.argv[2])\n'
           'from harness import common as _common\n_common.load_repo()\nimport hotxlfp\nhotxlfp.Parser()\n')
    for fn in (canon, canon_rec, snap, hh_text_val, hh_cell_value, hh_range_value, hh_equip, HandLog, hh_alone):
        src += '\n\n' + inspect.getsource(fn)
    src += HAND_SERVER_MAIN
    p = subprocess.Popen([sys.executable, '-c', src, common.REPO, common.VERIF], stdin=subprocess.PIPE, stdout=subprocess.PIPE,
                         stderr=subprocess.PIPE, env=dict(os.environ))

    def stop():
        try:
            p.stdin.close()
            p.wait(5)
        except Exception:
            try:
                p.kill()
            except Exception:
                pass
    atexit.register(stop)
    return p


def hand_refs(jobs):
    """{(formula, off, how): what the formula yields and what its callbacks are handed ALONE}: every job on a fresh parser in a
    fresh interpreter process of its own (forked from a process that imported hotxlfp and evaluated nothing); jobs registered by
    cases() but not asked for yet go along in the same batch (the children run eight at a time)"""
    todo = []
    for j in list(jobs) + _hand_pending:
        if j not in _hand_refs and j not in todo:
            todo.append(j)
    del _hand_pending[:]
    if todo:
        common.load_repo()
        # the batch is dealt out to a few identical servers working side by side (a small batch goes to the first one)
        n = HAND_SERVERS if len(todo) >= 24 else 1
        shares = [todo[i::n] for i in range(n)]
        for i in range(n):
            if _hand_server[i] is None or _hand_server[i].poll() is not None:
                _hand_server[i] = _hand_server_start()
        lines = []
        for i in range(n):
            p = _hand_server[i]
            try:
                p.stdin.write((json.dumps([{'f': f, 'off': off, 'how': how} for f, off, how in shares[i]]) + '\n').encode('utf-8'))
                p.stdin.flush()
            except (IOError, OSError) as e:
                lines.append('pipe: %r' % (e,))
        for i in range(n):
            p = _hand_server[i]
            try:
                line = p.stdout.readline().decode('utf-8', 'replace')
            except (IOError, OSError) as e:
                line = 'pipe: %r' % (e,)
            if not line.startswith('REF '):
                err = ''
                try:
                    p.kill()
                    err = p.stderr.read().decode('utf-8', 'replace')[-600:]
                except Exception:
                    pass
                _hand_server[i] = None
                raise RuntimeError('the C03 reference server failed: %r %s' % (line[:200], err))
            for j, res in zip(shares[i], json.loads(line[4:])):
                if not isinstance(res, dict) or 'crash' in res:
                    raise RuntimeError('C03 reference run of %r failed: %s' % (j, res))
                _hand_refs[j] = res
    return {j: _hand_refs[j] for j in jobs}


def hand_targets(c):
    """on which parsers the interposed evaluations of a case run (seeded; thorough: the inner one on each in turn)"""
    rng = _random.Random(c['seed'] ^ 0x5bd1)
    nest1 = ['X', 'Y', 'N'] if c.get('thorough') else [rng.choice(['X', 'Y', 'N'])]
    thread1 = ['X', 'N'] if c.get('thorough') else [rng.choice(['X', 'N'])]
    return {'nest1': nest1, 'thread1': thread1, 'then': rng.choice(['Z', 'same', 'N'])}


def hand_jobs(c):
    """the (formula, profile) pairs whose outcome alone the case needs"""
    fs, how = c['formulas'], c['how']
    t = hand_targets(c)
    jobs = [(fs[0], hand_off('X'), how), (fs[1], hand_off('Y'), how)]
    for n in t['nest1'] + t['thread1']:
        jobs.append((fs[0], hand_off(n), how))
    if len(fs) > 2:
        jobs.append((fs[2], hand_off('Z'), how))
        for n in t['nest1'] + t['thread1']:
            jobs.append((fs[2], hand_off(n if t['then'] == 'same' else t['then']), how))
    out = []
    for j in jobs:
        if j not in out:
            out.append(j)
    return out


def hand_plans(c, refs):
    """every run of a handed case (JSON-able); a trigger = at the pos-th callback of an evaluation, before the host answers,
    formula number f is evaluated completely on parser `on`, nested in the callback or in ANOTHER THREAD while this one waits"""
    if c.get('only') is not None:
        return [c['only']]
    fs, how = c['formulas'], c['how']
    rng = _random.Random(c['seed'])
    t = hand_targets(c)
    third = len(fs) > 2
    plans = []
    order = [['X', 0], ['Y', 1]] + ([['Z', 2]] if third else []) + [['X', 0], ['Y', 1]]
    plans.append({'mode': 'seq', 'thread': False, 'steps': order})
    plans.append({'mode': 'seq', 'thread': True, 'steps': order[:3]})
    n1 = len(refs[(fs[1], hand_off('Y'), how)]['events'])

    def then_for(on, where):
        if not third:
            return None
        n0 = len(refs[(fs[0], hand_off(on), how)]['events'])
        if not n0:
            return None
        return {'pos': rng.randrange(n0), 'where': 'nest', 'on': t['then'], 'f': 2}
    for where, targets in (('nest', t['nest1']), ('thread', t['thread1'])):
        for on in targets:
            deep = rng.randrange(n1) if n1 else None
            ks = list(range(n1))
            if where == 'thread' and not c.get('thorough') and n1 > 2:
                ks = sorted(rng.sample(ks, 2))          # quick: two seeded positions for the other thread
                deep = rng.choice(ks)
            for k in ks:
                plans.append({'mode': 'nest', 'outer': ['Y', 1], 'trigger': {'pos': k, 'where': where, 'on': on, 'f': 0}})
                if c.get('thorough') or k == deep:
                    th = then_for(on, where)
                    if th is not None:
                        plans.append({'mode': 'nest', 'outer': ['Y', 1],
                                      'trigger': {'pos': k, 'where': where, 'on': on, 'f': 0, 'then': th}})
    plans.append({'mode': 'free', 'threads': [['X', 0], ['Y', 1]] + ([['Z', 2]] if third else []), 'reps': 8 if c.get('thorough') else 3})
    return plans


_hand_rig = [None]
_hand_long = {}


def _hand_long_parser(name):
    """the long-lived parsers of the handed cases: they serve every such case of the process"""
    if name not in _hand_long:
        import hotxlfp
        _hand_long[name] = hh_equip(hotxlfp.Parser(), name, hand_off(name), lambda: _hand_rig[0])
    return _hand_long[name]


class HandRig(object):
    """one run of a handed case on the harness's side: evaluation frames per thread, the interposed evaluations"""

    def __init__(self, c, fresh=None):
        self.c = c
        self.how = c['how']
        self.fresh = fresh          # parsers constructed for this case (None: the long-lived ones serve)
        self.frames = []
        self.stacks = {}
        self.anomalies = []
        self.new = 0
        self.newp = {}
        self.lock = threading.Lock()

    def stack(self):
        return self.stacks.setdefault(threading.get_ident(), [])

    def parser(self, name):
        import hotxlfp
        if name == 'N':
            with self.lock:
                self.new += 1
                name = 'N%d' % self.new
            p = hh_equip(hotxlfp.Parser(), name, hand_off(name), lambda: _hand_rig[0])     # constructed while evaluations are in progress
            self.newp[name] = p
            return name, p
        if name in self.newp:
            return name, self.newp[name]
        if self.fresh is not None:
            if name not in self.fresh:
                self.fresh[name] = hh_equip(hotxlfp.Parser(), name, hand_off(name), lambda: _hand_rig[0])
            return name, self.fresh[name]
        return name, _hand_long_parser(name)

    def evaluate(self, pname, fi, trigger, why):
        name, p = self.parser(pname)
        st = self.stack()
        fr = {'on': name, 'f': self.c['formulas'][fi], 'events': [], 'raw': [], 'rec': None, 'trigger': trigger, 'fired': False,
              'why': why, 'depth': len(st), 'thread': threading.current_thread() is not threading.main_thread()}
        self.frames.append(fr)
        st.append(fr)
        try:
            fr['rec'] = p.parse(fr['f'])
        finally:
            st.pop()
        return fr

    def in_thread(self, fn):
        err = []

        def work():
            try:
                fn()
            except BaseException as e:
                err.append(e)
        th = threading.Thread(target=work, daemon=True)
        th.start()
        th.join(60)
        if th.is_alive():
            raise HarnessTimeout('a thread of a handed case did not finish in 60 s')
        if err:
            raise err[0]

    def on_event(self, name, ev, objs, raw):
        st = self.stack()
        if not st:
            self.anomalies.append('a callback of parser %s (%s) fired outside any evaluation of its thread' % (name, ev[0]))
            return
        fr = st[-1]
        if fr['on'] != name:
            self.anomalies.append('a callback of parser %s (%s) fired during an evaluation on parser %s' % (name, ev[0], fr['on']))
            return
        k = len(fr['events'])
        fr['events'].append(ev)
        fr['raw'].append(raw)
        tr = fr['trigger']
        if tr is None or fr['fired'] or tr['pos'] != k:
            return
        fr['fired'] = True
        hold = [snap(o) for o in objs]
        on = name if tr['on'] == 'same' else tr['on']
        if tr['where'] == 'thread':
            self.in_thread(lambda: self.evaluate(on, tr['f'], tr.get('then'), 'in another thread'))
        else:
            self.evaluate(on, tr['f'], tr.get('then'), 'nested')
        now = [snap(o) for o in objs]
        if now != hold and not fr.get('held'):
            fr['held'] = ('the Cell objects handed to this callback read %r when it received them and %r after the other '
                          'evaluation ran' % (hold, now))

    def run(self, plan):
        mode = plan['mode']
        if mode == 'seq':
            for pname, fi in plan['steps']:
                if plan['thread']:
                    self.in_thread(lambda: self.evaluate(pname, fi, None, 'in a thread of its own'))
                else:
                    self.evaluate(pname, fi, None, None)
        elif mode == 'nest':
            self.evaluate(plan['outer'][0], plan['outer'][1], plan['trigger'], None)
        else:
            gate = threading.Barrier(len(plan['threads']))
            err = []

            def work(pname, fi):
                try:
                    gate.wait(30)
                    for _ in range(plan['reps']):
                        self.evaluate(pname, fi, None, 'free-running thread')
                except BaseException as e:
                    err.append(e)
            ths = [threading.Thread(target=work, args=(pn, fi), daemon=True) for pn, fi in plan['threads']]
            for th in ths:
                th.start()
            for th in ths:
                th.join(60)
            if any(th.is_alive() for th in ths):
                raise HarnessTimeout('the free-running threads of a handed case did not finish in 60 s')
            if err:
                raise err[0]


def hand_expected(plan):
    """how many evaluations a plan starts"""
    if plan['mode'] == 'seq':
        return len(plan['steps'])
    if plan['mode'] == 'free':
        return len(plan['threads']) * plan['reps']
    n, tr = 1, plan['trigger']
    while tr is not None:
        n, tr = n + 1, tr.get('then')
    return n


def describe_hand(c, plan):
    fs = c['formulas']

    def trig(tr):
        s = 'at its %d. callback %r is evaluated %s on %s' % (
            tr['pos'] + 1, fs[tr['f']], 'in ANOTHER THREAD (this one waits)' if tr['where'] == 'thread' else 'inside the callback',
            {'same': 'the SAME parser', 'N': 'a parser constructed there'}.get(tr['on'], tr['on']))
        if tr.get('then'):
            s += '; inside that evaluation, ' + trig(tr['then'])
        return s
    head = 'host answering by %s, %s parsers X, Y, Z' % (
        'the label text it is handed' if c['how'] == 'label' else 'the coordinates it is handed',
        'fresh' if c.get('parsers') == 'fresh' else 'long-lived')
    if plan['mode'] == 'seq':
        return '%s; one after the other%s: %s' % (head, ', each in a thread of its own' if plan['thread'] else '',
                                                   ', then '.join('%r on %s' % (fs[fi], pn) for pn, fi in plan['steps']))
    if plan['mode'] == 'free':
        return '%s; threads released together, each %d times: %s' % (
            head, plan['reps'], ' | '.join('%r on %s' % (fs[fi], pn) for pn, fi in plan['threads']))
    return '%s; %r on %s; %s' % (head, fs[plan['outer'][1]], plan['outer'][0], trig(plan['trigger']))


HAND_ALONE = 'alone (on a fresh parser, in a fresh interpreter process that evaluates nothing else)'


def judge_hand(c, plan, rig, refs):
    """the statement on one run: every evaluation yields, and hands to its host, what it does alone"""
    for fr in rig.frames:
        ref = refs[(fr['f'], hand_off(fr['on']), c['how'])]
        who = 'the evaluation of %r on parser %s%s' % (fr['f'], fr['on'], ' (%s)' % fr['why'] if fr['why'] else '')
        if fr['events'] != ref['events']:
            d = 0
            while d < min(len(fr['events']), len(ref['events'])) and fr['events'][d] == ref['events'][d]:
                d += 1
            return ('%s: its %d. callback was handed %r, %s it is handed %r (all it was handed: %r; alone: %r)' % (
                who, d + 1, fr['events'][d] if d < len(fr['events']) else 'nothing (no such callback)', HAND_ALONE,
                ref['events'][d] if d < len(ref['events']) else 'nothing (no such callback)', fr['events'], ref['events']))
        if fr['rec'] is not None and canon_rec(fr['rec']) != ref['rec']:
            return '%s gives %r, %s it gives %r' % (who, canon_rec(fr['rec']), HAND_ALONE, ref['rec'])
    for fr in rig.frames:
        if fr.get('held'):
            return 'during the evaluation of %r on parser %s: %s' % (fr['f'], fr['on'], fr['held'])
    if rig.anomalies:
        return rig.anomalies[0]
    if len(rig.frames) != hand_expected(plan):
        return '%d evaluations were planned, %d ran' % (hand_expected(plan), len(rig.frames))
    return None


def run_handed(c):
    common.load_repo()
    refs = hand_refs(hand_jobs(c))
    runs = []
    observed = {}
    fresh = {} if c.get('parsers') == 'fresh' else None
    for plan in hand_plans(c, refs):
        rig = HandRig(c, fresh)
        _hand_rig[0] = rig
        try:
            rig.run(plan)
        finally:
            _hand_rig[0] = None
        for fr in rig.frames:
            if fr['rec'] is not None:
                observed.setdefault((fr['f'], fr['on'][0]), {'rec': fr['rec'], 'events': fr['events'], 'raw': fr['raw']})
        runs.append({'plan': plan, 'msg': judge_hand(c, plan, rig, refs), 'nframes': len(rig.frames),
                     'apart': len(set((fr['on'], fr['thread']) for fr in rig.frames)) > 1})
    # the model's view of ONE of the formulas: the Lean evaluator with the cells / ranges bound to what this host answers
    # for the labels and coordinates the formula's callbacks are handed ALONE
    fi = c.get('model', 1) % len(c['formulas'])
    pname = ['X', 'Y', 'Z'][fi]
    ref = refs[(c['formulas'][fi], hand_off(pname), c['how'])]
    cells, ranges = {}, {}
    for ev in ref['events']:
        if ev[0] == 'cell':
            cells[ev[1][0]] = hh_cell_value(c['how'], ev[1], hand_off(pname))
        elif ev[0] == 'range':
            ranges[(ev[1][0], ev[2][0])] = hh_range_value(c['how'], ev[1], ev[2], hand_off(pname))
    env = fx.env_wire(variables={'hv': 5 + hand_off(pname)}, fns={'CB': '(first)'}, cells=cells, ranges=ranges)
    return {'runs': runs, 'model_f': c['formulas'][fi], 'model_env': env, 'model_ref': ref,
            'model_obs': observed.get((c['formulas'][fi], pname)), 'refs': len(refs)}


def _hand_event_agrees(m, e, raw):
    """model event (parsed sexp) against what a callback was handed"""
    def pl(mp, p):
        try:
            return isinstance(mp, list) and len(mp) == 3 and int(mp[0]) == p[0] and common.dec_str(mp[1]) == p[1] and (mp[2] == '1') == p[2]
        except (TypeError, ValueError):
            return False

    def cell(mm, s):
        return len(mm) == 3 and common.dec_str(mm[0]) == s[0] and pl(mm[1], s[1]) and pl(mm[2], s[2])
    if not isinstance(m, list) or not m or m[0] != e[0]:
        return False
    if e[0] == 'cell':
        return len(m) == 4 and cell(m[1:4], e[1])
    if e[0] == 'range':
        return len(m) == 7 and cell(m[1:4], e[1]) and cell(m[4:7], e[2])
    if e[0] == 'var':
        return len(m) == 2 and common.dec_str(m[1]) == e[1]
    if e[0] == 'fn':
        if not (len(m) == 3 and common.dec_str(m[1]) == e[1] and isinstance(m[2], list)):
            return False
        if raw is None:
            return True
        return len(m[2]) == len(raw) and all(fx.value_matches(mm, vv, rel=1e-9) is not False for mm, vv in zip(m[2], raw))
    return False


def agree_hand(c, ans, model_ans):
    m = fx.parse_sexp(model_ans)
    if not (isinstance(m, list) and len(m) == 2 and isinstance(m[1], list)):
        return False
    mrec, mlog = m
    opinion = not (isinstance(mrec, list) and len(mrec) == 3 and isinstance(mrec[1], list) and mrec[1] and mrec[1][0] == 'o')
    for what in (ans['model_obs'], ans['model_ref']):
        if what is None:
            continue
        events = [(e, r) for e, r in zip(what['events'], what.get('raw') or [None] * len(what['events'])) if e[0] != 'cb']
        if (len(mlog) != len(events)) if opinion else (len(mlog) > len(events)):
            return False
        if not all(_hand_event_agrees(a, e, r) for a, (e, r) in zip(mlog, events)):
            return False
        if isinstance(what['rec'], dict):
            if fx.record_matches(mrec, what['rec'], rel=1e-9) is False:
                return False
    return True


# ---- seeded cases

HAND_TEMPLATES = ['SUM(%R)', 'SUM(%R)+%C', 'CB(%R)', 'CB(%C)+SUM(%R)', '%C*2', 'SUM(%R,%C)', 'IF(%C>0,SUM(%R),0)', 'COUNT(%R)&"|"',
                  'MAX(%R)-MIN(%R)', 'CB(1)+SUM(%R)', 'hv+%C', '%C&"/"&%C', 'SUM(%R)+SUM(%R)', 'CB(%C,%R)', 'SUM(%R)*CB(2)', '%C+%C']


def hand_spell(rng, r, c):
    col = ''.join(ch.lower() if rng.random() < 0.3 else ch for ch in col_label(c))
    return rng.choice(['%s%d', '$%s$%d', '%s$%d', '$%s%d']) % (col, r + 1)


def hand_spell_range(rng, a, b):
    (r1, c1), (r2, c2) = a, b
    form = rng.randrange(4)
    if form == 1:
        a, b = b, a
    elif form == 2:
        a, b = (r1, c2), (r2, c1)
    elif form == 3:
        a, b = (r2, c1), (r1, c2)
    return hand_spell(rng, *a) + ':' + hand_spell(rng, *b)


def gen_handed(rng, thorough=False):
    """2-3 formulas over one small set of coordinates of the case's own (a block of at most 4 x 4 cells somewhere in
    A1..ABC6003), every occurrence of a reference spelled anew"""
    r0, c0 = rng.randrange(0, 6000), rng.randrange(0, 728)
    pts = []
    while len(pts) < rng.randrange(2, 5):
        p = (r0 + rng.randrange(4), c0 + rng.randrange(4))
        if p not in pts:
            pts.append(p)
    pairs = [(a, b) for a in pts for b in pts]
    ranges = rng.sample(pairs, min(len(pairs), rng.randrange(1, 4)))
    formulas = []
    first_used = []
    for i in range(3 if rng.random() < 0.7 else 2):
        t = rng.choice(HAND_TEMPLATES)
        used = []
        out = ''
        j = 0
        while j < len(t):
            if t[j] == '%':
                if t[j + 1] == 'R':
                    pool = first_used if (first_used and rng.random() < 0.6) else ranges
                    ref = ('R', rng.choice(pool))
                    out += hand_spell_range(rng, *ref[1])
                else:
                    ref = ('C', rng.choice(pts))
                    out += hand_spell(rng, *ref[1])
                used.append(ref)
                j += 2
            else:
                out += t[j]
                j += 1
        if i == 0:
            first_used = [u[1] for u in used if u[0] == 'R']
        formulas.append(out)
    c = {'kind': 'handed', 'formulas': formulas, 'how': 'label' if rng.random() < 0.6 else 'coords',
         'parsers': 'fresh' if rng.random() < 0.4 else 'long', 'seed': rng.randrange(1 << 30), 'model': rng.randrange(3)}
    if thorough:
        c['thorough'] = True
    return c


# minimal witnesses of a change this check once missed (regression cases; the generator reaches the class on its own):
# the same corners spelled with and without $ marks by two evaluations on different parsers
HAND_CORPUS = [
    {'kind': 'handed', 'formulas': ['SUM($A$1:$B$2)', 'SUM(A1:B2)', 'CB(1)+SUM(b$2:$a1)'], 'how': 'label', 'parsers': 'fresh', 'seed': 11, 'model': 1},
    {'kind': 'handed', 'formulas': ['SUM($K$1:$L$2)', 'CB(1)+SUM(K1:L2)', '$L2+K$1'], 'how': 'label', 'parsers': 'long', 'seed': 12, 'model': 1},
    {'kind': 'handed', 'formulas': ['CB(ab7:$AA$9)', 'SUM(AA9:AB7)+aa$9', 'SUM($AB9:AA$7)'], 'how': 'coords', 'parsers': 'long', 'seed': 13, 'model': 0},
]
N_HANDED_QUICK = 100
N_HANDED_THOROUGH = 600


# =========================================================================== the pool of formulas

HAND = ['CB(1)+10', 'CB(CB(2)*3)+CB(4)', 'SUM(CB(1),CB(2),CB(3))*2', 'IF(CB(1)>0,CB("yes"),CB("no"))&"!"',
        'va+vb*CB(v_c)', 'A1*b2-$c$3', 'SUM(A1:B2)+CB(A1)', 'CB(A1:B2)', '{1,2;3,4}', 'SUM({1,2,3})+lv',
        'txt&"-"&CB(txt)', '"a b"&\'c\'', 'CB(1/0)+1', 'IFERROR(CB(1/0),CB(5))', 'CB(nope)+1', 'nope+CB(1)', 'NOFUNC(CB(1))',
        'CB(1)+', 'CB(1)+*2', '(CB(2)', 'CB(1) 2', 'CB(1)+§', '1 @ CB(2)', 'CB(#REF!)+1', '#N/A', 'RAISE_NUM()+CB(1)',
        'CB(RAISE_NA())', 'PYRAISE(CB(1))', 'CB(PYRAISE())&"x"', 'e_div0+CB(1)', 'OFF()+CB(OFF())', '', '1+2*3',
        'CB()', 'CB(1,2,3)', '-CB(-va)', 'CB(1)<CB(2)', 'CB(2)^2', '50%*CB(4)', 'lv+CB(lv)', 'TRUE+CB(FALSE)']
# formulas in which a function (built-in or the host's) ends by RAISING an XL error, which the evaluator turns into the call's value
RAISERS = ['ISNA(SUM({1,NA()}))&CB(1)', 'IFNA(MAX({2,NA()}),0)+CB(1)', 'CB(AVERAGE({1,NA()}))', 'IFERROR(RAISE_NUM(),CB(3))',
           'IF(ISNA(CB(RAISE_NA())),"missing","present")', 'CB(SQRT(-1))+1', 'ISERROR(LN(CB(0)))']
# ... and in which the host's function answers with an error object of its own making
HOSTMADE = ['CB(MKNA())', 'IFNA(MKNA(),CB(2))&"|"', 'ISNA(MKNA())+CB(1)']


def wrap4(t, rng, p):
    """CB( ) around seeded sub-expressions of a C04 tree"""
    k = t[0]
    if k in ('cmp', 'amparg'):
        return (k, wrap4(t[1], rng, p))
    if k == 'neg':
        r = ('neg', wrap4(t[1], rng, p))
    elif k == 'bin':
        r = ('bin', t[1], wrap4(t[2], rng, p), wrap4(t[3], rng, p))
    elif k == 'call':
        r = ('call', t[1], t[2], [wrap4(x, rng, p) for x in t[3]], t[4])
    else:
        r = t
    if rng.random() < p:
        return ('call', 'CB', 'flat', [('cmp', r) if r[0] == 'bin' and r[1] in ('=', '<>', '<', '>', '<=', '>=') else r], [])
    return r


def render8(t, rng, p):
    """c08.render with CB( ) around seeded sub-expressions"""
    k = t[0]
    if k in ('err', 'num'):
        s = t[2]
    elif k == 'arr':
        s = t[1]
    elif k == 'neg':
        s = '-(' + render8(t[1], rng, p) + ')'
    elif k == 'call':
        s = 'ID(' + render8(t[3][0], rng, p) + ')'
    else:
        s = '(' + render8(t[2], rng, p) + ')' + t[1] + '(' + render8(t[3], rng, p) + ')'
    return 'CB(' + s + ')' if rng.random() < p else s


def make_pool(rng, n_gen):
    pool = []
    for i in range(n_gen):
        if i % 2 == 0:
            t = c04.gen_top(rng, rng.randrange(1, 4))
            f = c04.render_spec(wrap4(t, rng, 0.4), False)
            if rng.random() < 0.3:
                f = c04.add_space(rng, f)
        else:
            t = c08.gen(rng, rng.randrange(1, 4), rng.choice([0.15, 0.4]))
            f = render8(t, rng, 0.4)
        if f not in pool:
            pool.append(f)
    return pool


SHORT = ['CB(7)', '-va+1', '2+*3', 'A1+2', '1 @', 'nope', 'va*2', '"s"&1', 'OFF()', '1/0', 'SUM(1,2)', '#REF!', '(3)', 'lv']


# =========================================================================== plugin interface

@_harness_errors
def cases(rng, ctx):
    thorough = ctx['tier'] == 'thorough'
    scale = ctx['scale']
    out = []
    # ---- (b) bindings
    names = {'variable': ['rate', 'x_1', 'Foo', 'sum'], 'predefined': ['TRUE', 'NULL'], 'function': ['FOO', 'My.Fn', 'F_2'],
             'builtin': ['SUM', 'MAX'], 'callVariable': ['ghost', 'rate'], 'callCellValue': ['-'], 'callRangeValue': ['-'],
             'callFunction': ['-'], 'once': ['-'], 'journal': ['PI()*2', 'TRUE()', 'SUM(1,2)+PI()', 'IF(FALSE(),1,2)']}
    out.append({'kind': 'bind', 'what': 'globals', 'name': '-', 'value': 0,
                'formulas': ['PROBE()+1', 'A1+PROBE()', 'SUM(A1:B2)+PROBE(1,2)', 'NEST("PROBE()+A1")*2', '1/0+PROBE()', 'PROBE(']})
    for what in BIND_WHAT:
        for name in names[what]:
            for val in [rng.randrange(2, 10 ** 6), 'v%d' % rng.randrange(100)]:
                out.append({'kind': 'bind', 'what': what, 'name': name, 'value': val})
    # ---- (c) cold start: the first evaluations of a process, in threads
    cold_pool = ['SUM(1,2)', 'LEN("ab")', 'MAX(va,1)', 'IF(TRUE,1,2)', 'ROUND(2.567,1)', 'UPPER("a")', 'DATE(2020,1,2)', 'ABS(-va)',
                 'CONCATENATE("a","b")', 'AND(TRUE,FALSE)', 'va+1', 'DEC2HEX(255)', 'PV(0.05,10,100)', 'MATCH(2,{1,2,3},0)', 'ISBLANK(va)']
    for _ in range(4 if thorough else 2):
        out.append({'kind': 'cold', 'formulas': rng.sample(cold_pool, rng.choice([3, 4, 6])), 'repeat': 3 if thorough else 2})
    # ---- (a) nesting
    n_hand = len(HAND) if thorough else 14
    hand = list(HAND) if thorough else HAND[:5] + rng.sample(HAND[5:], n_hand - 5)
    hand += list(RAISERS) if thorough else rng.sample(RAISERS, 2)
    hand += list(HOSTMADE) if thorough else rng.sample(HOSTMADE, 1)
    pool = hand + make_pool(rng, (16 if thorough else 6) + 3 * (scale - 1))
    # first of all (before anything else of the kind has been evaluated in this process): formulas whose functions keep tables or
    # work on host lists - a date-only format before a time format, a ranking function on the host's shared list
    for outer, inner in [('CB(1)&" at "&TEXT(DATE(2024,3,5),"hh:mm")', 'TEXT(DATE(2024,11,17),"dd/mm/yyyy")'),
                         ('CB(1)+INDEX(lst,1)', 'LARGE(lst,1)'), ('CB(1)+INDEX(lst,1)', 'SMALL(lst,1)+MEDIAN(lst)'),
                         ('CB(2)&TEXT(1234.5,"#,##0.00")', 'TEXT(0.25,"0%")'), ('CB(1)+MATCH(2,lst,0)', 'RANK(2,lst)+COUNT(lst)')]:
        out.append({'kind': 'nest', 'outer': outer, 'inner': inner, 'third': 'CB(7)', 'seed': rng.randrange(1 << 30), 'thorough': thorough})
    nests = []
    for outer in pool:
        for inner in pool:
            nests.append({'kind': 'nest', 'outer': outer, 'inner': inner, 'third': rng.choice(pool),
                          'seed': rng.randrange(1 << 30), 'thorough': thorough})
    # the pairs in which the host makes an error object of its own come last: every other formula has been evaluated alone
    # by then, so whatever such an object leaves behind in the process shows against those outcomes
    nests.sort(key=lambda c: any(f in HOSTMADE for f in (c['outer'], c['inner'], c['third'])))
    out += nests
    # ---- (c) scheduled threads
    def all_interleavings(f0, f1):
        n0, n1 = steps_of(0, f0), steps_of(1, f1)
        for ones in itertools.combinations(range(n0 + n1), n1):
            s = [0] * (n0 + n1)
            for k in ones:
                s[k] = 1
            out.append({'kind': 'sched', 'formulas': [f0, f1], 'schedule': s, 'exhaustive': True})
    if thorough:
        all_interleavings('CB(7)', '-va+1')       # 6 + 6 steps: C(12,6) = 924
        all_interleavings('2+*3', 'A1+2')         # a syntax error against a cell reference
        all_interleavings('1 @', 'nope')          # an illegal character against an unknown name
        all_interleavings('va*2', '1/0')
    else:
        all_interleavings('va*2', '1/0')          # 5 + 5 steps: C(10,5) = 252
        all_interleavings('1 @', 'nope')
    tpool = SHORT + [f for f in pool if f and len(f) < 40][:30]
    for _ in range((1500 if thorough else 250) * scale):
        n = 3 if (thorough or rng.random() < 0.4) else 2
        fs = [rng.choice(tpool) for _ in range(n)]
        if not all(fs):
            continue
        total = sum(steps_of(i, f) for i, f in enumerate(fs))
        # a seeded list of thread ids, sometimes shorter than needed (round-robin tail) and with bursts
        s = []
        while len(s) < total:
            t = rng.randrange(n)
            s += [t] * rng.choice([1, 1, 1, 2, 3])
        if rng.random() < 0.3:
            s = s[:rng.randrange(len(s))]
        out.append({'kind': 'sched', 'formulas': fs, 'schedule': s})
    # ---- (d) the spreadsheet-style host
    out += [json.loads(json.dumps(c)) for c in SHEET_CORPUS]
    for i in range((N_SHEETS_THOROUGH if thorough else N_SHEETS_QUICK) * scale):
        out.append(gen_sheet(rng, thorough, sweep=(thorough and i % 4 == 0) or (not thorough and i % 25 == 0),
                             ref='formula' if i % 5 == 0 else 'sheet'))
    # ---- (c') line-level interleavings: every line boundary of the first evaluation (quick: a seeded third of them)
    pairs = list(LINE_PAIRS) if thorough else rng.sample(LINE_PAIRS, 8)
    for a, b in pairs:
        if rng.random() < 0.5:
            a, b = b, a
        d = {'kind': 'linesched', 'formulas': [a, b]}
        if not thorough:
            d['stride'], d['phase'] = 3, rng.randrange(3)
        out.append(d)
    out.append({'kind': 'linesched', 'formulas': ['YEAR("2021-03-01")', 'YEAR("2020-01-15")']})
    # ---- (c) free-running
    out.append({'kind': 'stress', 'threads': 4, 'n': 300 * (3 if thorough else 1), 'seed': rng.randrange(1 << 30),
                'pool': [f for f in tpool if f]})
    # ---- (e) what the listeners are handed: the same coordinates under different spellings on two or three parsers
    # (generated last: the seeded streams of the kinds above are as they were)
    handed = [json.loads(json.dumps(c)) for c in HAND_CORPUS]
    for _ in range((N_HANDED_THOROUGH if thorough else N_HANDED_QUICK) * scale):
        handed.append(gen_handed(rng, thorough))
    for c in handed:
        _hand_pending.extend(hand_jobs(c))     # their outcomes alone are fetched in one batch at first need
    out += handed
    return out


# =========================================================================== (c') line-level interleaving of two threads

LINE_PAIRS = [('YEAR("2021-03-01")', 'YEAR("2020-01-15")'), ('COUNTIF({1,2,3},">1")', 'COUNTIF({1,2,3},">2")'),
              ('SUMIF({1,2,3},"<3")', 'SUMIF({1,2,3},"<2")'), ('ROMAN(1999)', 'ROMAN(1000)'),
              ('DAYS("2021-03-01","2020-01-15")', 'DAYS("2020-02-01","2019-01-15")'), ('UPPER("abc")&LEFT("xyz",2)', 'UPPER("def")&LEFT("uvw",1)'),
              ('va*2+A1', 'vb*3+B2'), ('MATCH("b*",{"ab","bc"},0)', 'MATCH("a*",{"ab","bc"},0)'), ('DEC2HEX(255)', 'DEC2HEX(4095)'),
              ('MONTH("2021-03-01")+DAY("2021-03-01")', 'MONTH("2020-11-15")+DAY("2020-11-15")'), ('"2021-03-01"+1', '"2020-01-15"+1'),
              ('SUM(1,2)+CB(3)', 'SUM(4,5)+CB(6)'), ('IF(1<2,"a","b")&"x"', 'IF(2<1,"a","b")&"y"'), ('ROUND(2.567,1)', 'ROUND(3.14159,3)'),
              ('TEXTJOIN(",",TRUE,"a","b")', 'TEXTJOIN(";",TRUE,"c","d")'), ('AVERAGEIF({1,2,3},">1")', 'AVERAGEIF({4,5,6},">4")')]


def run_linesched(c):
    """thread 1 evaluates formulas[0] on its parser and is held, in turn, at every LINE boundary inside the library's own files
    while the main thread evaluates formulas[1] completely on another parser (which has evaluated it once before); both outcomes
    against the outcomes alone"""
    import threading
    f1, f2 = c['formulas']
    T1, T2 = thread_parser(0), thread_parser(1)
    alone1, alone2 = canon_rec(T1.parse(f1)), canon_rec(T2.parse(f2))
    root = os.path.join(common.REPO, 'hotxlfp') + os.sep

    def traced(k):
        n = [0]
        hit, go = threading.Event(), threading.Event()
        out = {}

        def local(frame, event, arg):
            if event == 'line':
                n[0] += 1
                if n[0] == k:
                    hit.set()
                    go.wait(60)
            return local

        def tracer(frame, event, arg):
            return local if frame.f_code.co_filename.startswith(root) else None

        def body():
            sys.settrace(tracer)
            try:
                out['rec'] = canon_rec(T1.parse(f1))
            finally:
                sys.settrace(None)
                hit.set()
        t = threading.Thread(target=body)
        t.start()
        hit.wait(60)
        rec2 = None
        if t.is_alive() and k > 0 and n[0] >= k:
            rec2 = canon_rec(T2.parse(f2))
        go.set()
        t.join(60)
        return n[0], out.get('rec'), rec2
    total, rec, _ = traced(0)
    findings = []
    if rec != alone1:
        findings.append('%r evaluated a second time on the same parser gives %r, the first time %r' % (f1, rec, alone1))
    ks = list(range(1, total + 1))
    if c.get('stride', 1) > 1:
        ks = ks[c.get('phase', 0) % c['stride']::c['stride']]
    done = 0
    for k in ks:
        _n, rec1, rec2 = traced(k)
        done += 1
        if rec2 is None:
            continue
        for who, f, got, want in (('thread 1', f1, rec1, alone1), ('thread 2', f2, rec2, alone2)):
            if got != want:
                findings.append('two threads on distinct parsers: thread 1 evaluates %r and is held at the %d. of its %d line boundaries inside '
                                'the library while thread 2 evaluates %r completely; %s gets %r, alone it gets %r' % (f1, k, total, f2, who, got, want))
        if findings:
            break
    return {'findings': findings, 'lines': total, 'runs': done}


_impl_cache = {}
N_SHEETS_QUICK = 200
N_SHEETS_THOROUGH = 1500


def _key(c):
    import json
    return json.dumps(c, sort_keys=True)


def _run(c):
    k = _key(c)
    if k in _impl_cache:
        return _impl_cache[k]
    kind = c['kind']
    try:
        if kind == 'nest':
            runs = []
            plans = nest_plans(c)
            stride = max(1, len(plans) // MODEL_RUNS_PER_CASE)
            for j, plan in enumerate(plans):
                frames, order, anomalies = run_nested(c['outer'], plan)
                msg = judge_nested(c['outer'], plan, frames, anomalies)
                r = {'plan': plan, 'msg': msg, 'nframes': len(frames)}
                if msg is None and j % stride == 0 and _comparable(c['outer'], plan, frames):
                    r['ops'] = [fr['ops'] for fr in frames]      # kept for the model comparison
                    r['order'] = order
                runs.append(r)
            # the solo run of both formulas is part of the case even if the outer one has no callback position
            res = {'runs': runs, 'solo_outer': _brief(solo(c['outer'], 'A')), 'solo_inner': _brief(solo(c['inner'], 'B'))}
        elif kind == 'bind':
            res = run_bind(c)
        elif kind == 'sheet':
            res = run_sheet(c)
        elif kind == 'handed':
            res = run_handed(c)
        elif kind == 'sched':
            res = run_sched(c['formulas'], c['schedule'])
        elif kind == 'stress':
            res = run_stress(c)
        elif kind == 'cold':
            res = run_cold(c)
        elif kind == 'linesched':
            res = run_linesched(c)
        else:
            raise ValueError(kind)
    finally:
        _restore()
    if kind in ('nest', 'sheet', 'handed'):
        _impl_cache[k] = res      # computed in the request phase, consumed by impl()
    return res


MODEL_RUNS_PER_CASE = 6

COLD_SCRIPT = r'''
import sys, json, threading
sys.dont_write_bytecode = True
sys.path.insert(0, sys.argv[1])
formulas = json.loads(sys.argv[2])
import hotxlfp
parsers = [hotxlfp.Parser() for _ in formulas]
for p in parsers:
    p.set_variable('va', 53)
out = [None] * len(formulas)
gate = threading.Barrier(len(formulas))
def work(i):
    gate.wait()
    r = parsers[i].parse(formulas[i])
    out[i] = [repr(r['result']), r['error']]
ts = [threading.Thread(target=work, args=(i,)) for i in range(len(formulas))]
for t in ts: t.start()
for t in ts: t.join()
print('COLD ' + json.dumps(out))
'''


def run_cold(c):
    """the FIRST evaluations of a process, on distinct parsers in threads released together: whatever the library sets up
    lazily at first use is set up under concurrency here"""
    import json as _json
    import subprocess
    import sys as _sys
    recs = []
    for _ in range(c.get('repeat', 3)):
        p = subprocess.run([_sys.executable, '-c', COLD_SCRIPT, common.REPO, _json.dumps(c['formulas'])],
                           stdout=subprocess.PIPE, stderr=subprocess.PIPE, timeout=120)
        line = [l for l in p.stdout.decode('utf-8', 'replace').split('\n') if l.startswith('COLD ')]
        if not line:
            raise RuntimeError('cold-start runner failed: %s' % p.stderr.decode('utf-8', 'replace')[-400:])
        recs.append(_json.loads(line[0][5:]))
    common.load_repo()
    import hotxlfp
    want = []
    for f in c['formulas']:
        q = hotxlfp.Parser()
        q.set_variable('va', 53)
        r = q.parse(f)
        want.append([repr(r['result']), r['error']])
    return {'recs': recs, 'want': want}


def _comparable(outer, plan, frames):
    exp = expected_frames(outer, plan)
    return len(exp) == len(frames) and not any(f == '' for f, _ in exp)


def _brief(s):
    return {'f': s['f'], 'rec': s['rec'], 'anomalies': s.get('anomalies')}


def act_wire(formula, n_fetches):
    return '(%s %d)' % (enc_str(formula), n_fetches)


def model_tokens(ops):
    """lexer operations of an activation as the driver prints them"""
    res = []
    for op in ops:
        if op[0] == 'input':
            continue
        if op[0] == 'eof':
            res.append('eof')
        elif op[0] == 'raise':
            res.append('LEXERROR')
        else:
            res.append([op[0], enc_str(op[1])])
    return res


def _fetches(ops):
    return len([o for o in ops if o[0] != 'input'])


@_harness_errors
def request(c):
    kind = c['kind']
    if kind == 'sched':
        fs = c['formulas']
        n = len(fs)
        limits = [_fetches(thread_solo(i, f)['ops']) for i, f in enumerate(fs)]
        tail = list(range(n)) * (max(limits) + 2)
        return 'interleave.run owned (%s) (%s)' % (
            ' '.join(act_wire(f, k) for f, k in zip(fs, limits)), ' '.join(str(t) for t in list(c['schedule']) + tail))
    if kind == 'nest':
        res = _run(c)
        parts = []
        for r in res['runs']:
            if 'ops' not in r:
                continue
            exp = expected_frames(c['outer'], r['plan'])
            acts = [act_wire(f, _fetches(solo(f, prof)['ops'])) for f, prof in exp]
            parts.append('(owned (%s) (%s))' % (' '.join(acts), ' '.join(str(t) for t in r['order'])))
        if not parts:
            return None
        return 'interleave.batch ' + ' '.join(parts)
    if kind == 'sheet':
        # the Lean evaluator on every formula of the sheet, the cells and ranges it mentions bound to the values the
        # bottom-up reference computed (the model has no host that evaluates inside a listener: inner outcomes are data)
        res = _run(c)
        return 'c04.batch ' + ' '.join(enc_str(f) for f in res['formulas']) + ' ' + res['env']
    if kind == 'handed':
        # the Lean evaluator on ONE formula of the case (seeded which), cells and ranges bound to what the host answers for
        # the labels the formula's callbacks are handed alone: its record and its event sequence (labels, $ marks, coordinates)
        res = _run(c)
        return 'eval %s %s' % (enc_str(res['model_f']), res['model_env'])
    return None


@_harness_errors
def impl(c):
    res = _run(c)
    _impl_cache.pop(_key(c), None)
    return res


def _model_matches(entry, ops):
    """entry = [phase, count, [tok…]] of the driver; ops = the real activation's lexer operations"""
    if not isinstance(entry, list) or len(entry) != 3:
        return False
    toks = entry[2] if isinstance(entry[2], list) else []
    mine = model_tokens(ops)
    if len(toks) != len(mine):
        return False
    for m, r in zip(toks, mine):
        if r == 'LEXERROR':
            if not (isinstance(m, list) and m[0] == 'LEXERROR'):
                return False
        elif m != r:
            return False
    return entry[0] == 'finished'


def agree(c, impl_ans, model_ans):
    m = fx.parse_sexp(model_ans)
    if c['kind'] == 'sched':
        if not isinstance(m, list) or len(m) != len(c['formulas']):
            return False
        return all(_model_matches(e, ops) for e, ops in zip(m, impl_ans['ops']))
    if c['kind'] == 'nest':
        runs = [r for r in impl_ans['runs'] if 'ops' in r]
        if not isinstance(m, list) or len(m) != len(runs):
            return False
        for ans, r in zip(m, runs):
            if len(ans) != len(r['ops']):
                return False
            if not all(_model_matches(e, ops) for e, ops in zip(ans, r['ops'])):
                return False
        return True
    if c['kind'] == 'sheet':
        fs = impl_ans['formulas']
        if not isinstance(m, list) or len(m) != len(fs):
            return False
        for f, ans in zip(fs, m):
            if not isinstance(ans, list) or len(ans) != 2:
                return False
            if f in impl_ans['risky']:
                continue
            # the model's record against what the formula gave inside the running sheet, and alone (floats: the model
            # sums exactly, Python left to right - cancellation leaves an absolute error of a few ulps of the operands)
            for rec in (impl_ans['observed'].get(f), impl_ans['alone'][f]):
                if rec is not None and fx.record_matches(ans[1], rec, ulps=8, rel=1e-9) is False:
                    return False
        return True
    if c['kind'] == 'handed':
        return agree_hand(c, impl_ans, model_ans)
    return True


def oracle(c, impl_ans):
    kind = c['kind']
    if kind == 'nest':
        for s in (impl_ans['solo_outer'], impl_ans['solo_inner']):
            if s.get('anomalies'):
                return 'solo evaluation of %r: %s' % (s['f'], s['anomalies'][0])
        for r in impl_ans['runs']:
            if r['msg']:
                return 'outer %r on parser A; %s: %s' % (c['outer'], describe(r['plan']), r['msg'])
        return None
    if kind == 'bind':
        return judge_bind(c, impl_ans)
    if kind == 'sheet':
        for r in impl_ans['runs']:
            if r['msg']:
                return '%s: %s' % (describe_sheet_run(c, r), r['msg'])
        return None
    if kind == 'handed':
        for r in impl_ans['runs']:
            if r['msg']:
                return 'formulas %r; %s: %s' % (c['formulas'], describe_hand(c, r['plan']), r['msg'])
        return None
    if kind == 'sched':
        for i, f in enumerate(c['formulas']):
            s = thread_solo(i, f)
            if impl_ans['recs'][i] != s['rec']:
                return ('threads evaluating %r on distinct parsers under the schedule %r: thread %d (%r) gives %r, alone it gives %r; '
                        'tokens it fetched: %r' % (c['formulas'], impl_ans['effective'], i, f, impl_ans['recs'][i], s['rec'],
                                                   impl_ans['ops'][i]))
        return None
    if kind == 'cold':
        for run in impl_ans['recs']:
            for i, f in enumerate(c['formulas']):
                if run[i] != impl_ans['want'][i]:
                    return ('the first evaluations of a fresh process, %r on distinct parsers in threads started together: %r gives %r, '
                            'alone it gives %r' % (c['formulas'], f, run[i], impl_ans['want'][i]))
        return None
    if kind == 'linesched':
        return impl_ans['findings'][0] if impl_ans['findings'] else None
    if kind == 'stress':
        if impl_ans['bad']:
            i, k, f, got, want = impl_ans['bad'][0]
            return ('free-running threads on distinct parsers: evaluation %d of thread %d, %r, gives %r, alone it gives %r '
                    '(%d deviations shown)' % (k, i, f, got, want, len(impl_ans['bad'])))
        return None
    return None


def nontrivial(c, impl_ans):
    kind = c['kind']
    if kind == 'nest':
        return any(r['nframes'] >= 2 for r in impl_ans['runs'])
    if kind == 'sheet':
        return any(r['nested'] > 0 for r in impl_ans['runs'])
    if kind == 'handed':
        return any(r['apart'] for r in impl_ans['runs'])
    if kind == 'sched':
        e = impl_ans['effective']
        return sum(1 for a, b in zip(e, e[1:]) if a != b) >= 2
    if kind == 'bind':
        if impl_ans.get('globals'):
            return len(impl_ans['seen']) > 0
        # the binding is live on P itself (otherwise its invisibility on Q says nothing)
        return impl_ans['P'] != impl_ans['before'] or impl_ans['calls_by_P'] > 0
    return True


def weight(c, impl_ans):
    if c['kind'] == 'nest':
        runs = impl_ans['runs']
        ev = sum(r['nframes'] for r in runs) + 2
        return (max(1, ev), max(0, len([r for r in runs if r['nframes'] >= 2]) - 1),
                max(0, len([r for r in runs if 'ops' in r]) - 1))
    if c['kind'] == 'stress':
        return (impl_ans['evaluations'], 0, 0)
    if c['kind'] == 'linesched':
        return (2 * impl_ans['runs'] + 3, max(0, impl_ans['runs'] - 1), 0)
    if c['kind'] == 'handed':
        runs = impl_ans['runs']
        return (sum(r['nframes'] for r in runs) + impl_ans['refs'], max(0, len([r for r in runs if r['apart']]) - 1), 0)
    if c['kind'] == 'sheet':
        runs = impl_ans['runs']
        return (sum(r['nframes'] for r in runs) + impl_ans['ref_evals'], max(0, len([r for r in runs if r['nested'] > 0]) - 1),
                max(0, len([f for f in impl_ans['formulas'] if f not in impl_ans['risky']]) - 1))
    return None


def shrink(c, msg):
    """a nest case covers many positions: keep the first failing plan only; a sheet case many queries: keep the
    failing one and the cells it can reach"""
    if c['kind'] == 'sheet':
        return shrink_sheet(c, msg)
    if c['kind'] == 'handed':
        if c.get('only') is None:
            res = run_handed(c)
            for r in res['runs']:
                if r['msg']:
                    c2 = dict(c)
                    c2['only'] = r['plan']
                    return c2, 'formulas %r; %s: %s' % (c['formulas'], describe_hand(c, r['plan']), r['msg'])
        return c, msg
    if c['kind'] != 'nest' or c.get('only') is not None:
        return c, msg
    res = _run(c)
    _impl_cache.pop(_key(c), None)
    for r in res['runs']:
        if r['msg']:
            c2 = dict(c)
            c2['only'] = r['plan']
            return c2, msg
    return c, msg


def shrink_sheet(c, msg):
    try:
        res = run_sheet(c)
        bad = [r for r in res['runs'] if r['msg']]
        if not bad:
            return c, msg
        r = bad[0]
        c2 = dict(c)
        c2['queries'] = [c['queries'][r['q']]]
        c2['extras'] = []
        if r['extra'] is not None:
            ex = {'q': 0, 'at': r.get('fired') if r.get('fired') is not None else r['extra']['at'],
                  'formula': r['extra']['formula'], 'where': r['extra']['where']}
            c2['extras'] = [ex]
            c2.pop('sweep', None)
        # cells no formula of the reduced case can reach are dropped
        reach, todo = set(), list(c2['queries']) + [e['formula'] for e in c2['extras']]
        while todo:
            for d in static_deps(todo.pop()):
                if d not in reach:
                    reach.add(d)
                    if is_formula(c['cells'].get(d)):
                        todo.append(c['cells'][d][1:])
        c2['cells'] = {k: v for k, v in c['cells'].items() if k in reach}
        res2 = run_sheet(c2)
        bad2 = [x for x in res2['runs'] if x['msg']]
        if bad2:
            return c2, '%s: %s' % (describe_sheet_run(c2, bad2[0]), bad2[0]['msg'])
    except Exception:
        pass
    finally:
        _sheet_host[0] = None
    return c, msg


def search(rng, ctx, disagreements):
    c2 = dict(ctx)
    c2['scale'] = 3
    return cases(rng, c2)
