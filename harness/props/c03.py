# -*- coding: utf-8 -*-
"""C03 - parser instances are isolated; evaluation is re-entrant and thread-independent

Sub-checks (case kinds):
  nest    (a) re-entrancy: one (outer, inner) pair of formulas; the inner evaluation is interposed at every
          callback position of the outer one, on every target, to depth 2
  bind    (b) isolation of bindings: variables / functions / listeners of P are invisible on Q
  sched   (c) threads on distinct parsers under a harness-controlled scheduler: every lexer operation
          (`Lexer.input`, `Lexer.token`) waits for its turn according to the schedule; compared with the Lean
          interleaving model (`interleave.run owned …`)
  stress  (c) free-running threads with a 1 µs switch interval
"""
import itertools
import math
import random as _random
import sys
import threading
import time

from .. import common, fx
from ..common import enc_str
from . import c04, c08

ID = 'C03'
LEAN_MODULES = ['HotXL.Props.C03']
FUNCTIONS = ['hotxlfp.grammarparser.parser:Parser.__init__', 'hotxlfp.grammarparser.parser:Parser.parse',
             'hotxlfp.parser:Parser.__init__', 'hotxlfp.parser:Parser.parse', 'hotxlfp.parser:Parser.call_function',
             'hotxlfp.parser:Parser.call_variable', 'hotxlfp.parser:Parser.call_cell_value',
             'hotxlfp.parser:Parser.call_range_value', 'hotxlfp.parser:Parser.set_variable',
             'hotxlfp.parser:Parser.set_function', 'hotxlfp.tinyemitter:Emitter.__init__',
             'hotxlfp.tinyemitter:Emitter.on', 'hotxlfp.tinyemitter:Emitter.emit',
             'ply.yacc:LRParser.parse', 'ply.yacc:LRParser.parseopt_notrack', 'ply.lex:Lexer.input',
             'ply.lex:Lexer.token', 'ply.lex:Lexer.clone', 'ply.lex:lex']
RULE = ('(a) nest: all ordered pairs of a seeded pool of formulas (trees of the C04 and C08 generators with the hook function CB '
        'wrapped around seeded operands/arguments, plus hand-written ones: ranges, arrays, strings, syntax errors, illegal '
        'characters, unknown names, raising host functions, the empty formula); for each pair the inner evaluation is '
        'interposed at EVERY callback position of the outer one (k-th call of the custom function CB, k-th callVariable / '
        'callCellValue / callRangeValue / callFunction emission, as counted in the outer formula\'s solo run) x target in '
        '{another pre-built parser, the same parser, a parser constructed inside the callback}; depth 2: the inner evaluation\'s '
        'own callback positions evaluate a third formula (quick: 4 seeded first positions x every second position x a seeded target; '
        'thorough: every first position and target x every second position x every target). '
        'Oracle: every evaluation\'s record and callback-event sequence equal those of its solo run on the same parser. '
        '(b) bind: variable / custom function / listener registered on P, Q created before and after: Q reports #NAME? / blank '
        'and P\'s listeners are not called by Q. (c) sched: 2-3 threads, each on its own parser, every Lexer.input/Lexer.token '
        'call gated by a schedule (list of thread ids, finished threads skipped, round-robin tail): quick = all interleavings of '
        'two 4-step evaluations + seeded schedules; thorough = ALL interleavings of pairs of short evaluations (6+6 steps: 924, and '
        'two error pairs) + seeded 3-thread schedules; the tokens each thread fetched are compared with the Lean model. stress: 4 '
        'free-running threads x 300 evaluations on distinct parsers, switch interval 1 µs, while a fifth thread keeps constructing '
        'parsers (each construction rebinds ply\'s process-global lexer) and evaluates on them. Non-trivial = a nested evaluation '
        'actually ran / the schedule switches between unfinished threads.')
TRUSTED = ['granularity: the controlled scheduler and the Lean model interleave at lexer operations (Lexer.input / Lexer.token); '
           'interleavings inside these methods (bytecode level) are exercised only by the free-running stress test',
           'CPython object internals (GIL atomicity of dict/list operations, copy.copy in Lexer.clone) are not modelled',
           'ply keeps the LR stacks in locals of LRParser.parseopt_notrack; the attributes it leaves on the LRParser object '
           '(token, statestack, symstack, state, errorok) are never read back because p_error always raises - by inspection, '
           'and exercised by the same-parser nesting cases with failing formulas',
           'the machine step of an activation (LR automaton + semantic actions) is a parameter of the Lean model; the driver '
           'comparison instantiates only the lexer side (token sequences), with the number of fetches of each activation taken '
           'from its SOLO run on the real implementation']
ASSUMPTIONS = ['"outcome" = the record returned by Parser.parse; the sequence of callback events of an evaluation is compared too '
               '(an evaluation that made different host calls was influenced)',
               'host callbacks return values that do not depend on the nested evaluation (the hook function is the identity); '
               'the solo run of the outer formula uses the same callbacks with the nested evaluation switched off',
               'threads run on DISTINCT parser objects (the statement does not promise one parser object to be usable from '
               'two threads at once)']
EXHAUSTIVE = {'quick': False, 'thorough': False}

KINDS = ['fn', 'var', 'cell', 'range', 'callfn']
KIND_TEXT = {'fn': 'call of the custom function CB', 'var': 'callVariable listener', 'cell': 'callCellValue listener',
             'range': 'callRangeValue listener', 'callfn': 'callFunction listener'}
OFFSETS = {'A': 0, 'B': 1000, 'N': 2000}


class HarnessTimeout(BaseException):
    """not an Exception: Parser.parse swallows those"""


class SchedulerFailure(RuntimeError):
    """the harness's own scheduler failed (deadlock / timeout): exit 2, never a verdict"""


def _harness_errors(fn):
    """HarnessTimeout is a BaseException inside the workers (Parser.parse swallows Exceptions); out here it is
    an ordinary harness error"""
    def wrapped(*a, **kw):
        try:
            return fn(*a, **kw)
        except HarnessTimeout as e:
            _restore()
            raise SchedulerFailure('HARNESS-TIMEOUT in the C03 thread scheduler: %s' % (e,))
    wrapped.__name__ = fn.__name__
    return wrapped


# =========================================================================== taps on ply's lexer

_tap = [None]
_patched = [None]


def _install():
    """replace Lexer.input / Lexer.token by observing wrappers (class attributes); idempotent"""
    if _patched[0] is not None:
        return
    common.load_repo()
    import ply.lex as lex
    orig_input, orig_token = lex.Lexer.input, lex.Lexer.token

    def input_(self, s):
        tap = _tap[0]
        h = tap.enter(self) if tap is not None else None
        if h is None:
            return orig_input(self, s)
        try:
            r = orig_input(self, s)
            tap.note(h, ['input', s])
            return r
        finally:
            tap.leave(h)

    def token_(self):
        tap = _tap[0]
        h = tap.enter(self) if tap is not None else None
        if h is None:
            return orig_token(self)
        try:
            try:
                t = orig_token(self)
            except BaseException as e:
                tap.note(h, ['raise', type(e).__name__])
                raise
            tap.note(h, ['eof'] if t is None else [t.type, t.value])
            return t
        finally:
            tap.leave(h)
    lex.Lexer.input = input_
    lex.Lexer.token = token_
    _patched[0] = (lex, orig_input, orig_token)


def _restore():
    if _patched[0] is None:
        return
    lex, oi, ot = _patched[0]
    lex.Lexer.input = oi
    lex.Lexer.token = ot
    _patched[0] = None
    _tap[0] = None


class tapped(object):
    def __init__(self, tap):
        self.tap = tap

    def __enter__(self):
        _install()
        _tap[0] = self.tap
        return self.tap

    def __exit__(self, *a):
        _restore()


# =========================================================================== canonical values

def canon(v):
    if v is None or isinstance(v, (bool, int, str)):
        return [type(v).__name__, repr(v)]
    if isinstance(v, float):
        return ['float', repr(v)]
    if isinstance(v, (list, tuple)):
        return ['list'] + [canon(x) for x in v]
    if isinstance(v, dict):
        return ['dict'] + [[canon(k), canon(x)] for k, x in sorted(v.items(), key=repr)]
    return [type(v).__name__, str(v)]


def canon_rec(rec):
    return [canon(rec.get('result')), canon(rec.get('error'))] if isinstance(rec, dict) else ['not-a-record', repr(rec)]


# =========================================================================== parsers with a profile

def equip(p, off, hook):
    """variables, functions, listeners of one parser; every value depends on `off` so that a parser answering
    with another parser's bindings shows; `hook(parser, kind, payload)` is told about every callback"""
    from hotxlfp.formulas import error
    for k, v in c04.VARS.items():
        p.set_variable(k, v + off)
    p.set_variable('txt', 'text%d' % off)
    for tag, code in c08.CODES.items():
        p.set_variable('e_' + tag, error.from_message(code))

        def mk(code=code):
            def f(*a):
                raise error.from_message(code)
            return f
        p.set_function('RAISE_' + tag.upper(), mk())

    def pyraise(*a):
        raise ValueError('boom')
    p.set_function('PYRAISE', pyraise)
    p.set_function('ID', lambda x: x)
    p.set_function('OFF', lambda: off)

    def cb(*a):
        hook(p, 'fn', canon(list(a)))
        return a[0] if a else None
    p.set_function('CB', cb)

    def on_var(name, setter):
        hook(p, 'var', name)
        if name == 'lv':
            setter(7 + off)
    p.on('callVariable', on_var)

    def on_cell(cell, setter):
        hook(p, 'cell', cell.label)
        for lab, v in c04.CELLS.items():
            if cell.label == lab.upper():
                setter(v + off)
    p.on('callCellValue', on_cell)

    def on_range(start, end, setter):
        hook(p, 'range', [start.label, end.label])
        setter([[1 + off, 2 + off], [3 + off, 4 + off]])
    p.on('callRangeValue', on_range)

    def on_fn(name, args, setter):
        hook(p, 'callfn', [name, canon(list(args))])
    p.on('callFunction', on_fn)
    return p


def new_parser(off, hook):
    common.load_repo()
    import hotxlfp
    return equip(hotxlfp.Parser(), off, hook)


# =========================================================================== (a) nesting rig

class Frame(object):
    def __init__(self, parser, name, formula, trigger):
        self.parser, self.name, self.formula, self.trigger = parser, name, formula, trigger
        self.count = {}
        self.events = []
        self.fired = False
        self.rec = None
        self.ops = []          # lexer operations of this activation


class Rig(object):
    """two pre-built parsers A, B (B built last: ply's process-global lexer is B's), parsers built inside
    callbacks are N; a stack of evaluation frames; also the tap that attributes lexer operations to frames"""

    def __init__(self):
        self.names = {}
        self.A = self.build('A')
        self.B = self.build('B')
        self.stack = []
        self.frames = []
        self.order = []        # frame index of every lexer operation, in global order = the schedule
        self.anomalies = []

    def build(self, name):
        p = new_parser(OFFSETS[name], self.hook)
        self.names[id(p)] = name
        if not hasattr(self, 'keep'):
            self.keep = []
        self.keep.append(p)
        return p

    def reset(self):
        self.stack, self.frames, self.order, self.anomalies = [], [], [], []

    # ---- tap interface
    def enter(self, lexer):
        if not self.stack:
            return None
        return self.stack[-1]

    def note(self, fr, what):
        fr.ops.append(what)
        self.order.append(self.frames.index(fr))

    def leave(self, fr):
        pass

    # ---- callbacks of the parsers
    def hook(self, X, kind, payload):
        if not self.stack:
            self.anomalies.append('a %s of parser %s fired outside any evaluation' % (KIND_TEXT[kind], self.names.get(id(X))))
            return
        fr = self.stack[-1]
        if fr.parser is not X:
            self.anomalies.append('a %s registered on parser %s fired during an evaluation on parser %s' % (
                KIND_TEXT[kind], self.names.get(id(X)), fr.name))
            return
        k = fr.count.get(kind, 0)
        fr.count[kind] = k + 1
        fr.events.append([kind, payload])
        tr = fr.trigger
        if tr is not None and not fr.fired and tr['pos'] == [kind, k]:
            fr.fired = True
            self.evaluate(tr['formula'], tr['target'], X, tr.get('then'))

    def evaluate(self, formula, target, current, trigger):
        if target == 'same':
            T = current
        elif target == 'other':
            T = self.B if current is self.A else self.A
        elif target == 'new':
            T = self.build('N')
        else:
            T = {'A': self.A, 'B': self.B}[target]
        fr = Frame(T, self.names[id(T)], formula, trigger)
        self.frames.append(fr)
        self.stack.append(fr)
        try:
            fr.rec = T.parse(formula)
        finally:
            self.stack.pop()
        return fr


def frame_summary(fr):
    return {'on': fr.name, 'f': fr.formula, 'rec': canon_rec(fr.rec), 'events': fr.events, 'ops': fr.ops,
            'fired': fr.fired, 'count': dict(fr.count)}


_solo_cache = {}
_solo_rig = [None]


def solo(formula, name):
    """the formula evaluated ALONE on a parser with profile `name` (A, B pre-built; N freshly constructed)"""
    key = (formula, name)
    if key not in _solo_cache:
        if _solo_rig[0] is None:
            _solo_rig[0] = Rig()
        rig = _solo_rig[0]
        rig.reset()
        with tapped(rig):
            fr = rig.evaluate(formula, 'new' if name == 'N' else name, rig.A, None)
        s = frame_summary(fr)
        if rig.anomalies:
            s['anomalies'] = list(rig.anomalies)
        _solo_cache[key] = s
    return _solo_cache[key]


def positions(summary):
    return [[k, i] for k in KINDS for i in range(summary['count'].get(k, 0))]


def target_name(target, current):
    if target == 'same':
        return current
    if target == 'new':
        return 'N'
    return 'B' if current == 'A' else 'A'


_nest_rig = [None]


def run_nested(outer, trigger):
    """-> (list of frame summaries in start order, schedule, anomalies).  The pre-built parsers A and B live as
    long as the process: whatever one evaluation leaves behind on them is in view of all later ones"""
    if _nest_rig[0] is None:
        _nest_rig[0] = Rig()
    rig = _nest_rig[0]
    rig.reset()
    del rig.keep[2:]
    with tapped(rig):
        rig.evaluate(outer, 'A', rig.A, trigger)
    return [frame_summary(fr) for fr in rig.frames], list(rig.order), list(rig.anomalies)


def nest_plans(c):
    """the (trigger, description) list of a nest case: every position x target, and the depth-2 ones"""
    if c.get('only') is not None:
        return [c['only']]
    outer, inner, third = c['outer'], c['inner'], c['third']
    rng = _random.Random(c['seed'])
    thorough = c.get('thorough', False)
    plans = []
    so = solo(outer, 'A')
    for pos in positions(so):
        for target in ('other', 'same', 'new'):
            plans.append({'pos': pos, 'target': target, 'formula': inner})
    # depth 2
    firsts = [(pos, t) for pos in positions(so) for t in ('other', 'same', 'new')]
    if not thorough and len(firsts) > 4:
        firsts = rng.sample(firsts, 4)
    for pos, target in firsts:
        tn = target_name(target, 'A')
        si = solo(inner, tn)
        for pos2 in positions(si):
            for t2 in (('other', 'same', 'new') if thorough else (rng.choice(('other', 'same', 'new')),)):
                plans.append({'pos': pos, 'target': target, 'formula': inner,
                              'then': {'pos': pos2, 'target': t2, 'formula': third}})
    return plans


def describe(plan, depth=1):
    s = 'at the %d. %s the callback evaluates %r on %s' % (
        plan['pos'][1] + 1, KIND_TEXT[plan['pos'][0]], plan['formula'],
        {'other': 'another pre-built parser', 'same': 'the SAME parser', 'new': 'a parser constructed inside the callback'}[plan['target']])
    if plan.get('then'):
        s += '; inside that evaluation, ' + describe(plan['then'], depth + 1)
    return s


def expected_frames(outer, plan):
    """[(formula, profile)] of the activations a plan should start, in order"""
    res = [(outer, 'A')]
    cur = 'A'
    p = plan
    while p is not None:
        cur = target_name(p['target'], cur)
        res.append((p['formula'], cur))
        p = p.get('then')
    return res


def judge_nested(outer, plan, frames, anomalies):
    """the property statement on one nested run; None = fine"""
    if anomalies:
        return anomalies[0]
    exp = expected_frames(outer, plan)
    if len(frames) != len(exp):
        return 'expected %d evaluations, %d ran' % (len(exp), len(frames))
    for depth, (fr, (f, prof)) in enumerate(zip(frames, exp)):
        s = solo(f, prof)
        who = ['the outer evaluation', 'the nested evaluation', 'the evaluation nested at depth 2'][depth]
        if fr['rec'] != s['rec']:
            return '%s of %r (parser %s) gives %r, alone it gives %r' % (who, f, prof, fr['rec'], s['rec'])
        if fr['events'] != s['events']:
            return '%s of %r (parser %s) made the host calls %r, alone it makes %r' % (who, f, prof, fr['events'], s['events'])
    return None


# =========================================================================== (b) bindings

BIND_WHAT = ['variable', 'predefined', 'function', 'builtin', 'callVariable', 'callCellValue', 'callRangeValue',
             'callFunction', 'once']


def run_bind(c):
    """-> dict of observations"""
    common.load_repo()
    import hotxlfp
    what, name, val = c['what'], c['name'], c['value']
    obs = {}
    calls = []
    Qb = hotxlfp.Parser()
    P = hotxlfp.Parser()
    probe = {'variable': name, 'predefined': name, 'function': name + '(1,2)', 'builtin': name + '(1,2)',
             'callVariable': name, 'callCellValue': 'A1', 'callRangeValue': 'A1:B2', 'callFunction': 'SUM(1,2)',
             'once': 'A1'}[what]
    obs['probe'] = probe
    obs['before'] = canon_rec(Qb.parse(probe))
    if what in ('variable', 'predefined'):
        P.set_variable(name, val)
    elif what in ('function', 'builtin'):
        P.set_function(name, lambda *a: val)
    elif what == 'callVariable':
        P.on('callVariable', lambda n, setter: (calls.append(n), setter(val)))
    elif what == 'callCellValue':
        P.on('callCellValue', lambda cell, setter: (calls.append(cell.label), setter(val)))
    elif what == 'callRangeValue':
        P.on('callRangeValue', lambda s, e, setter: (calls.append(s.label), setter([[val]])))
    elif what == 'callFunction':
        P.on('callFunction', lambda n, a, setter: (calls.append(n), setter(val)))
    elif what == 'once':
        P.once('callCellValue', lambda cell, setter: (calls.append(cell.label), setter(val)))
    Qa = hotxlfp.Parser()
    obs['Q_before'] = canon_rec(Qb.parse(probe))
    obs['Q_after'] = canon_rec(Qa.parse(probe))
    obs['calls_by_Q'] = list(calls)
    obs['P'] = canon_rec(P.parse(probe))
    obs['calls_by_P'] = len(calls) - len(obs['calls_by_Q'])
    obs['Q_before_again'] = canon_rec(Qb.parse(probe))
    obs['calls_total_after_Q'] = len(calls) - obs['calls_by_P']
    # through the public accessors too
    leak = []
    for who, q in (('Q created before', Qb), ('Q created after', Qa)):
        try:
            if what in ('variable', 'predefined'):
                got = q.get_variable(name)
                if what == 'variable' or canon(got) == canon(val):
                    leak.append('%s: get_variable(%r) = %r' % (who, name, got))
            elif what in ('function', 'builtin'):
                q.get_function(name)
                leak.append('%s: get_function(%r) succeeds' % (who, name))
        except KeyError:
            pass
    obs['leak'] = leak
    return obs


def judge_bind(c, obs):
    what, val = c['what'], c['value']
    unset = obs['before']          # what a parser that never heard of the binding answers
    for who in ('Q_before', 'Q_after', 'Q_before_again'):
        if obs[who] != unset:
            return '%s %r set on parser P; %s evaluates %r to %r, without P it gives %r' % (
                what, c['name'], who.replace('_', ' '), obs['probe'], obs[who], unset)
    if obs['calls_by_Q'] or obs['calls_total_after_Q']:
        return 'a %s listener of parser P was called by an evaluation on parser Q (%r)' % (what, obs['calls_by_Q'])
    if obs['leak']:
        return '%s %r set on P is visible on Q: %s' % (what, c['name'], '; '.join(obs['leak']))
    # the statement's words: Q gives #NAME? / blank
    if what in ('variable', 'function', 'callVariable') and unset != [canon(None), canon('#NAME?')]:
        return '%r on an untouched parser gives %r, not #NAME?' % (obs['probe'], unset)
    if what in ('callCellValue', 'once') and unset != [canon(None), canon(None)]:
        return '%r on an untouched parser gives %r, not blank' % (obs['probe'], unset)
    return None


# =========================================================================== (c) threads

class Gate(object):
    """turn-taking at lexer operations.  schedule = list of thread ids; a finished thread's turns are
    skipped; when the list is used up the turns go round-robin"""

    def __init__(self, schedule, n, deadline):
        self.cv = threading.Condition()
        self.sched = list(schedule)
        self.n = n
        self.i = 0
        self.finished = [False] * n
        self.effective = []
        self.ops = [[] for _ in range(n)]
        self.lexers = [set() for _ in range(n)]
        self.idents = {}
        self.deadline = deadline
        self.dead = False

    def _holder(self):
        while True:
            t = self.sched[self.i] if self.i < len(self.sched) else (self.i - len(self.sched)) % self.n
            if not self.finished[t]:
                return t
            self.i += 1

    # ---- tap interface
    def enter(self, lexer):
        me = self.idents.get(threading.get_ident())
        if me is None:
            return None
        with self.cv:
            while True:
                if self.dead:
                    raise HarnessTimeout('scheduler aborted')
                if self._holder() == me:
                    break
                left = self.deadline - time.time()
                if left <= 0:
                    self.dead = True
                    self.cv.notify_all()
                    raise HarnessTimeout('thread %d waited for its turn past the deadline (schedule position %d)' % (me, self.i))
                self.cv.wait(min(left, 1.0))
        self.lexers[me].add(id(lexer))
        return me

    def note(self, me, what):
        self.ops[me].append(what)

    def leave(self, me):
        with self.cv:
            self.effective.append(me)
            self.i += 1
            self.cv.notify_all()

    def finish(self, me):
        with self.cv:
            self.finished[me] = True
            self.cv.notify_all()


_thread_parsers = []


def thread_parser(i):
    while len(_thread_parsers) <= i:
        _thread_parsers.append(new_parser(1000 * len(_thread_parsers), lambda *a: None))
    return _thread_parsers[i]


_tsolo = {}


def thread_solo(i, formula):
    key = (i, formula)
    if key not in _tsolo:
        g = Gate([], 1, time.time() + 30)
        g.idents[threading.get_ident()] = 0
        p = thread_parser(i)
        with tapped(g):
            rec = p.parse(formula)
        _tsolo[key] = {'rec': canon_rec(rec), 'ops': g.ops[0]}
    return _tsolo[key]


def run_sched(formulas, schedule, timeout=30.0):
    n = len(formulas)
    parsers = [thread_parser(i) for i in range(n)]
    gate = Gate(schedule, n, time.time() + timeout)
    recs = [None] * n
    errs = [None] * n

    def work(i):
        gate.idents[threading.get_ident()] = i
        try:
            recs[i] = parsers[i].parse(formulas[i])
        except BaseException as e:   # HarnessTimeout, or anything parse let through
            errs[i] = e
        finally:
            gate.finish(i)
    ths = [threading.Thread(target=work, args=(i,), daemon=True) for i in range(n)]
    with tapped(gate):
        for t in ths:
            t.start()
        for t in ths:
            t.join(max(0.1, gate.deadline - time.time() + 2.0))
        if any(t.is_alive() for t in ths):
            with gate.cv:
                gate.dead = True
                gate.cv.notify_all()
            for t in ths:
                t.join(2.0)
            raise HarnessTimeout('scheduler deadlock: threads still alive after %.0fs (formulas %r, schedule %r, position %d)' % (
                timeout, formulas, schedule, gate.i))
    for e in errs:
        if isinstance(e, HarnessTimeout):
            raise e
    shared = [(i, j) for i in range(n) for j in range(i + 1, n) if gate.lexers[i] & gate.lexers[j]]
    return {'recs': [canon_rec(r) if e is None else ['exception', repr(e)] for r, e in zip(recs, errs)],
            'ops': gate.ops, 'effective': gate.effective, 'shared_lexer': shared}


def steps_of(i, formula):
    return len(thread_solo(i, formula)['ops'])


def run_stress(c):
    common.load_repo()
    rng = _random.Random(c['seed'])
    n, m = c['threads'], c['n']
    pool = c['pool']
    work = [[rng.choice(pool) for _ in range(m)] for _ in range(n)]
    parsers = [thread_parser(i) for i in range(n)]
    for i in range(n):
        for f in set(work[i]):
            thread_solo(i, f)
    out = [[None] * m for _ in range(n)]
    errs = [None] * n
    go = threading.Event()

    def run(i):
        go.wait(10)
        try:
            p = parsers[i]
            for k, f in enumerate(work[i]):
                out[i][k] = canon_rec(p.parse(f))
        except BaseException as e:
            errs[i] = repr(e)
    built = [0]
    stop = threading.Event()

    def construct():
        # a further thread keeps CONSTRUCTING parsers (each construction rebinds ply's process-global lexer and
        # parse function) and evaluates on each new instance
        import hotxlfp
        go.wait(10)
        try:
            while not stop.is_set() and built[0] < 2000:
                q = hotxlfp.Parser()
                q.set_variable('va', built[0])
                r = canon_rec(q.parse('va*2+1'))
                if r != [canon(built[0] * 2 + 1), canon(None)]:
                    errs.append('parser constructed while other threads evaluate: va*2+1 with va=%d gives %r' % (built[0], r))
                    return
                built[0] += 1
        except BaseException as e:
            errs.append('constructing thread: %r' % (e,))
    errs.append(None)
    old = sys.getswitchinterval()
    ths = [threading.Thread(target=run, args=(i,), daemon=True) for i in range(n)]
    ths.append(threading.Thread(target=construct, daemon=True))
    try:
        sys.setswitchinterval(1e-6)
        for t in ths:
            t.start()
        go.set()
        deadline = time.time() + 120
        for t in ths[:n]:
            t.join(max(0.1, deadline - time.time()))
        stop.set()
        ths[n].join(max(0.1, deadline - time.time()))
    finally:
        stop.set()
        sys.setswitchinterval(old)
    if any(t.is_alive() for t in ths):
        raise HarnessTimeout('stress threads did not finish in 120 s')
    bad = []
    for e in errs[n:]:
        if e:
            bad.append([n, -1, 'a parser constructed concurrently', e, None])
    for i in range(n):
        if errs[i]:
            bad.append([i, -1, None, errs[i], None])
        for k, f in enumerate(work[i]):
            s = thread_solo(i, f)['rec']
            if out[i][k] != s and len(bad) < 5:
                bad.append([i, k, f, out[i][k], s])
    return {'bad': bad, 'evaluations': n * m + built[0], 'constructed': built[0]}


# =========================================================================== the pool of formulas

HAND = ['CB(1)+10', 'CB(CB(2)*3)+CB(4)', 'SUM(CB(1),CB(2),CB(3))*2', 'IF(CB(1)>0,CB("yes"),CB("no"))&"!"',
        'va+vb*CB(v_c)', 'A1*b2-$c$3', 'SUM(A1:B2)+CB(A1)', 'CB(A1:B2)', '{1,2;3,4}', 'SUM({1,2,3})+lv',
        'txt&"-"&CB(txt)', '"a b"&\'c\'', 'CB(1/0)+1', 'IFERROR(CB(1/0),CB(5))', 'CB(nope)+1', 'nope+CB(1)', 'NOFUNC(CB(1))',
        'CB(1)+', 'CB(1)+*2', '(CB(2)', 'CB(1) 2', 'CB(1)+§', '1 @ CB(2)', 'CB(#REF!)+1', '#N/A', 'RAISE_NUM()+CB(1)',
        'CB(RAISE_NA())', 'PYRAISE(CB(1))', 'CB(PYRAISE())&"x"', 'e_div0+CB(1)', 'OFF()+CB(OFF())', '', '1+2*3',
        'CB()', 'CB(1,2,3)', '-CB(-va)', 'CB(1)<CB(2)', 'CB(2)^2', '50%*CB(4)', 'lv+CB(lv)', 'TRUE+CB(FALSE)']


def wrap4(t, rng, p):
    """CB( ) around seeded sub-expressions of a C04 tree"""
    k = t[0]
    if k in ('cmp', 'amparg'):
        return (k, wrap4(t[1], rng, p))
    if k == 'neg':
        r = ('neg', wrap4(t[1], rng, p))
    elif k == 'bin':
        r = ('bin', t[1], wrap4(t[2], rng, p), wrap4(t[3], rng, p))
    elif k == 'call':
        r = ('call', t[1], t[2], [wrap4(x, rng, p) for x in t[3]], t[4])
    else:
        r = t
    if rng.random() < p:
        return ('call', 'CB', 'flat', [('cmp', r) if r[0] == 'bin' and r[1] in ('=', '<>', '<', '>', '<=', '>=') else r], [])
    return r


def render8(t, rng, p):
    """c08.render with CB( ) around seeded sub-expressions"""
    k = t[0]
    if k in ('err', 'num'):
        s = t[2]
    elif k == 'arr':
        s = t[1]
    elif k == 'neg':
        s = '-(' + render8(t[1], rng, p) + ')'
    elif k == 'call':
        s = 'ID(' + render8(t[3][0], rng, p) + ')'
    else:
        s = '(' + render8(t[2], rng, p) + ')' + t[1] + '(' + render8(t[3], rng, p) + ')'
    return 'CB(' + s + ')' if rng.random() < p else s


def make_pool(rng, n_gen):
    pool = []
    for i in range(n_gen):
        if i % 2 == 0:
            t = c04.gen_top(rng, rng.randrange(1, 4))
            f = c04.render_spec(wrap4(t, rng, 0.4), False)
            if rng.random() < 0.3:
                f = c04.add_space(rng, f)
        else:
            t = c08.gen(rng, rng.randrange(1, 4), rng.choice([0.15, 0.4]))
            f = render8(t, rng, 0.4)
        if f not in pool:
            pool.append(f)
    return pool


SHORT = ['CB(7)', '-va+1', '2+*3', 'A1+2', '1 @', 'nope', 'va*2', '"s"&1', 'OFF()', '1/0', 'SUM(1,2)', '#REF!', '(3)', 'lv']


# =========================================================================== plugin interface

@_harness_errors
def cases(rng, ctx):
    thorough = ctx['tier'] == 'thorough'
    scale = ctx['scale']
    out = []
    # ---- (b) bindings
    names = {'variable': ['rate', 'x_1', 'Foo', 'sum'], 'predefined': ['TRUE', 'NULL'], 'function': ['FOO', 'My.Fn', 'F_2'],
             'builtin': ['SUM', 'MAX'], 'callVariable': ['ghost', 'rate'], 'callCellValue': ['-'], 'callRangeValue': ['-'],
             'callFunction': ['-'], 'once': ['-']}
    for what in BIND_WHAT:
        for name in names[what]:
            for val in [rng.randrange(2, 10 ** 6), 'v%d' % rng.randrange(100)]:
                out.append({'kind': 'bind', 'what': what, 'name': name, 'value': val})
    # ---- (a) nesting
    n_hand = len(HAND) if thorough else 14
    hand = list(HAND) if thorough else HAND[:5] + rng.sample(HAND[5:], n_hand - 5)
    pool = hand + make_pool(rng, (16 if thorough else 6) + 3 * (scale - 1))
    for outer in pool:
        for inner in pool:
            out.append({'kind': 'nest', 'outer': outer, 'inner': inner, 'third': rng.choice(pool),
                        'seed': rng.randrange(1 << 30), 'thorough': thorough})
    # ---- (c) scheduled threads
    def all_interleavings(f0, f1):
        n0, n1 = steps_of(0, f0), steps_of(1, f1)
        for ones in itertools.combinations(range(n0 + n1), n1):
            s = [0] * (n0 + n1)
            for k in ones:
                s[k] = 1
            out.append({'kind': 'sched', 'formulas': [f0, f1], 'schedule': s, 'exhaustive': True})
    if thorough:
        all_interleavings('CB(7)', '-va+1')       # 6 + 6 steps: C(12,6) = 924
        all_interleavings('2+*3', 'A1+2')         # a syntax error against a cell reference
        all_interleavings('1 @', 'nope')          # an illegal character against an unknown name
        all_interleavings('va*2', '1/0')
    else:
        all_interleavings('va*2', '1/0')          # 5 + 5 steps: C(10,5) = 252
        all_interleavings('1 @', 'nope')
    tpool = SHORT + [f for f in pool if f and len(f) < 40][:30]
    for _ in range((1500 if thorough else 250) * scale):
        n = 3 if (thorough or rng.random() < 0.4) else 2
        fs = [rng.choice(tpool) for _ in range(n)]
        if not all(fs):
            continue
        total = sum(steps_of(i, f) for i, f in enumerate(fs))
        # a seeded list of thread ids, sometimes shorter than needed (round-robin tail) and with bursts
        s = []
        while len(s) < total:
            t = rng.randrange(n)
            s += [t] * rng.choice([1, 1, 1, 2, 3])
        if rng.random() < 0.3:
            s = s[:rng.randrange(len(s))]
        out.append({'kind': 'sched', 'formulas': fs, 'schedule': s})
    # ---- (c) free-running
    out.append({'kind': 'stress', 'threads': 4, 'n': 300 * (3 if thorough else 1), 'seed': rng.randrange(1 << 30),
                'pool': [f for f in tpool if f]})
    return out


_impl_cache = {}


def _key(c):
    import json
    return json.dumps(c, sort_keys=True)


def _run(c):
    k = _key(c)
    if k in _impl_cache:
        return _impl_cache[k]
    kind = c['kind']
    try:
        if kind == 'nest':
            runs = []
            plans = nest_plans(c)
            stride = max(1, len(plans) // MODEL_RUNS_PER_CASE)
            for j, plan in enumerate(plans):
                frames, order, anomalies = run_nested(c['outer'], plan)
                msg = judge_nested(c['outer'], plan, frames, anomalies)
                r = {'plan': plan, 'msg': msg, 'nframes': len(frames)}
                if msg is None and j % stride == 0 and _comparable(c['outer'], plan, frames):
                    r['ops'] = [fr['ops'] for fr in frames]      # kept for the model comparison
                    r['order'] = order
                runs.append(r)
            # the solo run of both formulas is part of the case even if the outer one has no callback position
            res = {'runs': runs, 'solo_outer': _brief(solo(c['outer'], 'A')), 'solo_inner': _brief(solo(c['inner'], 'B'))}
        elif kind == 'bind':
            res = run_bind(c)
        elif kind == 'sched':
            res = run_sched(c['formulas'], c['schedule'])
        elif kind == 'stress':
            res = run_stress(c)
        else:
            raise ValueError(kind)
    finally:
        _restore()
    if kind == 'nest':
        _impl_cache[k] = res      # computed in the request phase, consumed by impl()
    return res


MODEL_RUNS_PER_CASE = 6


def _comparable(outer, plan, frames):
    exp = expected_frames(outer, plan)
    return len(exp) == len(frames) and not any(f == '' for f, _ in exp)


def _brief(s):
    return {'f': s['f'], 'rec': s['rec'], 'anomalies': s.get('anomalies')}


def act_wire(formula, n_fetches):
    return '(%s %d)' % (enc_str(formula), n_fetches)


def model_tokens(ops):
    """lexer operations of an activation as the driver prints them"""
    res = []
    for op in ops:
        if op[0] == 'input':
            continue
        if op[0] == 'eof':
            res.append('eof')
        elif op[0] == 'raise':
            res.append('LEXERROR')
        else:
            res.append([op[0], enc_str(op[1])])
    return res


def _fetches(ops):
    return len([o for o in ops if o[0] != 'input'])


@_harness_errors
def request(c):
    kind = c['kind']
    if kind == 'sched':
        fs = c['formulas']
        n = len(fs)
        limits = [_fetches(thread_solo(i, f)['ops']) for i, f in enumerate(fs)]
        tail = list(range(n)) * (max(limits) + 2)
        return 'interleave.run owned (%s) (%s)' % (
            ' '.join(act_wire(f, k) for f, k in zip(fs, limits)), ' '.join(str(t) for t in list(c['schedule']) + tail))
    if kind == 'nest':
        res = _run(c)
        parts = []
        for r in res['runs']:
            if 'ops' not in r:
                continue
            exp = expected_frames(c['outer'], r['plan'])
            acts = [act_wire(f, _fetches(solo(f, prof)['ops'])) for f, prof in exp]
            parts.append('(owned (%s) (%s))' % (' '.join(acts), ' '.join(str(t) for t in r['order'])))
        if not parts:
            return None
        return 'interleave.batch ' + ' '.join(parts)
    return None


@_harness_errors
def impl(c):
    res = _run(c)
    _impl_cache.pop(_key(c), None)
    return res


def _model_matches(entry, ops):
    """entry = [phase, count, [tok…]] of the driver; ops = the real activation's lexer operations"""
    if not isinstance(entry, list) or len(entry) != 3:
        return False
    toks = entry[2] if isinstance(entry[2], list) else []
    mine = model_tokens(ops)
    if len(toks) != len(mine):
        return False
    for m, r in zip(toks, mine):
        if r == 'LEXERROR':
            if not (isinstance(m, list) and m[0] == 'LEXERROR'):
                return False
        elif m != r:
            return False
    return entry[0] == 'finished'


def agree(c, impl_ans, model_ans):
    m = fx.parse_sexp(model_ans)
    if c['kind'] == 'sched':
        if not isinstance(m, list) or len(m) != len(c['formulas']):
            return False
        return all(_model_matches(e, ops) for e, ops in zip(m, impl_ans['ops']))
    if c['kind'] == 'nest':
        runs = [r for r in impl_ans['runs'] if 'ops' in r]
        if not isinstance(m, list) or len(m) != len(runs):
            return False
        for ans, r in zip(m, runs):
            if len(ans) != len(r['ops']):
                return False
            if not all(_model_matches(e, ops) for e, ops in zip(ans, r['ops'])):
                return False
        return True
    return True


def oracle(c, impl_ans):
    kind = c['kind']
    if kind == 'nest':
        for s in (impl_ans['solo_outer'], impl_ans['solo_inner']):
            if s.get('anomalies'):
                return 'solo evaluation of %r: %s' % (s['f'], s['anomalies'][0])
        for r in impl_ans['runs']:
            if r['msg']:
                return 'outer %r on parser A; %s: %s' % (c['outer'], describe(r['plan']), r['msg'])
        return None
    if kind == 'bind':
        return judge_bind(c, impl_ans)
    if kind == 'sched':
        for i, f in enumerate(c['formulas']):
            s = thread_solo(i, f)
            if impl_ans['recs'][i] != s['rec']:
                return ('threads evaluating %r on distinct parsers under the schedule %r: thread %d (%r) gives %r, alone it gives %r; '
                        'tokens it fetched: %r' % (c['formulas'], impl_ans['effective'], i, f, impl_ans['recs'][i], s['rec'],
                                                   impl_ans['ops'][i]))
        return None
    if kind == 'stress':
        if impl_ans['bad']:
            i, k, f, got, want = impl_ans['bad'][0]
            return ('free-running threads on distinct parsers: evaluation %d of thread %d, %r, gives %r, alone it gives %r '
                    '(%d deviations shown)' % (k, i, f, got, want, len(impl_ans['bad'])))
        return None
    return None


def nontrivial(c, impl_ans):
    kind = c['kind']
    if kind == 'nest':
        return any(r['nframes'] >= 2 for r in impl_ans['runs'])
    if kind == 'sched':
        e = impl_ans['effective']
        return sum(1 for a, b in zip(e, e[1:]) if a != b) >= 2
    if kind == 'bind':
        # the binding is live on P itself (otherwise its invisibility on Q says nothing)
        return impl_ans['P'] != impl_ans['before'] or impl_ans['calls_by_P'] > 0
    return True


def weight(c, impl_ans):
    if c['kind'] == 'nest':
        runs = impl_ans['runs']
        ev = sum(r['nframes'] for r in runs) + 2
        return (max(1, ev), max(0, len([r for r in runs if r['nframes'] >= 2]) - 1),
                max(0, len([r for r in runs if 'ops' in r]) - 1))
    if c['kind'] == 'stress':
        return (impl_ans['evaluations'], 0, 0)
    return None


def shrink(c, msg):
    """a nest case covers many positions: keep the first failing plan only"""
    if c['kind'] != 'nest' or c.get('only') is not None:
        return c, msg
    res = _run(c)
    _impl_cache.pop(_key(c), None)
    for r in res['runs']:
        if r['msg']:
            c2 = dict(c)
            c2['only'] = r['plan']
            return c2, msg
    return c, msg


def search(rng, ctx, disagreements):
    c2 = dict(ctx)
    c2['scale'] = 3
    return cases(rng, c2)
