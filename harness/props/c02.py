# -*- coding: utf-8 -*-
"""C02 - evaluation is a pure, repeatable function of formula and registered bindings

Sub-checks (case kinds):
  history          seeded sequences of operations on 1-3 long-lived parsers (valid, erroneous and aborted
                   evaluations, re-registrations, further parsers, `foreignlex` = a PLY lexer built by the host; an
                   evaluation aborted after it has read A1 and the host's edit of A1 in ONE block; + 1 fixed history
                   of that shape);
                   after the set-up block and after every later operation every probe formula is evaluated on
                   every long-lived parser and must give exactly the record a FRESH parser with the same
                   registrations gives; the traceback chains of the nine singletons must stay short
                                                                   [oracle: history-independence / memory]
  debug            the same registrations with debug on / off / toggled, host values that cannot be printed
                   (repr raises, 5000-deep list) among them: identical records               [oracle: debug]
  inert            listeners that set nothing and raise nothing (one edits the argument list it is handed):
                   same records with them, without them, on a parser created later  [oracle: inert listener]
  transient        listeners that answer through their setter (callVariable, callCellValue, callFunction) and then
                   stop answering (a flag) or are removed with off(): from then on the records are those of a parser
                   whose listeners never answered, and the registered variables are what was registered
                                                        [oracle: listener answers are not registrations]
  immut-fn/-ops    host values (variables, cell values, range values, values returned by host functions) are
                   snapshotted (deep copy, id and length of every nested list / tuple / dict) before the
                   evaluations and compared after each one                [oracle: host-value immutability]
  memory / memory-distinct
                   30 warm-up evaluations, then samples after 50,100,200,400 repetitions of one formula (or as
                   many distinct formulas) on a long-lived parser: live gc objects, traceback and context
                   chains of the nine singletons, tracemalloc bytes allocated in hotxlfp/ply frames must not
                   grow (object / byte growth is measured a second time, twice as long) [oracle: memory]
  order            pristine processes (harness/pristine.py: a server that has imported the library and evaluated
                   nothing forks one child per request): the `probe` formulas - every registered deterministic
                   function called once, on numbers, on texts or on error values / arrays / logicals / a date - are evaluated on a new parser in one child alone and in another child
                   after the `first` formulas (the same functions on other arguments); the two lists of records
                   must be equal; a differing pair is run again alone to name the smallest history
                                                   [oracle: history-independence across the process]
The model-compared histories (generated from the pools inside the modelled fragment) are also sent to the Lean
session model (`session.run`): every record and the final hidden state (errorok, clone lexer text, depth of the
LR stack, global lexer, traceback chains, number of tracebacks printed) are compared.
"""
import contextlib
import copy
import gc
import io
import json
import os
import random as _random
import signal
import sys
import tracemalloc

from .. import common, fx
from ..common import enc_str
from . import c04, c08

ID = 'C02'
LEAN_MODULES = ['HotXL.Props.C02']
FUNCTIONS = ['hotxlfp.parser:Parser.__init__', 'hotxlfp.parser:Parser.parse', 'hotxlfp.parser:Parser.call_function',
             'hotxlfp.parser:Parser.call_variable', 'hotxlfp.parser:Parser.call_cell_value',
             'hotxlfp.parser:Parser.call_range_value', 'hotxlfp.parser:Parser.set_variable',
             'hotxlfp.parser:Parser.set_function', 'hotxlfp.parser:Parser._throw_error',
             'hotxlfp.grammarparser.parser:Parser.__init__', 'hotxlfp.grammarparser.parser:Parser.parse',
             'hotxlfp.grammarparser.parser:FormulaParser.p_error', 'hotxlfp.grammarparser.parser:FormulaParser.p_variable_seq',
             'hotxlfp.grammarparser.parser:FormulaParser.p_expseq_comma', 'hotxlfp.grammarparser.lexer:t_error',
             'hotxlfp.formulas.error:from_message', 'hotxlfp.formulas.text:CONCATENATE',
             'hotxlfp.formulas.utils:iflatten', 'hotxlfp.formulas.utils:flatten', 'hotxlfp.formulas.utils:inumbers',
             'hotxlfp.formulas.statistical:LARGE', 'hotxlfp.tinyemitter:Emitter.emit',
             'ply.yacc:LRParser.__init__', 'ply.yacc:LRParser.parseopt_notrack', 'ply.lex:Lexer.clone', 'ply.lex:Lexer.input']
RULE = ('(a) kind `history`: seeded histories on 1-3 long-lived parsers, quick 5 model-compared + 7 oracle-only (25 + 35 at '
        'scale 5), thorough 60 + 140, + 1 fixed oracle-only history (below); 15/25/40 steps quick, 40/80/150/300 thorough (every 4th history 300). Set-up block: '
        '1..all planned parsers, each with debug on at p 0.25 and the standard bindings (41 registrations: variables va vb v_c '
        'rate_x ovr (= c04.VARS, ovr registered with 41 here) lista listb txt and e_<tag> = each of the 9 error values; functions RAISE_<TAG> raising each error singleton, '
        'ID ARGS PYRAISE KEYRAISE NARAISE HOSTLIST; 7 cells incl. list-valued F6, ranges A1:B2 A1:A3; oracle-only histories 8 '
        'more: cells Z9 Y8 / range Y1:Z2 whose listener raises ValueError / the #NUM! singleton / KeyError, callVariable / '
        'callFunction listeners raising for badvar / BADFN, re-entrant EVALSELF). A step is one block: 18% a valid formula '
        '(fixed pool 38 model / 117 oracle-only, the latter across the builtin families and operators on lists), 12% a c04 '
        'operator tree (c04.gen_top, whose call nodes are ID at 70 % and ABS - the shipped builtin on these parsers - at 30 %; fully parenthesised at p 0.3) or, p 0.5 each, a c08 error-propagation tree (c08.gen, '
        'error-leaf probability 0.15 / 0.3 / 0.6) under one of its 13 wrappers (per-history pool of max(4, steps/3) '
        'texts, depth 1..4 quick / 1..5 thorough), 8% (oracle-only) a random registered builtin (of the 152) with 0-3 '
        'arguments from a 15-member pool (incl. lists, an error value, cell, range, empty slot; per-history pool of '
        'max(4, steps/3) calls), 22% (model 30%) an erroneous formula (48 / 62: '
        'syntax errors, unknown names/functions, 1/0, bad arities, error literals/values, failing builtins; oracle-only 15% of '
        'these a cut-off prefix of a valid formula), 16% an evaluation aborted by a raising callback (14 / 37: host functions '
        'raising ValueError, KeyError, XLError singletons / also raising listeners, re-entrant evaluation, and 7 formulas that are '
        'aborted AFTER a reference was read: A1+badvar, A1+#REF!, A1*2+BADFN(), SUM(A1:B2)+badvar, A1+(, SUM(A1:B2)), '
        'A1&PYRAISE()&"x"), 19% a '
        're-registration on a random parser (38 / 54, 8 of the 54 edits of cell A1 - to 100, 71, "txt", a raising answer, 71, 5, '
        '"edited", 71: variables incl. lists, errors and the name TRUE, functions incl. '
        'shadowing SUM and defining NOSUCH, cell/range values, debug / listeners switched to raising and back), 2% '
        '(oracle-only) `foreignlex`: the host builds and runs a PLY lexer of its own (ply.lex.lex over a class with the '
        'tokens WORD / INT, fed "host text 42" and read to its end; a block without record or registration), so '
        'ply.lex.lexer is foreign, 3% (model 5%) a further parser with the standard bindings (one block) or, all being built, the empty formula. In the oracle-only histories a formula step whose text begins with A1 (of the fixed '
        'pools: A1+b2, A1:, and 5 of the 7 above) is at p 0.7 followed IN THE SAME BLOCK by an edit of cell A1 on the same parser '
        '(to 5, "edited", 71, 6 or 0): no probe and no other evaluation runs between that evaluation (for the 5 an abort) and the edit. The fixed history: one '
        'parser (debug off) with the 49 bindings, 4 such blocks (A1+badvar then A1 = 5, A1+#REF! then "edited", A1*2+BADFN() then '
        '71, A1+( then 6), probes A1&"x", A1+1, SUM(A1:B2). After the set-up '
        'block and after every step every probe (22 model / 43 oracle-only; a seeded half when steps > 100) is evaluated on '
        'every parser built so far and its record compared (type-strict ==: 1, 1.0, True differ; float tolerance 0, NaN = NaN) '
        'with that of a fresh parser given the same registrations in the same order (built once per parser x registration '
        'state x probe); the records of the steps themselves are compared with the model only; after every block the traceback '
        'chains of the nine singletons must total <= 100 entries; a history stops at 5 findings. (b) kind `debug`, 2 cases: '
        '120 (thorough all 259, 251 distinct) of the fixed valid/erroneous/raising/probe formulas; 60 (300) c04/c08 trees of depth <= 5 + 80 '
        '(600) random builtin calls; each + 10 formulas passing unprintable host values (an object whose repr/str raise, a '
        'list nested 5000 deep) through variables, cell H9, range H9:H10, host functions TAKES / GIVES; every formula on three '
        'parsers with the 49 bindings - debug off, on, toggled per formula - stderr captured, the three records type-strict '
        'equal. Kind `inert`, 1 case: 40 seeded valid + 12 fixed formulas on a parser without extra listeners, twice on one '
        'with callFunction / callVariable journal listeners that set and raise nothing (the callFunction one edits in place '
        'the argument list it is handed), on the first again, on a parser created afterwards: five equal records. Kind '
        '`transient`, 1 case: 7 fixed (bonus+1, rate*10, Q7+1, SUM(1,2), ISBLANK(Q7), rate&"x", bonus) + 25 seeded valid '
        'formulas on parsers with the 49 bindings, the variable rate = 2 and three more listeners behind a flag '
        '(callVariable sets bonus = 7 / rate = 5, callCellValue sets Q7 = 40, callFunction sets 1000 for SUM): the records '
        'of a parser whose flag was never on are the reference; a second parser evaluates all with the flag on, then again '
        'with it off; a third evaluates all with the flag on, has the three listeners removed with Parser.off and '
        'evaluates again: the records after switching off and after removal type-strict equal to the reference, and on '
        'the second parser Parser.variables still has rate = 2 and no bonus. debug / inert / transient keep at most 5 '
        'findings. (c) kind '
        '`immut-fn`, one case per registered builtin (152): 108 formulas = arity 1..3 x 11/17/18 argument sets over 14 host '
        'values (flat unsorted, nested, mixed, deep, text, empty, one-element lists, dict, object holding a list, tuple '
        'holding a list, trail = [3,7,9,None,None] - a column with blank cells at its end, cell O1 / range O1:O5 / H_TRAIL(), in 1 + 3 + 5 '
        'of the argument sets, e.g. (7, trail, 0), (7, trail, 1), (8, trail, -1), (trail, ">3", trail)) as variables, once more as cell / range / host-function result (rotating), every third through host '
        'function KEEP; kind `immut-ops`, 1 case of 2336 formulas: the 11 binary operators x 10 list / tuple values x 4 '
        'delivery paths (value op 2, "x" op value) and x 4 partner lists, and 12 values x 4 paths x 12 shapes (unary minus, '
        'array literals, parentheses, IF, IFERROR, KEEP, SUM, bare; trail is in no immut-ops formula but is registered and compared). One parser per case; after every formula each of the 14 '
        'values is compared with its deep copy (==) and with the id and length of every nested list/tuple/dict (to depth 20); '
        'stops at 3 findings; a formula running > 10 s (SIGALRM, wall-clock) is skipped, not judged. (d) kind `memory`: 18 '
        'formulas quick / 36 thorough (valid, syntax and name errors, raised and returned errors, raising callbacks, '
        're-entrant) with debug off + 2 / 4 with debug on (foo, PYRAISE() / also Z9, 1+); kind `memory-distinct`: 6 / 13 '
        'templates giving a different formula each time (a number counting up from a per-template offset; debug off); 30 '
        'warm-up evaluations, then samples after 50/100/200/400 on one parser per debug setting shared by all '
        'memory cases: live gc objects after gc.collect, tracemalloc bytes of hotxlfp/ply frames, __traceback__ and '
        '__context__/__cause__ chain lengths of the nine singletons. Verdict: any chain growth between the last two samples; '
        'or > 0.05 objects or > 0.5 bytes per evaluation there with growth in the interval before too, confirmed by a second '
        'measurement at 100/200/400/800 (30 warm-up evaluations again, memory-distinct with fresh numbers from 7000000; not '
        'taken when a chain grew). Sampling stops early once the traceback chains have grown over two successive intervals. '
        '(e) kind `order`: 40 x scale batches quick / 400 x scale thorough + 1 fixed case (first ROMAN(1000), ROMAN(3000,2), '
        'SUM(1,2), UPPER("a"), DATE(2020,1,2); probe ROMAN(1999), ROMAN(3888,2), SUM(1,2,3), UPPER("b"), DATE(2021,3,4)); the order '
        'cases come first in the case list. A batch = two lists `first` and `probe` with one call of every registered function but '
        'the four excluded ones (152, in the order of formulas.supported()); per batch one arity 1..3 (drawn from 1,1,2,2,3) and '
        'one pool for the first argument (p 0.3 ORDER_TEXTS = 12 text literals; p 0.2 ORDER_ERRS = 12 formulas for what one function '
        'made and another is handed: 6 error values 1/0, NA(), "a"+1, SQRT(-1), INDEX({1,2},5), nosuch, 3 arrays {1,2,3}, {1;2}, '
        '{"a","b"}, 2 logicals TRUE, 1=2, the date DATE(2020,1,15); else, p 0.5, ORDER_NUMS = 15 numbers); per function the '
        'further arguments from the 15 numbers + the first 3 texts; the probe call has another draw of the first argument from '
        'the same pool and the same further arguments, which at p 0.3 are replaced by draws from the numbers. run_order sends two '
        'requests to the server harness/pristine.py (started by the first order case as `python -m harness.pristine`; it imports '
        'hotxlfp, builds no parser, evaluates nothing, and forks one child per request; the child builds one hotxlfp.Parser '
        'without registrations, evaluates `first` in order dropping the outcomes, then `probe`): {first: [], probe} = alone, '
        '{first, probe} = after the history; a record is [type name of the result, its repr cut to 400 characters, error]; every '
        'position whose two records differ (==) is a finding: the probe formula is evaluated again alone in a pristine process and '
        'in one that has evaluated only the formula at the same position of `first`, and the message names that pair when these two '
        'differ, else the length of the batch and its first 3 formulas; stops at 3 findings. A `crash` answer (an exception escaping the child) or '
        'a server that does not answer READY is a RuntimeError of the plugin, not a finding. '
        'Scale changes (a) and (e) only. Model-compared histories are sent whole (steps and probe '
        'evaluations) to `session.run`; all other cases are oracle-only. NOW, TODAY, RAND, RANDBETWEEN are excluded. search() '
        '(proof or correspondence broke, no oracle failure yet): 20 + 28 more histories quick, 60 + 140 thorough, oracle only, '
        'until the first failure. A failing history is shrunk (one probe, blocks and registrations dropped, <= 200 re-runs). '
        'Non-trivial: history = a failing step, a step naming a raising callback, a registration and a probe comparison; debug '
        '= a traceback printed with debug on; transient = a formula whose record with answering listeners differs from the '
        'reference; immut = a formula judged; order = a probe record without error in the process that evaluated nothing before; inert, memory always. Bulk weights (evaluations, '
        'non-trivial inputs, model comparisons): history (parses, probe comparisons, model records), debug (3n, n, 0; n '
        'without the 10 unprintable-value formulas), inert (5n, 4n, 0), transient (5n, 2n, 0), immut (n, n, 0) with n '
        'formulas, memory (430, 1, 0), order (3n, n, 0) with n probe formulas.')
TRUSTED = ['the LR stack residue after an aborted parse is over-approximated by the session model (compared as: real stack '
           'depth <= model depth) and the cursor of the clone lexer is not compared (its text is); raises caught inside '
           'builtins (CONCATENATE) are not modelled',
           'model-compared histories: every record within 4 ulps or 1e-9 relative of that of the model; at the end '
           'traceback-chain length per singleton, tracebacks printed, index of the parser owning ply.lex.lexer (sampled right '
           'after each Parser construction), per parser errorok, clone text and a never-fed prototype lexer, read off '
           'p.parser.yacc / p.parser.lex; where the model has no opinion `(o ...)` the record, the traceback count and the '
           'stack depths are not compared; a history cut short by an oracle finding is not aligned',
           'host-value immutability, debug, inert and transient listeners and the memory clause are judged on the implementation only '
           '(values are immutable in the model): gc.get_objects / tracemalloc (1 frame, file names */hotxlfp/* */ply/*) / '
           'traceback-chain walks are the measuring instruments, 0.05 objects and 0.5 bytes per evaluation the noise floor',
           'model-compared histories stay inside the modelled fragment (operators, literals, variables, cells, ranges, '
           'Logic/Info builtins, SUM, host functions and, through the call nodes of the c04 trees, the shipped ABS); other builtins, raising listeners, EVALSELF, foreignlex, cut-off '
           'formulas and the blocks that join an aborted evaluation with an edit of A1 take part in the oracle-only histories',
           'transient: the reference is not a model answer but the same implementation on a parser built the same way whose '
           'three extra listeners never answer; the answering listeners are the harness\'s own (a flag switches them, '
           'Parser.off removes them) and run after the standard listeners of the harness parser (whose cell listener has '
           'already set None for Q7); only Parser.variables is inspected for left-over registrations',
           'harness hygiene: __traceback__/__context__/__cause__ of the nine singletons are cleared before and after every '
           'case (growth is observed within a case, not across cases); a mutated host value is restored after its finding; '
           'tracebacks printed are counted by their first line on a redirected sys.stderr',
           'history non-triviality takes a step as raising by its text (RAISE, Z9, Y8, Y1, BAD, bad occur in it) and counts '
           'the set-up registrations as registrations; c04/c08 tree texts are used as formulas only (names those plugins bind '
           'and the standard bindings lack are unknown names here)',
           'kind order: harness/pristine.py - one server per check run, a subprocess of sys.executable (cwd = the verif '
           'directory, the environment of the check, so HOTXLFP_REPO selects the same tree through common.load_repo), '
           'restarted when it has ended; os.fork per request, the answer written once to an os.pipe by the child (which '
           'ends with os._exit) and read to end of file by the server, os.waitpid; requests and answers are JSON lines on '
           'stdin / stdout; what an evaluation leaves behind in module-level state stays in the child, two requests share '
           'only what the import created; records cross the wire as [type name of the result, repr of the result cut to '
           '400 characters ("<repr raises X>" when it raises), error] and are compared with ==, i.e. results are equal '
           'when type name and (cut) repr are; show_wire prints them; no model takes part']
ASSUMPTIONS = ['"bindings" = variables, functions, the listeners and what they deliver, and the debug flag (the fresh parser '
               'receives it too; the debug triples say it changes no record); once-listeners (which deregister themselves, '
               'i.e. change the bindings) are outside this property (C20)',
               '"the same outcome" = the record {result, error} equal with types (1, 1.0, True differ), floats with tolerance '
               '0 (NaN = NaN), one and the same host object equal to itself; what is printed on stderr is no part of the '
               'outcome',
               '"any sequence of earlier evaluations" includes evaluations and registrations on OTHER parsers of the process, '
               'parsers built later, re-entrant evaluation and a foreign PLY lexer built by the host; the verdict is on the '
               'probes after each step, the record of a step itself is not judged by the oracle',
               'an evaluation that is aborted (unknown name, error literal, raising callback, syntax error) after it has read a '
               'reference leaves nothing of what the host answered behind: when the host edits that cell next - no evaluation '
               'running to its end in between - every later evaluation sees the edit, as on a fresh parser with the same '
               'registrations',
               '"any sequence of earlier evaluations" includes the empty one at the level of the PROCESS: kind order '
               'reads "alone" as a process that has imported the library and evaluated nothing (no parser built before), in '
               'which one new parser without registrations evaluates the probe formulas in their order; the probe '
               'formulas that precede a formula in its batch are history on both sides (only a differing pair is run '
               'again each formula by itself); what the import itself creates belongs to both sides',
               'a listener that sets nothing and raises nothing is no binding: records with and without it are equal, also '
               'when it edits the argument list it was handed',
               'what a listener hands to its setter is the value of that one evaluation, not a registration: once the listener '
               'sets nothing any more, or was removed with off(), the outcome is that of a parser with the same registrations '
               'whose listeners never answered (a registered variable the listener overrode has its registered value again, a '
               'name, cell or function answer only the listener supplied is gone) and Parser.variables is as registered',
               'debug on/off: the clause is equality of the three records; printing that calls repr/str of a host value or '
               'recurses through a 5000-deep list shows only as a record that differs between the settings',
               '"never mutates": == with a deep copy plus identity and length of every nested container of the 14 host values; '
               'a result that aliases a host list and what a host function does with its arguments are not judged',
               '"retains no memory per evaluation": what stays reachable after an evaluation may depend on the LAST formula '
               '(ply keeps the last stacks and the last clone lexer) but not on the number of evaluations; 30 warm-up '
               'evaluations are free, growth counts when it persists over two successive intervals and a repeat twice as long, '
               'chain growth on the singletons at once; in a history > 100 chain entries in total count as retention',
               'clock and random source are excluded by excluding NOW, TODAY, RAND, RANDBETWEEN',
               'host callbacks are themselves pure (the harness registers only callbacks whose answer depends on their '
               'arguments and the registered tables; journals they keep are never read back by them)']
EXHAUSTIVE = {'quick': False, 'thorough': False}

NONDET = {'NOW', 'TODAY', 'RAND', 'RANDBETWEEN'}
CODES = c08.CODES
SINGLETON_ORDER = ['error', 'div0', 'name', 'na', 'null', 'num', 'ref', 'value', 'data']    # = Err.all


class CaseTimeout(BaseException):        # BaseException: Parser.parse catches Exception
    pass


@contextlib.contextmanager
def time_limit(seconds):
    def handler(signum, frame):
        raise CaseTimeout()
    old = signal.signal(signal.SIGALRM, handler)
    signal.alarm(seconds)
    try:
        yield
    finally:
        signal.alarm(0)
        signal.signal(signal.SIGALRM, old)


def _hot():
    common.load_repo()
    import hotxlfp
    from hotxlfp.formulas import error
    return hotxlfp, error


def singletons():
    _, error = _hot()
    return [error.from_message(CODES[t]) for t in SINGLETON_ORDER]


def tb_len(e):
    n = 0
    tb = e.__traceback__
    while tb is not None:
        n += 1
        tb = tb.tb_next
    return n


def ctx_len(e):
    """length of the __context__/__cause__ chain hanging off a singleton"""
    n = 0
    seen = set()
    x = e.__context__ or e.__cause__
    while x is not None and id(x) not in seen and n < 10000:
        seen.add(id(x))
        n += 1
        x = x.__context__ or x.__cause__
    return n


# --------------------------------------------------------------------------- value / function specs (JSON-able)

def dv(spec):
    """JSON value spec -> a NEW Python object"""
    _, error = _hot()
    if isinstance(spec, dict):
        if 'err' in spec:
            return error.from_message(spec['err'])
        raise ValueError(spec)
    if isinstance(spec, list):
        return [dv(x) for x in spec]
    return spec


def is_raise(spec):
    return isinstance(spec, dict) and 'raise' in spec


def make_exc(kind, msg):
    _, error = _hot()
    if kind == 'XLError':
        return error.from_message(msg)          # the shared singleton
    return {'ValueError': ValueError, 'KeyError': KeyError, 'TypeError': TypeError,
            'ZeroDivisionError': ZeroDivisionError, 'RuntimeError': RuntimeError}[kind](msg)


def make_fn(spec, parser):
    k = spec[0]
    if k == 'const':
        obj = dv(spec[1])
        return lambda *a: obj
    if k == 'raisexl':
        def f(*a):
            raise make_exc('XLError', spec[1])
        return f
    if k == 'raisepy':
        def g(*a):
            raise make_exc(spec[1], spec[2])
        return g
    if k == 'args':
        return lambda *a: list(a)
    if k == 'first':
        return lambda *a: a[0] if a else None
    if k == 'evalself':
        return lambda x=None, *a: parser.parse('' if x is None else str(x))['result']
    raise ValueError(spec)


def fn_wire(spec):
    k = spec[0]
    if k == 'const':
        return '(const %s)' % fx.to_wire(dv(spec[1]))
    if k == 'raisexl':
        return '(raisexl %s)' % fx.ERR_TAGS[spec[1]]
    if k == 'raisepy':
        return '(raisepy %s)' % enc_str(str(make_exc(spec[1], spec[2])))
    if k == 'args':
        return '(args)'
    if k == 'first':
        return '(first)'
    return None


# --------------------------------------------------------------------------- a parser driven by registration ops

class CountSink(object):
    """stderr replacement: counts the tracebacks printed, keeps nothing"""
    MARK = 'Traceback (most recent call last)'

    def __init__(self):
        self.count = 0

    def write(self, s):
        self.count += s.count(self.MARK)
        return len(s)

    def flush(self):
        pass


TB_TOTAL_LIMIT = 100     # one evaluation crosses < 15 frames; nine singletons: more than this is accumulation


class Live(object):
    """a real hotxlfp.Parser plus the tables its (stateless) listeners read"""

    def __init__(self, debug=False):
        hotxlfp, _ = _hot()
        self.p = hotxlfp.Parser(debug=debug)
        self.cells = {}
        self.ranges = {}
        self.lvar = {}
        self.lfn = {}
        self.p.on('callCellValue', self._on_cell)
        self.p.on('callRangeValue', self._on_range)
        self.p.on('callVariable', self._on_var)
        self.p.on('callFunction', self._on_fn)

    def _on_cell(self, cell, setter):
        v = self.cells.get(cell.label)
        if isinstance(v, BaseException):
            raise v
        setter(v)

    def _on_range(self, start, end, setter):
        v = self.ranges.get((start.label, end.label))
        if isinstance(v, BaseException):
            raise v
        setter(v)

    def _on_var(self, name, setter):
        e = self.lvar.get(name)
        if e is not None:
            raise e

    def _on_fn(self, name, args, setter):
        e = self.lfn.get(name)
        if e is not None:
            raise e

    def apply(self, op):
        """a registration op (without the parser index): ['var', name, v] ['fn', name, spec] ['cell', label, v]
        ['range', a, b, v] ['debug', b] ['lvar', name, exc|None] ['lfn', name, exc|None]"""
        k = op[0]
        if k == 'var':
            self.p.set_variable(op[1], dv(op[2]))
        elif k == 'fn':
            self.p.set_function(op[1], make_fn(op[2], self.p))
        elif k == 'cell':
            self.cells[op[1]] = make_exc(*op[2]['raise']) if is_raise(op[2]) else dv(op[2])
        elif k == 'range':
            self.ranges[(op[1], op[2])] = make_exc(*op[3]['raise']) if is_raise(op[3]) else dv(op[3])
        elif k == 'debug':
            self.p.debug = bool(op[1])
        elif k == 'lvar':
            self.lvar[op[1]] = None if op[2] is None else make_exc(*op[2])
        elif k == 'lfn':
            self.lfn[op[1]] = None if op[2] is None else make_exc(*op[2])
        else:
            raise ValueError(op)


def strict_same(a, b):
    """== with types: 1, 1.0 and True are different results; floats with tolerance 0"""
    if a is b:
        return True
    if type(a) is not type(b):
        return False
    if isinstance(a, (list, tuple)):
        return len(a) == len(b) and all(strict_same(x, y) for x, y in zip(a, b))
    if isinstance(a, dict):
        return set(a) == set(b) and all(strict_same(a[k], b[k]) for k in a)
    if isinstance(a, float):
        return a == b or (a != a and b != b)
    return a == b


# --------------------------------------------------------------------------- standard bindings

def std_regs(model_only):
    """registration ops (without parser index) of the standard environment"""
    regs = []
    for k, v in c04.VARS.items():
        regs.append(['var', k, v])
    for tag, code in CODES.items():
        regs.append(['var', 'e_' + tag, {'err': code}])
        regs.append(['fn', 'RAISE_' + tag.upper(), ['raisexl', code]])
    regs += [['var', 'lista', [3, 1, 2]], ['var', 'listb', [[4, 2], [3, 1]]], ['var', 'txt', 'abc'],
             ['fn', 'ID', ['first']], ['fn', 'ARGS', ['args']], ['fn', 'PYRAISE', ['raisepy', 'ValueError', 'boom']],
             ['fn', 'KEYRAISE', ['raisepy', 'KeyError', 'k']], ['fn', 'NARAISE', ['raisepy', 'ValueError', '#N/A']],
             ['fn', 'HOSTLIST', ['const', [5, 4, 6]]]]
    for lab, v in c04.CELLS.items():
        regs.append(['cell', lab.upper(), v])
    regs += [['cell', 'F6', [2, 1]], ['cell', 'G7', 'text'], ['range', 'A1', 'B2', [[1, 2], [3, 4]]],
             ['range', 'A1', 'A3', [7, 8, 9]]]
    if not model_only:
        regs += [['cell', 'Z9', {'raise': ['ValueError', 'listener boom']}], ['cell', 'Y8', {'raise': ['XLError', '#NUM!']}],
                 ['range', 'Y1', 'Z2', {'raise': ['KeyError', 'range']}], ['lvar', 'badvar', ['RuntimeError', 'var listener']],
                 ['var', 'badvar', 1], ['lfn', 'BADFN', ['XLError', '#REF!']], ['fn', 'BADFN', ['const', 1]],
                 ['fn', 'EVALSELF', ['evalself']]]
    return regs


MODEL_PROBES = ['va+vb*2', 'SUM(lista)', 'A1&"x"', 'IF(va>vb,"gt","le")', 'ID(va)', 'IFERROR(RAISE_NA(),va)', 'foo', '1+',
                'ISERROR(PYRAISE())', 'SUM(A1:B2)', 'e_na+1', '{va,vb}', 'va=vb', 'ISNUMBER(A1)', 'NOSUCH(1)', 'txt',
                'lista', 'HOSTLIST()', 'F6', 'AND(va>1,vb>1)', 'NARAISE()', '#REF!']
WILD_PROBES = MODEL_PROBES + ['LARGE(lista,2)', 'TEXT(va,"0.00")', 'DATE(2020,1,15)+va', 'CONCATENATE(lista,"x",1/0)',
                              'ROUND(va/7,3)', 'UPPER(txt)&LEN(txt)', 'MATCH(2,lista,0)', 'DEC2HEX(va)', 'Z9+1', 'Y8',
                              'SUM(Y1:Z2)', 'badvar', 'BADFN()', 'EVALSELF("va+1")', 'EVALSELF("1+")', 'va.vb',
                              'MEDIAN(listb)', 'INDEX(listb,2,1)', 'SUMIF(lista,">1")', 'MAX(HOSTLIST())', 'lista*2']

VALID_MODEL = ['1+2*3', 'va-vb', '(va+1)*(vb-1)', '"a"&"b"&va', 'va<vb', 'IF(TRUE,1,2)', 'SUM(1,2,3)', 'SUM(lista,va)',
               'ISBLANK(H8)', 'ISTEXT(txt)', 'NOT(va=vb)', 'OR(FALSE,va>0)', 'IFERROR(1/0,"div")', 'IFNA(e_na,0)',
               'ISERR(e_num)', 'ERROR.TYPE(e_ref)', '-va', '--3', '2^3', '50%', '.5+.25', 'A1+b2', '$C$3*2', 'SUM(A1:A3)',
               'ID(lista)', 'ARGS(1,"a",TRUE)', '{1,2;3,4}', '{1,2,3}', 'TRUE', 'NULL', 'XOR(TRUE,FALSE)', 'ISLOGICAL(1<2)',
               'SWITCH(2,1,"a",2,"b")', 'IFS(FALSE,1,TRUE,2)', 'ISNA(#N/A)', 'N("x")', 'ISEVEN(4)', 'ISODD(va)']
VALID_WILD = ['ABS(-3)+SQRT(16)', 'ROUND(3.14159,2)', 'POWER(2,10)', 'MOD(10,3)', 'PRODUCT(lista)', 'INT(7.9)', 'CEILING(2.1,1)',
              'FLOOR(2.9,1)', 'LN(EXP(1))', 'SIN(0)+COS(0)', 'FACT(5)', 'QUOTIENT(7,2)', 'ROMAN(14)', 'ARABIC("XIV")',
              'BASE(255,16)', 'DECIMAL("FF",16)', 'AVERAGE(lista)', 'MEDIAN(lista)', 'MAX(lista)-MIN(lista)', 'COUNT(lista)',
              'COUNTA(listb)', 'STDEV(lista)', 'VAR.P(lista)', 'LARGE(lista,1)', 'MODE(1,2,2)', 'GEOMEAN(2,8)', 'COUNTIF(lista,">1")',
              'SUMIFS(lista,lista,">1")', 'MAXIFS(lista,lista,"<3")', 'AVERAGEIF(lista,">1")', 'SLOPE({1,2,3},{1,2,3})',
              'LEFT("hello",2)&RIGHT("hello",2)', 'MID("hello",2,3)', 'LEN("abc")', 'LOWER("ABC")', 'PROPER("ab cd")',
              'TRIM("  a  b ")', 'SUBSTITUTE("aaa","a","b")', 'TEXTJOIN(",",TRUE,lista)', 'CONCAT("a",1)', 'CHAR(65)&CODE("A")',
              'T(5)', 'CLEAN("ab")', 'TEXT(0.5,"0%")', 'YEAR(DATE(2020,2,29))', 'MONTH(DATE(2020,2,29))', 'DAY(DATE(2020,2,29))',
              'DAYS(DATE(2020,3,1),DATE(2020,2,1))', 'EDATE(DATE(2020,1,31),1)', 'WEEKDAY(DATE(2020,1,1))',
              'DATEDIF(DATE(2020,1,1),DATE(2021,1,1),"Y")', 'TIME(1,2,3)', 'HOUR(TIME(5,6,7))', 'DATEVALUE("2020-01-15")',
              'DEC2HEX(255)', 'HEX2DEC("FF")', 'DELTA(1,1)', 'COMPLEX(1,2)', 'IMREAL("3+4i")', 'IMAGINARY("3+4i")',
              'PV(0.05,10,-100)', 'INDEX(lista,2)', 'MATCH(3,lista,0)', 'CHOOSE(2,"a","b")', 'PI()', 'DEGREES(PI())',
              'ATAN2(1,1)', 'LOG(100,10)', 'LOG10(1000)', 'SIGN(-2)', 'EVEN(3)', 'ODD(2)', 'AVEDEV(lista)', 'HARMEAN(1,2,4)',
              'lista+listb', 'listb*2', 'lista&"x"', 'lista=lista', '-listb']
ERRONEOUS_MODEL = ['1+', '*2', '(1+2', '1+2)', 'SUM(1,2', 'SUM(1,,)', '{1,,}', '1 2', '"abc', '@', '1+@', '#FOO', '##', 'va..vb', 'va vb',
                   '()', ',', 'IF(', '1++', '1=>2', 'A1:', ':B2', 'foo', 'foo+1', 'nosuchvar*2', 'NOSUCH(1)', 'NOSUCH()+1', 'X.Y(1)',
                   '1/0', 'va/(vb-vb)', 'SUM(1/0)', 'IF()', 'NOT(1,2,3)', 'ISERROR()', 'IFERROR(1)', 'AND()', 'SUM("a",1/0)',
                   '"a"+1', '-"a"', '#N/A', '1+#REF!', '#DIV/0!', '#NULL!', '#NUM!', '#VALUE!', '#NAME?', 'e_data', 'e_error&"x"']
# builtins outside the modelled fragment (their family models do not say whether the error was RAISED or returned, which
# the number of tracebacks printed under debug distinguishes): oracle histories only
ERRONEOUS = ERRONEOUS_MODEL + ['CONCATENATE(1/0)', 'SQRT(-1)', 'ABS()', 'PI(1)', 'LEFT()', 'DATE(1)', 'LN(0)', 'LARGE(lista,9)',
                               'INDEX(lista,7)', 'MATCH(9,lista,0)', 'HEX2DEC("Z")', 'ROMAN(-1)', 'FACT(-1)', 'CHAR(0)']
RAISING_MODEL = ['PYRAISE()', 'RAISE_NUM()+1', 'ID(RAISE_NA())', 'SUM(1,PYRAISE())', '1+KEYRAISE()&"a"', 'IFERROR(PYRAISE(),1)',
                 'RAISE_DATA()', 'IF(RAISE_VALUE(),1,2)', '-RAISE_REF()', 'NARAISE()&"x"', 'ARGS(PYRAISE(),RAISE_NULL())',
                 '{PYRAISE(),1}', 'RAISE_ERROR()=1', 'ISERROR(KEYRAISE())']
RAISING_WILD = RAISING_MODEL + ['Z9', 'Z9+1', 'SUM(1,Z9)', 'Y8*2', 'IFERROR(Y8,0)', 'SUM(Y1:Z2)', 'badvar', 'badvar+va', 'BADFN()',
                                'IFERROR(BADFN(),1)', 'EVALSELF("1+")', 'EVALSELF("PYRAISE()")', 'EVALSELF("Z9")',
                                'CONCATENATE(RAISE_NUM(),Z9)', 'LARGE(Z9,1)', 'TEXT(Y8,"0")',
                                # evaluations that are aborted AFTER a reference has been read (what the host answered must not outlive them)
                                'A1+badvar', 'A1+#REF!', 'A1*2+BADFN()', 'SUM(A1:B2)+badvar', 'A1+(', 'SUM(A1:B2))', 'A1&PYRAISE()&"x"']


def generic_calls(rng, n):
    """registered builtins with 0-3 generic arguments (many answer with an error: that is the point)"""
    hotxlfp, _ = _hot()
    from hotxlfp import formulas
    names = [x for x in formulas.supported() if x not in NONDET]
    pool = ['2', '3', 'va', '"ab"', 'lista', 'listb', 'TRUE', '0', '-1', '1.5', 'e_na', '"2020-01-15"', 'A1', 'A1:B2', '']
    out = []
    for _ in range(n):
        nm = rng.choice(names)
        k = rng.randrange(0, 4)
        args = [rng.choice(pool) for _ in range(k)]
        # runs of empty slots are grammar errors; that is fine here (erroneous formulas are wanted too)
        out.append('%s(%s)' % (nm, ','.join(args)))
    return out


def tree_formulas(rng, n, depth):
    out = []
    for _ in range(n):
        if rng.random() < 0.5:
            out.append(c04.render_spec(c04.gen_top(rng, rng.randrange(1, depth + 1)), rng.random() < 0.3))
        else:
            body = c08.render(c08.gen(rng, rng.randrange(1, depth + 1), rng.choice([0.15, 0.3, 0.6])))
            out.append(rng.choice(c08.WRAPS) % body)
    return out


REREG_MODEL = [['var', 'va', 54], ['var', 'va', 53], ['var', 'vb', -2], ['var', 'vb', 59], ['var', 'foo', 11], ['var', 'foo', 'now text'],
               ['var', 'lista', [9, 8]], ['var', 'lista', [3, 1, 2]], ['var', 'txt', 'xyz'], ['var', 'txt', 5], ['var', 'e_na', 0],
               ['var', 'e_na', {'err': '#N/A'}], ['var', 'TRUE', 0], ['var', 'TRUE', True],
               ['fn', 'ID', ['const', 42]], ['fn', 'ID', ['first']], ['fn', 'PYRAISE', ['const', 'calm']],
               ['fn', 'PYRAISE', ['raisepy', 'ValueError', 'boom']], ['fn', 'SUM', ['const', -1]], ['fn', 'SUM', ['args']],
               ['fn', 'NOSUCH', ['const', 'exists now']], ['fn', 'NOSUCH', ['raisexl', '#NULL!']], ['fn', 'RAISE_NA', ['raisexl', '#NUM!']],
               ['fn', 'RAISE_NA', ['raisexl', '#N/A']], ['fn', 'HOSTLIST', ['const', [1]]], ['fn', 'HOSTLIST', ['const', [5, 4, 6]]],
               ['cell', 'A1', 100], ['cell', 'A1', 71], ['cell', 'A1', 'txt'], ['cell', 'F6', [0, 0, 7]], ['cell', 'F6', [2, 1]],
               ['cell', 'H8', 1], ['cell', 'H8', None], ['range', 'A1', 'B2', [[9, 9], [9, 9]]], ['range', 'A1', 'B2', [[1, 2], [3, 4]]],
               ['range', 'A1', 'A3', [1]], ['debug', True], ['debug', False]]
REREG_WILD = REREG_MODEL + [['cell', 'Z9', 5], ['cell', 'Z9', {'raise': ['ValueError', 'listener boom']}], ['cell', 'A1', {'raise': ['KeyError', 'a1']}],
                            ['cell', 'A1', 71], ['cell', 'A1', 5], ['cell', 'A1', 'edited'], ['cell', 'A1', 71],
                            ['lvar', 'va', ['ValueError', 'va listener']], ['lvar', 'va', None],
                            ['lfn', 'SUM', ['XLError', '#N/A']], ['lfn', 'SUM', None], ['lfn', 'ID', ['KeyError', 'id']], ['lfn', 'ID', None],
                            ['range', 'A1', 'B2', {'raise': ['XLError', '#NULL!']}], ['fn', 'EVALSELF', ['const', 0]],
                            ['fn', 'EVALSELF', ['evalself']]]


def gen_history(rng, length, model_only, depth):
    """-> list of blocks; a block is a list of operations after which the probe set is evaluated"""
    nparsers = rng.randrange(1, 4)
    blocks = []
    regs = std_regs(model_only)
    n0 = rng.randrange(1, nparsers + 1)
    setup = []
    for i in range(n0):
        setup.append(['new', rng.random() < 0.25])
        for r in regs:
            setup.append([r[0], i] + r[1:])
    blocks.append(setup)
    built = n0
    valid = VALID_MODEL if model_only else VALID_MODEL + VALID_WILD
    raising = RAISING_MODEL if model_only else RAISING_WILD
    rereg = REREG_MODEL if model_only else REREG_WILD
    pool_tree = tree_formulas(rng, max(4, length // 3), depth)
    pool_generic = [] if model_only else generic_calls(rng, max(4, length // 3))
    steps = 0
    while steps < length:
        pid = rng.randrange(built)
        r = rng.random()
        steps += 1
        if r < 0.18:
            f = rng.choice(valid)
        elif r < 0.30:
            f = rng.choice(pool_tree)
        elif r < 0.38 and pool_generic:
            f = rng.choice(pool_generic)
        elif r < 0.60:
            f = rng.choice(ERRONEOUS_MODEL if model_only else ERRONEOUS)
            # truncate a valid formula somewhere.  Not in model-compared histories: ply runs the semantic actions
            # of the prefix before it meets the syntax error (`(va+1)*(v` -> call_variable('v') raises #NAME?),
            # the model (Eval.parseTop) parses the whole text first and reports #ERROR!
            if not model_only and rng.random() < 0.15:
                g = rng.choice(valid)
                f = g[:rng.randrange(1, len(g))] if len(g) > 1 else g
        elif r < 0.76:
            f = rng.choice(raising)
        elif r < 0.95:
            g = rng.choice(rereg)
            blocks.append([[g[0], pid] + g[1:]])
            continue
        elif r < 0.97 and not model_only:
            blocks.append([['foreignlex']])
            continue
        else:
            if built < nparsers:
                blk = [['new', rng.random() < 0.25]]
                for rr in regs:
                    blk.append([rr[0], built] + rr[1:])
                built += 1
                blocks.append(blk)
            else:
                blocks.append([['parse', pid, '']])
            continue
        if not model_only and f.startswith('A1') and rng.random() < 0.7:
            # an evaluation aborted after it has read A1, and the host's edit of A1, with no complete evaluation between them
            blocks.append([['parse', pid, f], ['cell', pid, 'A1', rng.choice([5, 'edited', 71, 6, 0])]])
        else:
            blocks.append([['parse', pid, f]])
    return blocks


# --------------------------------------------------------------------------- cases

MEMORY_FORMULAS = ['1+2', 'va*vb+A1', 'SUM(lista)', 'foo', '1+', '#N/A', '1/0', 'CONCATENATE(1/0)', 'SUM(1/0)', 'IFERROR(SUM(#REF!),1)',
                   'NOSUCH(1)', 'SUM(1,2,3', '@', 'PYRAISE()', 'RAISE_NUM()', 'RAISE_NUM()+1', 'KEYRAISE()&"a"', 'Z9', 'Y8+1',
                   'SUM(Y1:Z2)', 'badvar', 'BADFN()', '"abc"&1', 'DATE(2020,1,2)+3', 'LARGE(lista,2)', '{1,2;3,4}*2',
                   'IF(1<2,"a","b")', 'TEXT(1.5,"0.00")', 'EVALSELF("1+")', 'EVALSELF("RAISE_NA()")', 'va.vb', 'CONCATENATE(e_na,Y8)',
                   'IFERROR(Z9,RAISE_REF())', '', 'SUMIF(lista,">1")', 'lista+listb']
MEMORY_QUICK = ['1+2', 'foo', '1+', '#N/A', 'CONCATENATE(1/0)', 'SUM(1/0)', 'IFERROR(SUM(#REF!),1)', 'PYRAISE()', 'RAISE_NUM()+1',
                'Z9', 'Y8+1', 'BADFN()', 'SUM(1,2,3', '@', 'va.vb', 'LARGE(lista,2)', 'EVALSELF("1+")', 'va*vb+A1']
DISTINCT_TEMPLATES = ['%d+1', 'foo%d', 'COUNTIF(lista,">%d")', '"s%d"&va', 'SUM(%d,1/0)', 'SUMIF(lista,"<>%d")', 'MATCH("a%d*",lista,0)',
                      'NOSUCH%d(1)', '%d+', 'va+%d', 'AVERAGEIF(lista,"<="&%d)', 'DATEVALUE("2020-01-%d")', 'A%d+1']


# --------------------------------------------------------------------------- (e) order: pristine processes

_pristine = [None]


def pristine(job):
    """the records of job['probe'] after job['first'], evaluated in a process that has seen nothing else (harness/pristine.py)"""
    import subprocess
    if _pristine[0] is None or _pristine[0].poll() is not None:
        pr = subprocess.Popen([sys.executable, '-m', 'harness.pristine'], cwd=common.VERIF, env=dict(os.environ),
                              stdin=subprocess.PIPE, stdout=subprocess.PIPE, stderr=subprocess.DEVNULL)
        ready = pr.stdout.readline()
        if not ready.startswith(b'READY'):
            raise RuntimeError('the pristine-process server did not start: %r' % ready)
        _pristine[0] = pr
    pr = _pristine[0]
    pr.stdin.write((json.dumps(job) + '\n').encode('utf-8'))
    pr.stdin.flush()
    ans = json.loads(pr.stdout.readline().decode('utf-8'))
    if 'crash' in ans:
        raise RuntimeError('pristine evaluation crashed: %s' % ans['crash'])
    return ans['records']


ORDER_NUMS = ['1000', '1999', '48', '3', '0.5', '-2', '12', '3888', '255', '16', '7.25', '100', '0', '1', '2']
ORDER_TEXTS = ['"abc"', '"Hello World"', '"2020-01-15"', '"a,b"', '"12"', '""', '"x"', '"2021-03-01"', '"FF"', '"MCMXCIX"', '"M"', '"3+4i"']


ORDER_ERRS = ['1/0', 'NA()', '"a"+1', 'SQRT(-1)', 'INDEX({1,2},5)', 'nosuch', '{1,2,3}', '{1;2}', '{"a","b"}', 'TRUE', '1=2', 'DATE(2020,1,15)']


def order_batches(rng, n_batches):
    """-> cases: every registered (deterministic) function called on one argument list (`first`) and then on another (`probe`)"""
    hotxlfp, _ = _hot()
    from hotxlfp import formulas
    names = [x for x in formulas.supported() if x not in NONDET]
    out = []
    for _ in range(n_batches):
        first, probe = [], []
        r0 = rng.random()
        # a batch on numbers, on texts, or (a fifth of them) on error values and arrays - what one function made, handed to another
        pool = ORDER_TEXTS if r0 < 0.3 else (ORDER_ERRS if r0 < 0.5 else ORDER_NUMS)
        k = rng.choice([1, 1, 2, 2, 3])
        for nm in names:
            a = [rng.choice(pool)] + [rng.choice(ORDER_NUMS + ORDER_TEXTS[:3]) for _ in range(k - 1)]
            b = [rng.choice(pool)] + a[1:]
            if rng.random() < 0.3:
                b[1:] = [rng.choice(ORDER_NUMS) for _ in b[1:]]
            first.append('%s(%s)' % (nm, ','.join(a)))
            probe.append('%s(%s)' % (nm, ','.join(b)))
        out.append({'kind': 'order', 'first': first, 'probe': probe})
    return out


def run_order(c):
    alone = pristine({'first': [], 'probe': c['probe']})
    after = pristine({'first': c['first'], 'probe': c['probe']})
    findings = []
    for f1, f, r0, r1 in zip(c['first'], c['probe'], alone, after):
        if r0 != r1:
            # the smallest history: the formula's own predecessor alone
            a2 = pristine({'first': [], 'probe': [f]})[0]
            b2 = pristine({'first': [f1], 'probe': [f]})[0]
            if a2 != b2:
                findings.append('in a process that has evaluated nothing, %r gives %s; in a process that has evaluated %r before, it gives %s' % (
                    f, show_wire(a2), f1, show_wire(b2)))
            else:
                findings.append('in a process that has evaluated nothing but the %d formulas before it, %r gives %s; alone in a fresh process '
                                'it gives %s (history: %r ...)' % (len(c['first']), f, show_wire(r1), show_wire(r0), c['first'][:3]))
            if len(findings) >= 3:
                break
    return {'findings': findings, 'n': len(c['probe']), 'values': sum(1 for r in alone if r[2] is None)}


def show_wire(r):
    return '{result: %s (%s), error: %s}' % (r[1], r[0], r[2])


def cases(rng, ctx):
    thorough = ctx['tier'] == 'thorough'
    scale = ctx['scale']
    out = []
    # (e) order (first: the pristine server starts before this process has evaluated much)
    out += order_batches(rng, (400 if thorough else 40) * scale)
    out.append({'kind': 'order', 'first': ['ROMAN(1000)', 'ROMAN(3000,2)', 'SUM(1,2)', 'UPPER("a")', 'DATE(2020,1,2)'],
                'probe': ['ROMAN(1999)', 'ROMAN(3888,2)', 'SUM(1,2,3)', 'UPPER("b")', 'DATE(2021,3,4)']})
    # (a) histories
    n_model, n_wild = (60, 140) if thorough else (5 * scale, 7 * scale)
    for i in range(n_model + n_wild):
        model_only = i < n_model
        if thorough:
            length = rng.choice([40, 80, 150, 300]) if i % 4 else 300
        else:
            length = rng.choice([15, 25, 40])
        r = _random.Random(rng.randrange(1 << 30))
        blocks = gen_history(r, length, model_only, 5 if thorough else 4)
        probes = MODEL_PROBES if model_only else WILD_PROBES
        if length > 100:        # keep the cost of a long history linear: a seeded half of the probe set
            probes = sorted(r.sample(probes, len(probes) // 2))
        out.append({'kind': 'history', 'model': model_only, 'blocks': blocks, 'probes': probes})
    # a fixed history: an evaluation aborted after it has read A1, the host edits A1, the same reference is evaluated again
    setup = [['new', False]] + [[r[0], 0] + r[1:] for r in std_regs(False)]
    out.append({'kind': 'history', 'model': False, 'probes': ['A1&"x"', 'A1+1', 'SUM(A1:B2)'],
                # (abort and edit in ONE block: no evaluation runs to its end between them)
                'blocks': [setup, [['parse', 0, 'A1+badvar'], ['cell', 0, 'A1', 5]], [['parse', 0, 'A1+#REF!'], ['cell', 0, 'A1', 'edited']],
                           [['parse', 0, 'A1*2+BADFN()'], ['cell', 0, 'A1', 71]], [['parse', 0, 'A1+('], ['cell', 0, 'A1', 6]]]})
    # (b) debug
    forms = VALID_MODEL + VALID_WILD + ERRONEOUS + RAISING_WILD + WILD_PROBES
    if not thorough:
        forms = sorted(rng.sample(forms, 120))
    out.append({'kind': 'debug', 'formulas': forms})
    out.append({'kind': 'inert', 'formulas': sorted(rng.sample(VALID_MODEL + VALID_WILD, 40))})
    out.append({'kind': 'transient', 'formulas': sorted(rng.sample(VALID_MODEL + VALID_WILD, 25))})
    out.append({'kind': 'debug', 'formulas': tree_formulas(rng, 300 if thorough else 60, 5) + generic_calls(rng, 600 if thorough else 80)})
    # (c) host values
    common.load_repo()
    from hotxlfp import formulas
    names = [x for x in formulas.supported() if x not in NONDET]
    for nm in names:
        out.append({'kind': 'immut-fn', 'fn': nm})
    out.append({'kind': 'immut-ops'})
    # (d) memory
    for f in (MEMORY_FORMULAS if thorough else MEMORY_QUICK):
        out.append({'kind': 'memory', 'f': f, 'debug': False})
    for f in (['foo', 'PYRAISE()', 'Z9', '1+'] if thorough else ['foo', 'PYRAISE()']):
        out.append({'kind': 'memory', 'f': f, 'debug': True})
    for t in (DISTINCT_TEMPLATES if thorough else DISTINCT_TEMPLATES[:6]):
        out.append({'kind': 'memory-distinct', 'template': t})
    return out


# --------------------------------------------------------------------------- (a) histories

def expand(c):
    """the operations as the model sees them: every block followed by every probe on every parser built so
    far; -> list of (op, is_probe)"""
    res = []
    built = 0
    for blk in c['blocks']:
        for op in blk:
            res.append((op, False))
            if op[0] == 'new':
                built += 1
        for q in range(built):
            for f in c['probes']:
                res.append((['parse', q, f], True))
    return res


def op_wire(op):
    k = op[0]
    if k == 'new':
        return '(new %d)' % (1 if op[1] else 0)
    if k == 'parse':
        return '(parse %d %s)' % (op[1], enc_str(op[2]))
    if k == 'var':
        return '(var %d %s %s)' % (op[1], enc_str(op[2]), fx.to_wire(dv(op[3])))
    if k == 'fn':
        w = fn_wire(op[3])
        return None if w is None else '(fn %d %s %s)' % (op[1], enc_str(op[2]), w)
    if k == 'cell':
        if is_raise(op[3]):
            return None
        return '(cell %d %s %s)' % (op[1], enc_str(op[2]), fx.to_wire(dv(op[3])))
    if k == 'range':
        if is_raise(op[4]):
            return None
        return '(range %d %s %s %s)' % (op[1], enc_str(op[2]), enc_str(op[3]), fx.to_wire(dv(op[4])))
    if k == 'debug':
        return '(debug %d %d)' % (op[1], 1 if op[2] else 0)
    return None


def request(c):
    if c['kind'] != 'history' or not c.get('model'):
        return None
    ws = [op_wire(op) for op, _ in expand(c)]
    if any(w is None for w in ws):
        return None
    return 'session.run ' + ' '.join(ws)


def fresh_record(regs, f):
    """the record of `f` on a parser built now and given the registrations `regs`"""
    lv = Live()
    for r in regs:
        lv.apply(r)
    with contextlib.redirect_stderr(io.StringIO()):
        return lv.p.parse(f)


class HostTokens(object):
    tokens = ('WORD', 'INT')
    t_WORD = r'[a-z]+'
    t_INT = r'[0-9]+'
    t_ignore = ' '

    def t_error(self, t):
        t.lexer.skip(1)


def foreign_lexer():
    import ply.lex
    lx = ply.lex.lex(object=HostTokens(), errorlog=ply.lex.NullLogger())
    lx.input('host text 42')
    return [t.value for t in lx]


def run_history(c):
    lives = []
    regs = []            # per parser: registration ops so far (without index)
    version = []         # per parser: number of registrations
    cache = {}
    records = []         # one per expanded op: record | None
    findings = []
    err = CountSink()
    sing = singletons()
    stats = {'parses': 0, 'probe_cmp': 0, 'failed': 0, 'rereg': 0, 'raising': 0}
    glex = [None]
    import ply.lex

    def do(op):
        k = op[0]
        if k == 'new':
            lives.append(Live(debug=bool(op[1])))
            regs.append([['debug', bool(op[1])]])
            version.append(0)
            records.append(None)
            # `ply.lex.lexer` right after the constructor (the fresh parsers of the probe sweep rebind it too)
            glex[0] = next((i for i, lv in enumerate(lives) if ply.lex.lexer is lv.p.parser.lex), None)
        elif k == 'foreignlex':
            # the host program (or another library) builds a PLY lexer of its own: `ply.lex.lexer`, the module-level
            # "most recent lexer", now is that one
            foreign_lexer()
            records.append(None)
        elif k == 'parse':
            if op[1] >= len(lives):
                records.append(None)
                return
            with contextlib.redirect_stderr(err):
                rec = lives[op[1]].p.parse(op[2])
            records.append(rec)
            stats['parses'] += 1
            if rec['error'] is not None:
                stats['failed'] += 1
            if any(t in op[2] for t in ('RAISE', 'Z9', 'Y8', 'Y1', 'BAD', 'bad')):
                stats['raising'] += 1
        else:
            pid = op[1]
            if pid < len(lives):
                r = [k] + op[2:]
                with contextlib.redirect_stderr(err):
                    lives[pid].apply(r)
                regs[pid].append(r)
                version[pid] += 1
                stats['rereg'] += 1
            records.append(None)

    for idx, blk in enumerate(c['blocks']):
        for op in blk:
            do(op)
        # the probe set on every long-lived parser, against a fresh parser with the same registrations
        for q, lv in enumerate(lives):
            for f in c['probes']:
                with contextlib.redirect_stderr(err):
                    got = lv.p.parse(f)
                records.append(got)
                stats['parses'] += 1
                key = (q, version[q], f)
                if key not in cache:
                    cache[key] = fresh_record(regs[q], f)
                exp = cache[key]
                stats['probe_cmp'] += 1
                if not strict_same(got, exp):
                    findings.append('after block #%d %r: %r on long-lived parser %d gives %r, on a fresh parser with the same '
                                    'bindings %r' % (idx, blk if len(blk) < 4 else blk[:1] + ['...'], f, q, got, exp))
                    if len(findings) >= 5:
                        break
            if len(findings) >= 5:
                break
        if len(findings) >= 5:
            break
        tbs = [tb_len(e) for e in sing]
        if sum(tbs) > TB_TOTAL_LIMIT:
            # no point in going on (and, under debug, every printed traceback would be as long as the chain)
            findings.append('[memory] after block #%d (%d evaluations so far) the traceback chains of the error singletons hold %r '
                            'entries: frames of finished evaluations are retained' % (idx, stats['parses'], tbs))
            break
    hidden = {'tb': [tb_len(e) for e in sing],
              'stderr': err.count,
              'glex': glex[0],
              'parsers': []}
    for lv in lives:
        y = lv.p.parser.yacc
        tok = getattr(y, 'token', None)
        clone = getattr(tok, '__self__', None)
        hidden['parsers'].append({'errorok': bool(y.errorok), 'stack': len(getattr(y, 'statestack', [])),
                                  'clone': None if clone is None else clone.lexdata,
                                  'proto': lv.p.parser.lex.lexdata})
    return {'records': records, 'findings': findings, 'hidden': hidden, 'stats': stats}


def agree_history(c, ans, model_ans):
    m = fx.parse_sexp(model_ans)
    if not (isinstance(m, list) and len(m) == 2 and m[0][0] == 'outs' and m[1][0] == 'hidden'):
        return False
    outs = m[0][1:]
    recs = ans['records']
    if ans['findings']:
        return True          # the run was cut short by the oracle: nothing to align
    if len(outs) != len(recs):
        return False
    no_opinion = False
    for o, r in zip(outs, recs):
        if r is None:
            if isinstance(o, list) and o and o[0] == 'rec':
                return False
            continue
        mres = fx.record_matches(o, r, rel=1e-9)
        if mres is False:
            return False
        if mres is None:
            # e.g. text of a float under `&`: the model stops evaluating there, so it does not know either which
            # exceptions the rest of the formula raised (number of tracebacks printed, stack residue)
            no_opinion = True
    h = {x[0]: x[1:] for x in m[1][1:] if isinstance(x, list) and x[0] != 'p'}
    ps = [x for x in m[1][1:] if isinstance(x, list) and x[0] == 'p']
    real = ans['hidden']
    if [int(x) for x in h['tb']] != real['tb']:
        return False
    if not no_opinion and int(h['stderr'][0]) != real['stderr']:
        return False
    if (None if h['glex'][0] == 'none' else int(h['glex'][0])) != real['glex']:
        return False
    if len(ps) != len(real['parsers']):
        return False
    for mp, rp in zip(ps, real['parsers']):
        if (mp[1] == '1') != rp['errorok']:
            return False
        if not no_opinion and rp['stack'] > int(mp[2]):
            return False
        if (None if mp[3] == 'none' else common.dec_str(mp[3])) != rp['clone']:
            return False
        if rp['proto'] is not None:         # the prototype lexer is never fed input
            return False
    return True


# --------------------------------------------------------------------------- (b) debug

class NoRepr(object):
    """a host value that cannot be printed (a detached record, a proxy): evaluation has no business printing it"""

    def __repr__(self):
        raise RuntimeError('repr() of a host value during evaluation')

    __str__ = __repr__


def _deep_list(n=5000):
    v = [1]
    for _ in range(n):
        v = [v]
    return v


# host values that evaluation may pass around but must not print, shared by the three parsers of a triple
UNPRINTABLE = {'unrepr': NoRepr(), 'deepl': _deep_list()}
UNPRINTABLE_FORMULAS = ['TAKES(unrepr)', 'IF(TRUE,unrepr,0)', 'TAKES(H9)', 'TAKES(unrepr,1)+1', 'IF(TRUE,deepl,0)',
                        'TAKES(deepl)', 'TAKES(H9:H10)', 'IF(FALSE,1,H9)', 'TAKES(GIVES())', 'IF(1,GIVES(),2)']


def safe_repr(rec):
    try:
        return repr(rec)[:300]
    except Exception:
        if isinstance(rec, dict):
            return '{' + ', '.join('%r: %s' % (k, safe_repr(v)) for k, v in sorted(rec.items())) + '}'
        return '<unprintable %s>' % type(rec).__name__


INERT_FORMULAS = ['TRUE()', 'IF(FALSE(),1,2)', 'PI()*0+1', 'SUM(1,2)+TRUE()', 'HOSTLIST()', 'ARGS()', 'ARGS(1,va)', 'A1+va',
                  'SUM(A1:B2)', 'ID(lista)', 'AND(TRUE(),1)', 'NOT(FALSE())']


def run_inert(c):
    """listeners that set nothing and raise nothing are no bindings: with them, without them, on a parser created later -
    every outcome is the same.  The listeners here keep a journal by editing, in place, the argument list THEY were handed
    (callFunction) - as far as a host can tell that list is its own copy."""
    regs = std_regs(False)
    forms = list(c['formulas']) + INERT_FORMULAS

    def fresh():
        lv = Live()
        for r in regs:
            lv.apply(r)
        return lv
    journal = []
    base = fresh()
    err = io.StringIO()
    with contextlib.redirect_stderr(err):
        r0 = [base.p.parse(f) for f in forms]
        with_j = fresh()
        with_j.p.on('callFunction', lambda name, args, setter: (journal.append(name), args.insert(0, name), args.append(len(journal))))
        with_j.p.on('callVariable', lambda name, setter: journal.append(name))
        r1 = [with_j.p.parse(f) for f in forms]
        r2 = [with_j.p.parse(f) for f in forms]
        r3 = [base.p.parse(f) for f in forms]
        later = fresh()
        r4 = [later.p.parse(f) for f in forms]
    findings = []
    for i, f in enumerate(forms):
        for tag, rs in (('with a journal listener', r1), ('with a journal listener, second time', r2),
                        ('on the first parser again, after the journal ran elsewhere', r3), ('on a parser created afterwards', r4)):
            if not strict_same(r0[i], rs[i]):
                findings.append('%r: without any listener %s, %s %s' % (f, safe_repr(r0[i]), tag, safe_repr(rs[i])))
                break
    return {'findings': findings[:5], 'printed': {'off': 0, 'on': 1, 'toggle': 0}, 'n': len(forms)}


def run_transient(c):
    """what a listener hands over is the value of THAT evaluation: once the listener has no opinion any more (it sets nothing,
    or was removed with off()), the outcome is what a fresh parser with the same registrations gives - the earlier answer has
    not become a registration"""
    regs = std_regs(False)
    findings = []

    def build(answering):
        lv = Live()
        for r in regs:
            lv.apply(r)
        lv.p.set_variable('rate', 2)
        state = {'on': answering}

        def on_var(name, setter):
            if state['on'] and name in ('bonus', 'rate'):
                setter({'bonus': 7, 'rate': 5}[name])

        def on_cell(cell, setter):
            if state['on'] and cell.label == 'Q7':
                setter(40)

        def on_fn(name, args, setter):
            if state['on'] and name == 'SUM':
                setter(1000)
        lv.p.on('callVariable', on_var)
        lv.p.on('callCellValue', on_cell)
        lv.p.on('callFunction', on_fn)
        return lv, state, (on_var, on_cell, on_fn)
    forms = ['bonus+1', 'rate*10', 'Q7+1', 'SUM(1,2)', 'ISBLANK(Q7)', 'rate&"x"', 'bonus'] + list(c['formulas'])
    err = io.StringIO()
    with contextlib.redirect_stderr(err):
        ref, _, _ = build(False)                      # never answers
        want_off = [ref.p.parse(f) for f in forms]
        lv, state, hs = build(True)
        got_on = [lv.p.parse(f) for f in forms]       # answers
        state['on'] = False
        got_off = [lv.p.parse(f) for f in forms]      # has no opinion any more
        lv2, state2, hs2 = build(True)
        [lv2.p.parse(f) for f in forms]
        lv2.p.off('callVariable', hs2[0])
        lv2.p.off('callCellValue', hs2[1])
        lv2.p.off('callFunction', hs2[2])
        got_removed = [lv2.p.parse(f) for f in forms]
        regs_after = (lv.p.variables.get('rate'), 'bonus' in lv.p.variables)
    answered = sum(1 for a, b in zip(got_on, want_off) if not strict_same(a, b))
    for i, f in enumerate(forms):
        for tag, rs in (('after the listeners stopped answering', got_off), ('after the listeners were removed', got_removed)):
            if not strict_same(rs[i], want_off[i]):
                findings.append('%r %s gives %s; a parser whose listeners never answered gives %s (while they answered: %s)' % (
                    f, tag, safe_repr(rs[i]), safe_repr(want_off[i]), safe_repr(got_on[i])))
                break
    if regs_after != (2, False):
        findings.append('evaluations changed the registered variables: rate is %r (registered: 2), bonus registered: %r' % regs_after)
    return {'findings': findings[:5], 'printed': {'off': 0, 'on': answered, 'toggle': 0}, 'n': len(forms)}


def run_debug(c):
    regs = std_regs(False)
    trio = []
    for mode in ('off', 'on', 'toggle'):
        lv = Live(debug=(mode == 'on'))
        for r in regs:
            lv.apply(r)
        for k, v in UNPRINTABLE.items():
            lv.p.set_variable(k, v)
        lv.p.set_function('TAKES', lambda *a: len(a))
        lv.p.set_function('GIVES', lambda: UNPRINTABLE['unrepr'])
        lv.cells['H9'] = UNPRINTABLE['unrepr']
        lv.ranges[('H9', 'H10')] = [[UNPRINTABLE['unrepr']], [UNPRINTABLE['deepl']]]
        trio.append(lv)
    findings = []
    printed = {'off': 0, 'on': 0, 'toggle': 0}
    for i, f in enumerate(list(c['formulas']) + UNPRINTABLE_FORMULAS):
        recs = []
        for mode, lv in zip(('off', 'on', 'toggle'), trio):
            if mode == 'toggle':
                lv.p.debug = (i % 2 == 0)
            buf = io.StringIO()
            with contextlib.redirect_stderr(buf):
                recs.append(lv.p.parse(f))
            printed[mode] += buf.getvalue().count('Traceback (most recent call last)')
        if not (strict_same(recs[0], recs[1]) and strict_same(recs[0], recs[2])):
            findings.append('%r: debug off %s, debug on %s, debug toggled %s' % ((f,) + tuple(safe_repr(r) for r in recs)))
    return {'findings': findings[:5], 'printed': printed, 'n': len(c['formulas'])}


# --------------------------------------------------------------------------- (c) host values

class Box(object):
    """an arbitrary host object carrying a list"""

    def __init__(self, items):
        self.items = items

    def __eq__(self, other):
        return isinstance(other, Box) and self.items == other.items

    def __hash__(self):
        return 7


def snap(v, depth=0):
    """structure with the identity and length of every nested container"""
    if depth > 20:
        return ('deep',)
    if isinstance(v, list):
        return ('list', id(v), len(v), tuple(snap(x, depth + 1) for x in v))
    if isinstance(v, tuple):
        return ('tuple', id(v), len(v), tuple(snap(x, depth + 1) for x in v))
    if isinstance(v, dict):
        return ('dict', id(v), len(v), tuple((repr(k), snap(x, depth + 1)) for k, x in v.items()))
    if isinstance(v, Box):
        return ('box', id(v), snap(v.items, depth + 1))
    if isinstance(v, float) and v != v:
        return ('nan',)
    return ('val', type(v).__name__, v if isinstance(v, (int, float, str, bool, type(None))) else id(v))


def host_values():
    """name -> fresh host object"""
    return {'lsa': [3, 1, 2], 'lsb': [9, 7, 8, 7], 'lsc': [2, 2, 1], 'nest': [[4, 2], [3, 1]], 'nestb': [[6, 5], [8, 7]],
            'mixed': ['b', 'a', None, True, 2.5, '10'], 'deep': [1, [2, [3, [0]]], -1], 'texts': ['pear', 'apple', 'fig'],
            'dct': {'k': [2, 1], 'j': 5}, 'box': Box([2, 1, 3]), 'tup': (3, 1, [2, 0]), 'empty': [], 'one': [5],
            'trail': [3, 7, 9, None, None]}          # a column with blank cells at its end


ARGSETS = {1: [('lsa',), ('nest',), ('mixed',), ('deep',), ('texts',), ('dct',), ('box',), ('tup',), ('empty',), ('one',), ('trail',)],
           2: [('lsa', 'lsb'), ('nest', 'lsa'), ('lsa', '2'), ('2', 'lsa'), ('mixed', '1'), ('"a"', 'texts'), ('lsa', 'lsa'),
               ('nest', 'nestb'), ('lsb', '">7"'), ('texts', '"a*"'), ('deep', '2'), ('lsa', '"1"'), ('tup', '1'), ('one', 'one'),
               ('7', 'trail'), ('trail', '7'), ('trail', 'lsa')],
           3: [('lsa', 'lsb', 'lsc'), ('lsa', '2', '1'), ('2', 'lsa', '1'), ('1', '2', 'lsa'), ('nest', '1', '1'), ('nest', '2', '2'),
               ('mixed', '"a"', 'lsa'), ('lsa', '">1"', 'lsc'), ('lsc', 'lsa', '">1"'), ('","', 'TRUE', 'texts'), ('lsa', 'lsa', 'lsa'),
               ('TRUE', 'lsa', 'nest'), ('nest', 'nestb', 'lsa'), ('7', 'trail', '0'), ('7', 'trail', '1'), ('8', 'trail', '-1'),
               ('trail', '1', '1'), ('trail', '">3"', 'trail')]}
PATHS = ['var', 'cell', 'range', 'fn']
PATH_TEXT = {'lsa': {'cell': 'C1', 'range': 'C1:C3', 'fn': 'H_LSA()'}, 'lsb': {'cell': 'D1', 'range': 'D1:D4', 'fn': 'H_LSB()'},
             'lsc': {'cell': 'E1', 'range': 'E1:E3', 'fn': 'H_LSC()'}, 'nest': {'cell': 'C5', 'range': 'C5:D6', 'fn': 'H_NEST()'},
             'nestb': {'cell': 'E5', 'range': 'E5:F6', 'fn': 'H_NESTB()'}, 'mixed': {'cell': 'G1', 'range': 'G1:G6', 'fn': 'H_MIXED()'},
             'deep': {'cell': 'H1', 'range': 'H1:H3', 'fn': 'H_DEEP()'}, 'texts': {'cell': 'I1', 'range': 'I1:I3', 'fn': 'H_TEXTS()'},
             'dct': {'cell': 'J1', 'range': 'J1:J2', 'fn': 'H_DCT()'}, 'box': {'cell': 'K1', 'range': 'K1:K2', 'fn': 'H_BOX()'},
             'tup': {'cell': 'L1', 'range': 'L1:L3', 'fn': 'H_TUP()'}, 'empty': {'cell': 'M1', 'range': 'M1:M2', 'fn': 'H_EMPTY()'},
             'one': {'cell': 'N1', 'range': 'N1:N2', 'fn': 'H_ONE()'}, 'trail': {'cell': 'O1', 'range': 'O1:O5', 'fn': 'H_TRAIL()'}}


class HostEnv(object):
    """a parser whose variables, cells, ranges and host functions all deliver the SAME host objects"""

    def __init__(self):
        hotxlfp, _ = _hot()
        self.p = hotxlfp.Parser()
        self.vals = host_values()
        self.before = copy.deepcopy(self.vals)
        self.snap0 = {k: snap(v) for k, v in self.vals.items()}
        self.received = []
        cells = {}
        ranges = {}
        for k, v in self.vals.items():
            self.p.set_variable(k, v)
            cells[PATH_TEXT[k]['cell']] = v
            a, b = PATH_TEXT[k]['range'].split(':')
            ranges[(a, b)] = v
            self.p.set_function(PATH_TEXT[k]['fn'][:-2], (lambda vv: (lambda *a: vv))(v))
        self.p.on('callCellValue', lambda cell, setter: setter(cells.get(cell.label)))
        self.p.on('callRangeValue', lambda s, e, setter: setter(ranges.get((s.label, e.label))))
        self.p.set_function('KEEP', self._keep)

    def _keep(self, *args):
        # a host function looks at its arguments (they may be host objects or lists built by the grammar) and
        # hands the first one on
        self.received.append([snap(a) for a in args])
        return args[0] if args else None

    def changed(self):
        out = []
        for k, v in self.vals.items():
            if snap(v) != self.snap0[k] or not (v == self.before[k]):
                out.append((k, self.before[k], copy.deepcopy(v)))
        return out

    def restore(self):
        """undo a detected mutation so that the following checks start clean"""
        for k, v in self.vals.items():
            b = self.before[k]
            if isinstance(v, list):
                v[:] = copy.deepcopy(b)
            elif isinstance(v, dict):
                v.clear()
                v.update(copy.deepcopy(b))
            elif isinstance(v, Box):
                v.items = copy.deepcopy(b.items)
        self.snap0 = {k: snap(v) for k, v in self.vals.items()}


def arg_text(a, path):
    if a in PATH_TEXT:
        return a if path == 'var' else PATH_TEXT[a][path]
    return a


def immut_formulas_fn(nm):
    out = []
    for k in (1, 2, 3):
        for j, args in enumerate(ARGSETS[k]):
            out.append('%s(%s)' % (nm, ','.join(arg_text(a, 'var') for a in args)))
            path = PATHS[1 + (j + k) % 3]
            out.append('%s(%s)' % (nm, ','.join(arg_text(a, path) for a in args)))
            if j % 3 == 0:
                out.append('%s(%s)' % (nm, ','.join('KEEP(%s)' % arg_text(a, 'var') if a in PATH_TEXT else a for a in args)))
    return out


def immut_formulas_ops():
    out = []
    names = ['lsa', 'lsb', 'nest', 'nestb', 'mixed', 'deep', 'texts', 'one', 'empty', 'tup']
    for op in fx.BINOPS:
        for a in names:
            for path in PATHS:
                out.append('%s%s2' % (arg_text(a, path), op))
                out.append('"x"%s%s' % (op, arg_text(a, path)))
            for b in ('lsa', 'lsc', 'nest', 'one'):
                out.append('%s%s%s' % (a, op, b))
                out.append('%s%s%s' % (PATH_TEXT[a]['cell'], op, PATH_TEXT[b]['fn']))
    for a in names + ['dct', 'box']:
        for path in PATHS:
            t = arg_text(a, path)
            out += ['-%s' % t, '{%s,1}' % t, '{%s;%s}' % (t, t), '(%s)' % t, 'IF(TRUE,%s,1)' % t, 'KEEP(%s)' % t, 'KEEP(1,%s,%s)' % (t, t),
                    '%s' % t, 'IFERROR(%s,1)' % t, 'KEEP({%s,2})' % t, '-KEEP(%s)' % t, 'SUM(%s)+SUM(%s)' % (t, t)]
    return out


def run_immut(c):
    env = HostEnv()
    forms = immut_formulas_fn(c['fn']) if c['kind'] == 'immut-fn' else immut_formulas_ops()
    findings = []
    n = 0
    touched = 0
    for f in forms:
        try:
            with time_limit(10), contextlib.redirect_stderr(io.StringIO()):
                rec = env.p.parse(f)
        except CaseTimeout:
            continue
        n += 1
        if rec['error'] is None:
            touched += 1
        ch = env.changed()
        if ch:
            k, before, after = ch[0]
            findings.append('%r changed the host value %s: before %r, after %r (compared by ==, id and length of every nested list)' % (
                f, k, before, after))
            env.restore()
            if len(findings) >= 3:
                break
    return {'findings': findings, 'n': n, 'ok_results': touched}


# --------------------------------------------------------------------------- (d) memory

_mem = [None]


def mem_parser(debug):
    """ONE long-lived parser per debug setting for all memory cases of a run"""
    if _mem[0] is None:
        _mem[0] = {}
    if debug not in _mem[0]:
        lv = Live(debug=debug)
        for r in std_regs(False):
            lv.apply(r)
        _mem[0][debug] = lv
    return _mem[0][debug]


class NullSink(object):
    def write(self, s):
        return len(s)

    def flush(self):
        pass


def mem_filters():
    return [tracemalloc.Filter(True, '*/hotxlfp/*'), tracemalloc.Filter(True, '*/ply/*')]


def measure(lv, gen, points):
    """evaluate gen(i) for i = 0.. and sample at the cumulative counts `points`"""
    sing = singletons()
    sink = NullSink()
    filt = mem_filters()
    res = []
    i = 0
    with contextlib.redirect_stderr(sink):
        for _ in range(30):                       # warm-up (lazy imports, caches, specialisation)
            lv.p.parse(gen(-1))
        started = not tracemalloc.is_tracing()
        if started:
            tracemalloc.start(1)
        try:
            for n in points:
                while i < n:
                    lv.p.parse(gen(i))
                    i += 1
                gc.collect()
                objs = len(gc.get_objects())
                snapshot = tracemalloc.take_snapshot().filter_traces(filt)
                size = sum(s.size for s in snapshot.statistics('filename'))
                del snapshot
                res.append({'n': n, 'objects': objs, 'bytes': size, 'tb': [tb_len(e) for e in sing],
                            'ctx': [ctx_len(e) for e in sing]})
                if len(res) >= 3 and sum(res[-1]['tb']) > sum(res[-2]['tb']) > sum(res[-3]['tb']):
                    break         # the chains grow steadily: conclusive (and every further raise costs more)
        finally:
            if started:
                tracemalloc.stop()
    return res


OBJ_SLOPE = 0.05      # live objects per evaluation
BYTE_SLOPE = 0.5      # bytes per evaluation in hotxlfp/ply frames


def slopes(res):
    a, b = res[-2], res[-1]
    dn = float(b['n'] - a['n'])
    return {'objects': (b['objects'] - a['objects']) / dn, 'bytes': (b['bytes'] - a['bytes']) / dn,
            'tb': (sum(b['tb']) - sum(a['tb'])) / dn, 'ctx': (sum(b['ctx']) - sum(a['ctx'])) / dn}


def growing(res):
    s = slopes(res)
    # growth must show in the last two intervals (a one-off allocation is not a slope)
    a, b, c = res[-3], res[-2], res[-1]
    obj = s['objects'] > OBJ_SLOPE and b['objects'] > a['objects']
    byt = s['bytes'] > BYTE_SLOPE and b['bytes'] > a['bytes']
    tb = s['tb'] > 0 or s['ctx'] > 0
    return obj or byt or tb, s


def run_memory(c):
    lv = mem_parser(bool(c.get('debug')))
    if c['kind'] == 'memory':
        f = c['f']

        def gen(i):
            return f
    else:
        t = c['template']
        off = _random.Random(len(t)).randrange(1000, 9000)

        def gen(i):
            return t % (off + 100000 + i if i >= 0 else off)
    pts = [50, 100, 200, 400]
    res = measure(lv, gen, pts)
    bad, s = growing(res)
    confirm = None
    if bad and not (s['tb'] > 0 or s['ctx'] > 0):
        # measure again, twice as long, before calling it a slope
        if c['kind'] == 'memory-distinct':
            t2 = c['template']

            def gen(i, _t=t2):      # fresh, still distinct formulas
                return _t % (7000000 + i if i >= 0 else 7)
        confirm = measure(lv, gen, [100, 200, 400, 800])
        bad, s = growing(confirm)
    return {'samples': res, 'confirm': confirm, 'slope': s, 'growing': bad,
            'tb_final': res[-1]['tb'], 'ctx_final': res[-1]['ctx']}


# --------------------------------------------------------------------------- plugin interface

def reset_singletons():
    """harness hygiene: every case is judged on its own (and replayable alone), so whatever an earlier case left on
    the shared singletons is dropped before and after a case; the measurements are taken in between"""
    for e in singletons():
        e.__traceback__ = None
        e.__context__ = None
        e.__cause__ = None


def impl(c):
    k = c['kind']
    reset_singletons()
    try:
        if k == 'history':
            return run_history(c)
        if k == 'debug':
            return run_debug(c)
        if k == 'inert':
            return run_inert(c)
        if k == 'transient':
            return run_transient(c)
        if k in ('immut-fn', 'immut-ops'):
            return run_immut(c)
        if k in ('memory', 'memory-distinct'):
            return run_memory(c)
        if k == 'order':
            return run_order(c)
        raise ValueError(k)
    finally:
        reset_singletons()


def agree(c, impl_ans, model_ans):
    if c['kind'] != 'history':
        return True
    return agree_history(c, impl_ans, model_ans)


def oracle(c, ans):
    k = c['kind']
    if k == 'history':
        if ans['findings']:
            f = ans['findings'][0]
            return f if f.startswith('[memory]') else '[history-independence] ' + f
        return None
    if k == 'debug':
        if ans['findings']:
            return '[debug] ' + ans['findings'][0]
        return None
    if k == 'inert':
        if ans['findings']:
            return '[inert listener] ' + ans['findings'][0]
        return None
    if k == 'transient':
        if ans['findings']:
            return '[listener answers are not registrations] ' + ans['findings'][0]
        return None
    if k in ('immut-fn', 'immut-ops'):
        if ans['findings']:
            return '[host-value immutability] ' + ans['findings'][0]
        return None
    if k == 'order':
        if ans['findings']:
            return '[history-independence across the process] ' + ans['findings'][0]
        return None
    if k in ('memory', 'memory-distinct'):
        what = repr(c['f']) if k == 'memory' else 'distinct formulas %r' % c['template']
        if ans['growing']:
            s = ans['slope']
            return ('[memory] repeated evaluation of %s retains memory: per evaluation %+.3f live objects, %+.1f bytes in hotxlfp/ply '
                    'frames, %+.3f traceback entries on the error singletons (samples %r)' % (
                        what, s['objects'], s['bytes'], s['tb'] + s['ctx'], ans['confirm'] or ans['samples']))
        return None
    return None


def nontrivial(c, ans):
    k = c['kind']
    if k == 'history':
        s = ans['stats']
        return s['failed'] > 0 and s['rereg'] > 0 and s['raising'] > 0 and s['probe_cmp'] > 0
    if k in ('debug', 'inert', 'transient'):
        return ans['printed']['on'] > 0
    if k in ('immut-fn', 'immut-ops'):
        return ans['n'] > 0
    if k == 'order':
        return ans['values'] > 0
    return True


def weight(c, ans):
    k = c['kind']
    if k == 'history':
        s = ans['stats']
        return (s['parses'], s['probe_cmp'], len(ans['records']) if c.get('model') else 0)
    if k == 'debug':
        return (3 * ans['n'], ans['n'], 0)
    if k == 'inert':
        return (5 * ans['n'], 4 * ans['n'], 0)
    if k == 'transient':
        return (5 * ans['n'], 2 * ans['n'], 0)
    if k in ('immut-fn', 'immut-ops'):
        return (ans['n'], ans['n'], 0)
    if k in ('memory', 'memory-distinct'):
        return (430, 1, 0)
    if k == 'order':
        return (3 * ans['n'], ans['n'], 0)
    return None


def shrink(c, msg):
    """drop blocks / operations of a failing history while it keeps failing"""
    if c['kind'] != 'history':
        return c, msg
    blocks = [list(b) for b in c['blocks']]
    probes = list(c['probes'])
    budget = [200]

    def fails(b, p):
        budget[0] -= 1
        cc = {'kind': 'history', 'model': c.get('model'), 'blocks': b, 'probes': p}
        return oracle(cc, impl(cc))
    for f in probes:                 # one probe is enough
        if budget[0] <= 0:
            break
        m = fails(blocks, [f])
        if m:
            probes, msg = [f], m
            break
    i = len(blocks) - 1
    while i >= 1 and budget[0] > 0:   # whole blocks (never the set-up block, never a block that builds a parser)
        if not any(op[0] == 'new' for op in blocks[i]):
            cand = blocks[:i] + blocks[i + 1:]
            m = fails(cand, probes)
            if m:
                blocks, msg = cand, m
        i -= 1
    for bi in range(len(blocks)):     # registrations inside the remaining blocks
        j = len(blocks[bi]) - 1
        while j >= 0 and budget[0] > 0:
            if blocks[bi][j][0] != 'new' and len(blocks[bi]) > 1:
                cand = [list(b) for b in blocks]
                del cand[bi][j]
                m = fails(cand, probes)
                if m:
                    blocks, msg = cand, m
            j -= 1
    return {'kind': 'history', 'model': c.get('model'), 'blocks': blocks, 'probes': probes}, msg


def search(rng, ctx, disagreeing):
    c2 = dict(ctx)
    c2['scale'] = 4
    return [x for x in cases(rng, c2) if x['kind'] == 'history']
