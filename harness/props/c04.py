# -*- coding: utf-8 -*-
"""C04 - precedence, associativity and parentheses determine expression structure"""
import datetime
from fractions import Fraction

from .. import common, fx
from ..common import enc_str

ID = 'C04'
LEAN_MODULES = ['HotXL.Props.C04']
FUNCTIONS = ['hotxlfp.grammarparser.parser:FormulaParser.p_expression_arithmetic_operator',
             'hotxlfp.grammarparser.parser:FormulaParser.p_expression_logical_operator',
             'hotxlfp.grammarparser.parser:FormulaParser.p_expression_uminus',
             'hotxlfp.grammarparser.parser:FormulaParser.p_expression_paren',
             'hotxlfp.grammarparser.parser:FormulaParser.p_expression_number']
RULE = ('42 fixed formulas (as written; compared with the model only) and 2500*scale (thorough 60000) seeded expression trees of '
        'depth <= 6 quick, <= 9 thorough: 60 % arithmetic trees, 25 % one comparison, 15 % top-level & chains of 2..4 integer '
        'operands. Leaves: integer literals (15 primes), decimals, leading-dot decimals, percent and power literals, 5 variables (va vb v_c rate_x and ovr '
        '- ovr is registered with 999 and answered with 41 by the host\'s callVariable listener through its setter: the oracle and the '
        'model environment take 41), '
        '5 cell references in the four $ patterns and either case, and (5 % of the leaves) the variables e_na/e_num/e_ref bound to '
        'the error values #N/A/#NUM!/#REF! - the value of the tree is then the error met first, left to right; a quarter of the '
        'decimal leaves have integer part 0..39 and two decimals 01..99 (as a rule no dyadic fraction: the literal denotes the '
        'nearest double), the others one of the decimals 5 / 25 / 125 / 0 / 75 after a prime. Blank-'
        'valued operands (the variable NULL or a cell nobody fills, Z9 / z9 / $Y$8, half of the time in redundant parentheses) '
        'stand for 4 % of the operands of + - * /, for one side (20 %: both sides) of 4 % of the comparisons and for 10 % of the '
        'parts of the & chains: a blank counts as 0 under + - * /, as the empty text under &, as the zero of the other side\'s '
        'kind in a comparison. Inner nodes: + - * '
        '/, unary minus, calls of a host function on one argument (ID for 70 % of the call nodes, ABS for 30 %: both registered by the '
        'host as the identity, ABS thereby standing in front of the shipped builtin - ABS(-3) is worth -3 to the oracle; in the model '
        'environment both are `(first)`), parenthesised comparisons used as numbers, and (5 % of the operands of + '
        '- * /) a parenthesised concatenation of integers read as the number its digits spell. In 30 % of the comparisons, when '
        'all intermediate values of one side are doubles (integers below 2^53), the other side is a twin of the same exact value '
        'written differently (n, n.0, 2n/2, .5*2n; the side itself when not whole) - the comparison sits on its boundary. The two host functions and the '
        'cell and variable listeners evaluate further formulas on the same parser during the evaluation. Each tree is rendered '
        'with minimal parentheses (for the precedence the statement prescribes), fully parenthesised, and with white space '
        '(a blank, two blanks, a tab, a newline or CR LF - drawn alike - before an operator, parenthesis or comma with probability 0.3, a blank after + - * / & , ( with 0.2; never inside <= >= <> nor between a name and its parenthesis) and, half of the time, a redundant outer pair of parentheses. Ahead of '
        'the seeded trees 400*scale (thorough 3000) decimal-literal cases (kind tree): a literal with integer part 0..29 and 1..3 '
        'decimals alone (half), or compared by = < > <> with a literal of the same integer part and two decimals or with the sum '
        'integer part + leading-dot literal of the same digits - the literal alone and literal against literal are judged '
        'exactly (every value is a double), the sum form only when integer part + fraction is itself a double (else the '
        'comparison is fragile, see below). 350*scale (thorough 6000) valued trees (kind '
        'vtree), half dates, half arrays, rendered the same three ways. Dates (depth 0..3): leaves are the date-time variables '
        'ta..te (times of day with 0, 1, 500 and 999 milliseconds, ta = te) and calls DATE(2021,3,d), d = 3..6; date + days, '
        'days + date, date - days, where days is one of 8 literals that are whole milliseconds (0.00001, 0.5, .25, 1, 2, 0.001, '
        '0.125, 1.5) or a difference of two dates; on top a comparison of two dates (50 %), a comparison of a difference of dates '
        'with a day literal (15 %), a difference of dates (20 %) or the date itself (15 %). Arrays (depth 1..3): leaves are '
        'integers, one-element literals {n}, the variables one = [10] and cel = [[12]], vec = [1,2,3] and wec = [4,6,12], literal '
        'arrays of three primes written with , ; or \\ as separator; operators + - * / (- and / twice as likely) between shapes '
        's (scalar), o (one element), v (three) - two one-element arrays never meet under one operator; 30 % of the non-scalar '
        'trees sit inside SUM( ), 30 % of those inside -SUM( ). Thorough '
        'adds all 680 trees with 1..3 operators from + - * / < over the leaves 2,3,5,7 (minimal and full). Compared: (a) the tree built by the '
        'real ply tables (semantic actions replaced after table construction) with the model parser\'s tree; (b) model evaluation '
        'with real evaluation; oracle (trees): every rendering evaluates to the exact rational value of the tree (integers and '
        'logicals exactly, floats exactly when every intermediate value of the tree is a double and within 1e-9 otherwise, errors '
        'by code with result None, x/0 = #DIV/0!; a decimal literal is worth the double nearest to the number it spells); oracle '
        '(valued trees, vexact): exact arithmetic in milliseconds / Fractions - a date within a quarter of a millisecond, a number '
        'within 1e-9, an array element by element after flattening with the same length, a logical exactly; a comparison is '
        'judged only when its sides differ by at least 1 ms or are equal leaves (variables or DATE calls; equality reached '
        'through arithmetic is left to rounding), only date with date or number with number; a division by zero and two arrays of '
        'different lengths under one operator are not judged. A tree holding a comparison whose '
        'sides agree within 1e-9 relative while some intermediate value is not a double is fragile: its value is judged neither by the '
        'oracle nor against the model, its shape still is (valued trees are always compared with the model, shape and value: dates '
        'within 2 microseconds + 2^-49 of the count since 1900, floats within 1e-9). Non-trivial = a fixed formula or a tree with at least two operators '
        '(unary minus counts). When a proof or the correspondence broke: the quick generator at scale 10.')
TRUSTED = ['ply.yacc LALR(1) table construction and conflict resolution: modelled by a precedence-climbing parser driven by the '
           'generated precedence table; tied by tree-shape correspondence, not proved',
           'float arithmetic is compared with exact rational arithmetic up to 1e-9 relative error (absolute below 1)',
           'the oracle\'s reference evaluators exact (numbers, logicals, digit text, blanks, error values) and vexact (dates in '
           'milliseconds since 1899-12-30, arrays as flattened lists) are written by hand from the usual reading below',
           'valued trees: DATE and SUM are the library\'s builtins (and the model\'s), not judged for themselves',
           'the model environment (ENV) is written by hand beside real_parser: ovr = 41 (not the registered 999), ID and ABS as '
           '`(first)`; the model has no callVariable listener - that the listener\'s answer and the host\'s ABS win is judged by the '
           'oracle (exact: a call node is worth its argument, ovr is worth 41) and by the agreement with that environment']
ASSUMPTIONS = ['relative precedence of & versus + - * / is not fixed by the statement: & appears only in top-level chains '
               'with atomic or parenthesised operands and inside parentheses as an operand of + - * /',
               'usual reading of the values: unary minus and + - * / read a logical as 1/0, + - * / read digit text as its number; & joins the '
               'decimal spellings of integers; a comparison of a number with a logical puts every number below every logical (C07); '
               'an error operand makes the result that error, the left operand first; a blank operand (the variable NULL, a cell nobody '
               'fills) counts as 0 under unary minus and + - * /, as the empty text under &, and in a comparison as the zero of the '
               'other side\'s kind (two blanks are equal); a decimal literal denotes the double nearest to the number it spells',
               'valued trees: a date plus or minus a number of days is that date-time shifted (to the millisecond), the difference of two '
               'dates is their distance in days, dates compare by instant, DATE(y,m,d) is midnight of that day; + - * / between an array '
               'and a scalar or a one-element array ([x] or [[x]]) works on every element, between two arrays of the same length '
               'pairwise, the nesting of the answer being left open; SUM adds the elements',
               'what a callVariable listener hands to its setter is the value of the variable in that evaluation, whatever was '
               'registered under the name (ovr: 999 registered, 41 answered, 41 expected); a function the host registers under the '
               'name of a shipped builtin (ABS) is the one a call of that name evaluates']

# the reading the statement prescribes (1 = loosest)
SPEC = {'=': (1, 'left'), '<>': (1, 'left'), '<': (1, 'left'), '>': (1, 'left'), '<=': (1, 'left'), '>=': (1, 'left'),
        '+': (2, 'left'), '-': (2, 'left'), '*': (3, 'left'), '/': (3, 'left'), '&': (4, 'left')}
PRIMES = [2, 3, 5, 7, 11, 13, 17, 19, 23, 29, 31, 37, 41, 43, 47]
VARS = {'va': 53, 'vb': 59, 'v_c': 61, 'rate_x': 67, 'ovr': 41}
# `ovr` is registered with OVR_REGISTERED and answered with 41 by the host's callVariable listener: the listener's answer is the value
OVR_REGISTERED = 999
CELLS = {'A1': 71, 'B2': 73, '$C$3': 79, 'D$4': 83, '$E5': 89}

# variables bound to error VALUES (leaves of C04's own trees only): with two of them under one operator the tree's value is
# the error met first in evaluation order - the left one
ERRVARS = {'e_na': '#N/A', 'e_num': '#NUM!', 'e_ref': '#REF!'}
_ERRS = [False]          # are error leaves generated?  (switched on by this plugin's cases() only)


def errvals():
    e = fx._xlerror()
    return dict((k, e.from_message(c)) for k, c in ERRVARS.items())


# valued leaves (kind vtree): variables holding date-times with sub-second times of day, and arrays (a one-element array,
# the [[x]] a host returns for a one-cell range, two vectors of three)
DVARS = {'ta': datetime.datetime(2021, 3, 4, 10, 0, 0), 'tb': datetime.datetime(2021, 3, 4, 10, 0, 0, 500000),
         'tc': datetime.datetime(2021, 3, 5, 23, 59, 59, 999000), 'td': datetime.datetime(2021, 3, 4, 10, 0, 0, 1000),
         'te': datetime.datetime(2021, 3, 4, 10, 0, 0)}
AVARS = {'one': [10], 'cel': [[12]], 'vec': [1, 2, 3], 'wec': [4, 6, 12]}
MS_DAY = 86400000
BASE = datetime.datetime(1899, 12, 30)

_tp = [None]
_rp = [None]


def tree_parser():
    if _tp[0] is None:
        _tp[0] = fx.TreeParser()
    return _tp[0]


def real_parser():
    if _rp[0] is None:
        common.load_repo()
        import hotxlfp
        p = hotxlfp.Parser()
        for k, v in VARS.items():
            p.set_variable(k, v if k != 'ovr' else OVR_REGISTERED)
        for k, v in errvals().items():
            p.set_variable(k, v)
        for k, v in list(DVARS.items()) + list(AVARS.items()):
            p.set_variable(k, v)
        # the host resolves references by evaluating further formulas ON THE SAME PARSER while the outer
        # evaluation is in progress (a spreadsheet whose cells hold formulas): leaves are re-entrant
        def ident(x):
            p.parse('2*3+1')
            return x
        p.set_function('ID', ident)
        # the host's own ABS (the identity) stands in front of the shipped one: a call node is evaluated by what the host registered
        p.set_function('ABS', ident)

        def on_cell(cell, setter):
            for lab, v in CELLS.items():
                if cell.label == lab.upper():
                    setter(p.parse('%d+0' % v)['result'])
        p.on('callCellValue', on_cell)

        def on_var(name, setter):
            p.parse('1<2')
            if name == 'ovr':
                setter(VARS['ovr'])
        p.on('callVariable', on_var)
        _rp[0] = p
    return _rp[0]


def _allvars():
    d = dict(VARS, **errvals())
    d.update(DVARS)
    d.update(AVARS)
    return d


ENV = fx.env_wire(variables=_allvars(), fns={'ID': '(first)', 'ABS': '(first)'}, cells={k.upper(): v for k, v in CELLS.items()})


# ------------------------------------------------------------------ generation

def leaf(rng, ints_only=False):
    if _ERRS[0] and rng.random() < 0.05:
        return ('var', [rng.choice(sorted(ERRVARS))])
    r = rng.random()
    if r < 0.45 or ints_only and r < 0.8:
        return ('num', 'int', str(rng.choice(PRIMES)), '')
    if r < 0.55 and not ints_only:
        if _ERRS[0] and rng.random() < 0.25:
            # a decimal that is no dyadic fraction: its value is the nearest double (trees above it are judged with a tolerance,
            # the literal alone and comparisons of such literals exactly)
            return ('num', 'dec', str(rng.randrange(0, 40)), '%02d' % rng.randrange(1, 100))
        return ('num', 'dec', str(rng.choice(PRIMES)), rng.choice(['5', '25', '125', '0', '75']))
    if r < 0.60 and not ints_only:
        return ('num', 'dot', '', rng.choice(['5', '25', '125']))
    if r < 0.63 and not ints_only:
        return ('num', 'pct', str(rng.choice([50, 25, 200])), '')
    if r < 0.66:
        return ('num', 'pow', str(rng.choice([2, 3, 5])), str(rng.choice([0, 1, 2, 3])))
    if r < 0.82:
        return ('var', [rng.choice(list(VARS))])
    lab = rng.choice(list(CELLS))
    if rng.random() < 0.5:
        lab = lab.lower()
    return ('cell', lab)


def blank_leaf(rng):
    """a blank-valued operand (the NULL variable, a cell nobody fills), half of the time in redundant parentheses: under + - * /
    it counts as 0, under & as the empty text, in a comparison as the zero of the other side's kind"""
    t = ('var', ['NULL']) if rng.random() < 0.5 else ('cell', rng.choice(['Z9', 'z9', '$Y$8']))
    return ('cmp', t) if rng.random() < 0.5 else t


def gen_num(rng, depth, ints_only=False):
    if depth <= 0 or rng.random() < 0.18:
        return leaf(rng, ints_only)
    r = rng.random()
    if r < 0.12:
        return ('neg', gen_num(rng, depth - 1, ints_only))
    if r < 0.20:
        return ('call', 'ID' if rng.random() < 0.7 else 'ABS', 'flat', [gen_num(rng, depth - 1, ints_only)], [])
    if r < 0.27 and not ints_only:
        return ('cmp', gen_cmp(rng, depth - 1))      # parenthesised comparison used as a number

    ops = ['+', '-', '*'] if ints_only else ['+', '-', '*', '/']

    def operand():
        if _ERRS[0] and rng.random() < 0.04:
            return blank_leaf(rng)
        if not ints_only and rng.random() < 0.05:
            # a parenthesised concatenation as an operand of + - * /: the joined digits (with the sign of the left part)
            # are numeric text, which arithmetic reads as that number (only there: -"12" and "12">3 are other matters)
            x = gen_num(rng, min(depth - 1, 1), True)
            y = ('num', 'int', str(rng.choice(PRIMES + [0, 10, 100])), '')
            return ('cmp', ('bin', '&', ('amparg', x), ('amparg', y)))
        return gen_num(rng, depth - 1, ints_only)
    return ('bin', rng.choice(ops), operand(), operand())


def _lit(n):
    """an integer as a tree"""
    return ('num', 'int', str(n), '') if n >= 0 else ('neg', ('num', 'int', str(-n), ''))


def subtrees(t):
    yield t
    k = t[0]
    if k in ('cmp', 'amparg', 'neg'):
        for x in subtrees(t[1]):
            yield x
    elif k == 'call':
        for a in t[3]:
            for x in subtrees(a):
                yield x
    elif k == 'bin':
        for a in (t[2], t[3]):
            for x in subtrees(a):
                yield x


def float_exact(t):
    """is every intermediate value of the tree a double (or an integer)? Then binary floating point computes the tree
    exactly and a comparison ON its boundary is decided by the tree, not by rounding"""
    try:
        for s in subtrees(t):
            v = exact(s)
            if isinstance(v, Fraction) and not isinstance(v, bool):
                if v.denominator != 1 and Fraction(float(v)) != v:
                    return False
                if v.denominator == 1 and abs(v.numerator) >= 2 ** 53:
                    return False
    except (ErrVal, OverflowError, AssertionError):
        return False
    return True


def equal_twin(rng, t):
    """a tree with the same exact value as t, written differently (an integer as int literal, as n.0, as 2n/2; a
    whole-valued quotient beside the integer it equals): the comparison then sits exactly on its boundary"""
    if not float_exact(t):
        return None
    v = exact(t)
    if isinstance(v, bool) or not isinstance(v, Fraction):
        return None
    if v.denominator == 1 and abs(v.numerator) < 10 ** 12:
        n = v.numerator
        r = rng.random()
        if r < 0.4:
            return _lit(n)
        if r < 0.6 and n >= 0:
            return ('num', 'dec', str(n), '0')
        if r < 0.85:
            return ('bin', '/', _lit(2 * n), ('num', 'int', '2', ''))
        return ('bin', '*', ('num', 'dot', '', '5'), _lit(2 * n))
    return t


def gen_cmp(rng, depth):
    op = rng.choice(['=', '<>', '<', '>', '<=', '>='])
    if _ERRS[0] and rng.random() < 0.04:
        sides = [blank_leaf(rng), gen_num(rng, depth) if rng.random() < 0.8 else blank_leaf(rng)]
        rng.shuffle(sides)
        return ('bin', op, sides[0], sides[1])
    l = gen_num(rng, depth)
    if rng.random() < 0.3:
        r = equal_twin(rng, l)
        if r is not None:
            return ('bin', op, l, r) if rng.random() < 0.5 else ('bin', op, r, l)
    return ('bin', op, l, gen_num(rng, depth))


def gen_top(rng, depth):
    r = rng.random()
    if r < 0.6:
        return gen_num(rng, depth)
    if r < 0.85:
        return gen_cmp(rng, depth - 1)
    n = rng.randrange(2, 5)

    def part():
        if _ERRS[0] and rng.random() < 0.1:
            return blank_leaf(rng)
        return ('amparg', gen_num(rng, max(0, depth - 2), True))
    t = part()
    for _ in range(n - 1):
        t = ('bin', '&', t, part())
    return t


def strip_marks(t):
    """drop the ('cmp', x) / ('amparg', x) markers -> plain tree"""
    if t == 'blank':
        return t
    k = t[0]
    if k in ('cmp', 'amparg'):
        return strip_marks(t[1])
    if k == 'neg':
        return ('neg', strip_marks(t[1]))
    if k == 'bin':
        return ('bin', t[1], strip_marks(t[2]), strip_marks(t[3]))
    if k == 'call':
        return ('call', t[1], t[2], [strip_marks(x) for x in t[3]], [strip_marks(x) for x in t[4]])
    return t


def count_ops(t):
    if t == 'blank':
        return 0
    k = t[0]
    if k in ('cmp', 'amparg'):
        return count_ops(t[1])
    if k == 'neg':
        return 1 + count_ops(t[1])
    if k == 'bin':
        return 1 + count_ops(t[2]) + count_ops(t[3])
    if k == 'call':
        return sum(count_ops(x) for x in t[3])
    return 0


def render_spec(t, full, rng=None, redundant=0.0):
    """render with minimal parentheses for the statement's precedence (or fully)"""
    def paren(s):
        return '(' + s + ')'

    def atomish(x):
        return x[0] in ('num', 'var', 'cell', 'call', 'arr')

    def go(x):
        k = x[0]
        if k == 'cmp':
            return paren(go(x[1]))
        if k == 'amparg':
            inner = x[1]
            s = go(inner)
            return s if (atomish(inner) and not full) else paren(s)
        if k == 'neg':
            inner = x[1]
            s = go(inner)
            if inner[0] in ('bin',) or (full and not atomish(inner)):
                s = paren(s)
            return '-' + s
        if k == 'bin':
            op, l, r = x[1], x[2], x[3]
            lv = SPEC[op][0]

            def sub(y, right):
                s = go(y)
                if y[0] == 'bin':
                    yl = SPEC[y[1]][0]
                    if full or yl < lv or (yl == lv and right):
                        return paren(s)
                    return s
                if full and y[0] == 'neg':
                    return paren(s)
                return s
            s = sub(l, False) + op + sub(r, True)
            return s
        if k == 'call':
            return x[1] + '(' + ','.join(go(a) for a in x[3]) + ')'
        return fx.render(x)
    s = go(t)
    if rng is not None and redundant > 0 and rng.random() < redundant:
        s = '(' + s + ')'
    return s


def add_space(rng, formula):
    """white space at token boundaries that cannot split or join tokens: around operators,
    parentheses and commas (never between a function name and its parenthesis)"""
    out = []
    for i, ch in enumerate(formula):
        if ch in '+-*/&=<>(),' and rng.random() < 0.3:
            prev = formula[i - 1] if i else ''
            # do not separate the two characters of <=, >=, <> nor a name from '('
            if not (ch in '=>' and prev in '<>') and not (ch == '(' and (prev.isalnum() or prev in '_.')):
                out.append(rng.choice([' ', '  ', '\t', '\n', '\r\n']))
        out.append(ch)
        if ch in '+-*/&,(' and rng.random() < 0.2:
            nxt = formula[i + 1] if i + 1 < len(formula) else ''
            if not (ch in '<>' and nxt in '=>'):
                out.append(' ')
    return ''.join(out)


# ------------------------------------------------------------------ exact evaluation

class ErrVal(Exception):
    """the tree's value is this error (the first one met in evaluation order)"""
    def __init__(self, code):
        Exception.__init__(self, code)
        self.code = code


class Div0(ErrVal):
    def __init__(self):
        ErrVal.__init__(self, '#DIV/0!')


def exact(t):
    """value of the tree by the usual reading: Fraction / bool / str (digits) ; Div0"""
    k = t[0]
    if k in ('cmp', 'amparg'):
        return exact(t[1])
    if k == 'num':
        form, a, b = t[1], t[2], t[3]
        if form == 'int':
            return Fraction(int(a))
        # a decimal literal denotes the double nearest to the number it spells (float(Fraction) rounds correctly)
        if form == 'dec':
            return Fraction(float(Fraction(int(a)) + Fraction(int(b), 10 ** len(b))))
        if form == 'dot':
            return Fraction(float(Fraction(int(b), 10 ** len(b))))
        if form == 'pct':
            return Fraction(int(a), 100)
        if form == 'pow':
            return Fraction(int(a) ** int(b))
    if k == 'var':
        if t[1][0] in ERRVARS:
            raise ErrVal(ERRVARS[t[1][0]])
        if t[1][0] == 'NULL':
            return None
        return Fraction(VARS[t[1][0]])
    if k == 'cell':
        for lab, v in CELLS.items():
            if lab.upper() == t[1].upper():
                return Fraction(v)
        return None          # a cell nobody fills: blank
    if k == 'call':
        return exact(t[3][0])
    if k == 'neg':
        v = exact(t[1])
        return -num(v)
    if k == 'bin':
        op = t[1]
        a = exact(t[2])
        b = exact(t[3])
        if op == '&':
            return text(a) + text(b)
        if op in ('=', '<>', '<', '>', '<=', '>='):
            # a blank compares as the zero of the other side's kind (two blanks are equal)
            if a is None and b is None:
                a = b = Fraction(0)
            elif a is None:
                a = False if isinstance(b, bool) else Fraction(0)
            elif b is None:
                b = False if isinstance(a, bool) else Fraction(0)
        if op in ('=', '<>', '<', '>', '<=', '>=') and (isinstance(a, bool) != isinstance(b, bool)):
            # C07: every number is less than every logical
            a, b = (Fraction(1), Fraction(0)) if isinstance(a, bool) else (Fraction(0), Fraction(1))
        a, b = num(a), num(b)
        if op == '+':
            return a + b
        if op == '-':
            return a - b
        if op == '*':
            return a * b
        if op == '/':
            if b == 0:
                raise Div0()
            return a / b
        return {'=': a == b, '<>': a != b, '<': a < b, '>': a > b, '<=': a <= b, '>=': a >= b}[op]
    raise ValueError(t)


def num(v):
    if v is None:
        return Fraction(0)
    if isinstance(v, bool):
        return Fraction(1 if v else 0)
    if isinstance(v, str):
        return Fraction(int(v))      # joined digits, possibly signed (only ever built from integers)
    return v


def text(v):
    if v is None:
        return ''
    if isinstance(v, str):
        return v
    assert v.denominator == 1
    return str(v.numerator)


def same(rec, expected, exact_floats=False):
    """does the record returned by parse hold the expected exact value?"""
    if isinstance(expected, tuple) and expected[0] == 'err':
        return rec['error'] == expected[1] and rec['result'] is None
    if rec['error'] is not None:
        return False
    r = rec['result']
    if isinstance(expected, bool):
        return r is expected
    if isinstance(expected, str):
        return r == expected
    if isinstance(r, bool) or not isinstance(r, (int, float)):
        return False
    if isinstance(r, int):
        return Fraction(r) == expected
    e = float(expected)
    if exact_floats:
        return r == e
    return abs(r - e) <= 1e-9 * max(1.0, abs(e))


# ------------------------------------------------------------------ valued trees (dates with sub-second parts, arrays)

DAYLITS = [('num', 'dec', '0', '00001'), ('num', 'dec', '0', '5'), ('num', 'dot', '', '25'), ('num', 'int', '1', ''),
           ('num', 'int', '2', ''), ('num', 'dec', '0', '001'), ('num', 'dec', '0', '125'), ('num', 'dec', '1', '5')]


def gen_days(rng, depth):
    """a number of days that is a whole number of milliseconds"""
    if depth <= 0 or rng.random() < 0.7:
        return rng.choice(DAYLITS)
    return ('bin', '-', gen_date(rng, depth - 1), gen_date(rng, depth - 1))


def gen_date(rng, depth):
    """a date-valued tree"""
    r = rng.random()
    if depth <= 0 or r < 0.4:
        if rng.random() < 0.7:
            return ('var', [rng.choice(sorted(DVARS))])
        return ('call', 'DATE', 'flat', [('num', 'int', '2021', ''), ('num', 'int', '3', ''), ('num', 'int', str(rng.randrange(3, 7)), '')], [])
    if r < 0.62:
        return ('bin', '+', gen_date(rng, depth - 1), gen_days(rng, depth - 1))
    if r < 0.75:
        return ('bin', '+', gen_days(rng, depth - 1), gen_date(rng, depth - 1))
    return ('bin', '-', gen_date(rng, depth - 1), gen_days(rng, depth - 1))


def gen_dtop(rng, depth):
    r = rng.random()
    op = rng.choice(['=', '<>', '<', '>', '<=', '>='])
    if r < 0.5:
        return ('bin', op, gen_date(rng, depth), gen_date(rng, depth))
    if r < 0.65:
        return ('bin', op, ('bin', '-', gen_date(rng, depth), gen_date(rng, depth)), rng.choice(DAYLITS))
    if r < 0.85:
        return ('bin', '-', gen_date(rng, depth), gen_date(rng, depth))
    return gen_date(rng, depth)


def gen_arr(rng, depth):
    """-> (tree, shape): shape 's' scalar, 'o' one-element array, 'v' array of three.  Two one-element arrays never meet
    under one operator (whether they give [x] or [[x]] is nobody's business here)"""
    if depth <= 0 or rng.random() < 0.3:
        r = rng.random()
        if r < 0.25:
            return ('num', 'int', str(rng.choice(PRIMES + [10, 24, 60])), ''), 's'
        if r < 0.40:
            return ('arr', 'flat', [('num', 'int', str(rng.choice(PRIMES + [10, 24, 60])), '')], [], ','), 'o'
        if r < 0.55:
            return ('var', [rng.choice(['one', 'cel'])]), 'o'
        if r < 0.75:
            return ('var', [rng.choice(['vec', 'wec'])]), 'v'
        return ('arr', 'flat', [('num', 'int', str(rng.choice(PRIMES)), '') for _ in range(3)], [], rng.choice([',', ';', '\\'])), 'v'
    for _ in range(20):
        (l, ls), (r, rs) = gen_arr(rng, depth - 1), gen_arr(rng, depth - 1)
        if ls == 'o' and rs == 'o':
            continue
        sh = 'v' if 'v' in (ls, rs) else ('o' if 'o' in (ls, rs) else 's')
        return ('bin', rng.choice(['+', '-', '-', '*', '/', '/']), l, r), sh
    return ('var', ['vec']), 'v'


def gen_atop(rng, depth):
    t, sh = gen_arr(rng, depth)
    if sh != 's' and rng.random() < 0.3:
        t = ('call', 'SUM', 'flat', [t], [])
        if rng.random() < 0.3:
            t = ('neg', t)
    return t


class NotJudged(Exception):
    pass


def flat(v):
    if isinstance(v, list):
        out = []
        for x in v:
            out.extend(flat(x))
        return out
    return [v]


def vexact(t):
    """value of a valued tree: ('d', ms since 1899-12-30 as Fraction) / Fraction / bool / list of Fractions (flattened)"""
    k = t[0]
    if k in ('cmp', 'amparg'):
        return vexact(t[1])
    if k == 'num':
        form, a, b = t[1], t[2], t[3]
        if form == 'int':
            return Fraction(int(a))
        if form == 'dec':
            return Fraction(int(a)) + Fraction(int(b), 10 ** len(b))
        if form == 'dot':
            return Fraction(int(b), 10 ** len(b))
    if k == 'var':
        n = t[1][0]
        if n in DVARS:
            d = DVARS[n] - BASE
            return ('d', Fraction((d.days * 86400 + d.seconds) * 1000000 + d.microseconds, 1000))
        if n in AVARS:
            return [Fraction(x) for x in flat(AVARS[n])]
    if k == 'arr':
        return [vexact(x) for x in t[2]]
    if k == 'call' and t[1] == 'DATE':
        y, m, d = [int(vexact(x)) for x in t[3]]
        return ('d', Fraction((datetime.datetime(y, m, d) - BASE).days * MS_DAY))
    if k == 'call' and t[1] == 'SUM':
        return sum(flat(vexact(t[3][0])), Fraction(0))
    if k == 'neg':
        return -vexact(t[1])
    if k == 'bin':
        op = t[1]
        a, b = vexact(t[2]), vexact(t[3])
        if isinstance(a, list) or isinstance(b, list):
            def one(x, y):
                if op == '/' and y == 0:
                    raise NotJudged()
                return {'+': x + y, '-': x - y, '*': x * y, '/': x / y if y else None}[op]
            if isinstance(a, list) and len(a) == 1 and isinstance(b, list) and len(b) > 1:
                a = a[0]
            if isinstance(b, list) and len(b) == 1 and isinstance(a, list) and len(a) > 1:
                b = b[0]
            if isinstance(a, list) and isinstance(b, list):
                if len(a) != len(b):
                    raise NotJudged()
                return [one(x, y) for x, y in zip(a, b)]
            if isinstance(a, list):
                return [one(x, b) for x in a]
            return [one(a, y) for y in b]
        ad, bd = isinstance(a, tuple), isinstance(b, tuple)
        if op in ('=', '<>', '<', '>', '<=', '>='):
            if ad != bd:
                raise NotJudged()
            x, y = (a[1], b[1]) if ad else (a * MS_DAY, b * MS_DAY)
            leaves = t[2][0] in ('var', 'call') and t[3][0] in ('var', 'call')
            if x != y and abs(x - y) < 1 or x == y and not leaves:
                raise NotJudged()      # closer than a millisecond (or equal through arithmetic): rounding decides
            return {'=': x == y, '<>': x != y, '<': x < y, '>': x > y, '<=': x <= y, '>=': x >= y}[op]
        if op == '+' and ad != bd:
            return ('d', (a[1] + b * MS_DAY) if ad else (a * MS_DAY + b[1]))
        if op == '-' and ad and not bd:
            return ('d', a[1] - b * MS_DAY)
        if op == '-' and ad and bd:
            return (a[1] - b[1]) / MS_DAY
        if not ad and not bd:
            if op == '/' and b == 0:
                raise NotJudged()
            return {'+': a + b, '-': a - b, '*': a * b, '/': a / b if b else None}[op]
        raise NotJudged()
    raise ValueError(t)


def vsame(rec, expected):
    if rec['error'] is not None:
        return False
    r = rec['result']
    if isinstance(expected, bool):
        return r is expected
    if isinstance(expected, tuple):
        if not isinstance(r, datetime.datetime):
            return False
        d = r - BASE
        us = (d.days * 86400 + d.seconds) * 1000000 + d.microseconds
        return abs(Fraction(us, 1000) - expected[1]) <= Fraction(1, 4)          # a quarter of a millisecond
    if isinstance(expected, list):
        if not isinstance(r, list):
            return False
        got = flat(r)
        return len(got) == len(expected) and all(vsame({'error': None, 'result': g}, e) for g, e in zip(got, expected))
    if isinstance(r, bool) or not isinstance(r, (int, float)):
        return False
    return abs(Fraction(r) - expected) <= Fraction(1, 10 ** 9) * max(1, abs(expected))


# ------------------------------------------------------------------ plugin interface

def cases(rng, ctx):
    thorough = ctx['tier'] == 'thorough'
    n = (60000 if thorough else 2500) * ctx['scale']
    maxd = 9 if thorough else 6
    out = []
    for f in ['1+2*3', '1-2-3', '2*3+4', '8/4/2', '2-3*4-5', '-2+3', '-(2+3)*4', '1+2&3', '1&2&3', '1<2+3', '2*3=6',
              '(1+2)*3', '((1))+((2))', '1 + 2 * 3', '-2^2', '--3', '2--3', '2*-3', '1<2', '(1<2)+1', '1+(2<3)*4',
              '1=1=1', '10/4', '.5+.25', '50%*4', '2^3+1', 'va+vb*v_c', 'A1*b2-$c$3', 'ID(2+3)*4', '1-(2-3)', '1/(2/4)',
              '2*(3+4)', '(2*3)+4', '1+2+3+4', '1*2*3*4', '7-4+2', '8/2*3', '1+-2', '3*(-2)', '1<>2', '1>=1', '1<=0']:
        out.append({'kind': 'formula', 'f': f})
    # decimal literals on their own and against one another: every literal denotes exactly the nearest double
    for _ in range((3000 if thorough else 400) * ctx['scale']):
        a = ('num', 'dec', str(rng.randrange(0, 30)), '%0*d' % (rng.choice([1, 2, 2, 3]), rng.randrange(1, 1000) % (10 ** 3)))
        if rng.random() < 0.5:
            out.append({'kind': 'tree', 't': a, 'ws': rng.randrange(1 << 30)})
        else:
            b = ('num', 'dec', a[2], '%02d' % rng.randrange(1, 100)) if rng.random() < 0.5 else ('bin', '+', ('num', 'int', a[2], ''), ('num', 'dot', '', a[3]))
            out.append({'kind': 'tree', 't': ('bin', rng.choice(['=', '<', '>', '<>']), a, b), 'ws': rng.randrange(1 << 30)})
    _ERRS[0] = True
    try:
        for _ in range(n):
            t = gen_top(rng, rng.randrange(1, maxd + 1))
            out.append({'kind': 'tree', 't': t, 'ws': rng.randrange(1 << 30)})
    finally:
        _ERRS[0] = False
    # valued trees: dates with sub-second times of day and arrays as the values of the leaves
    for _ in range((6000 if thorough else 350) * ctx['scale']):
        t = gen_dtop(rng, rng.randrange(0, 4)) if rng.random() < 0.5 else gen_atop(rng, rng.randrange(1, 4))
        out.append({'kind': 'vtree', 't': t, 'ws': rng.randrange(1 << 30)})
    if thorough:
        # every tree with up to 3 binary operators over one representative per level (+,-,*,/,<,&-free), distinct leaves
        ops = ['+', '-', '*', '/', '<']
        leaves = [('num', 'int', str(p), '') for p in PRIMES[:4]]

        def shapes(k, lo):
            if k == 0:
                yield leaves[lo]
                return
            for i in range(k):
                for l in shapes(i, lo):
                    for r in shapes(k - 1 - i, lo + i + 1):
                        for op in ops:
                            yield ('bin', op, l, r)
        for k in range(1, 4):
            for t in shapes(k, 0):
                out.append({'kind': 'tree', 't': t, 'ws': 0})
    return out


def _forms(c):
    """the renderings of a case: [(label, formula)]"""
    if c['kind'] == 'formula':
        return [('as-written', c['f'])]
    import random
    t = _fix(c['t'])
    r = random.Random(c['ws'])
    mn = render_spec(t, False)
    fl = render_spec(t, True)
    res = [('minimal', mn), ('full', fl)]
    if c['ws']:
        res.append(('spaced', add_space(r, render_spec(t, False, r, 0.5))))
    return res


def _fix(t):
    """JSON round trip turns tuples into lists"""
    if isinstance(t, list):
        return tuple(_fix(x) if isinstance(x, list) and x and isinstance(x[0], str) and x[0] in
                     ('num', 'str', 'neg', 'bin', 'call', 'var', 'cell', 'range', 'cmp', 'amparg', 'arr', 'errlit')
                     else ([_fix(y) for y in x] if isinstance(x, list) else x) for x in t)
    return t


def request(c):
    # one request per case: the trees and the evaluation records of all renderings
    forms = _forms(c)
    parts = []
    for _, f in forms:
        parts.append('(%s %s)' % (enc_str(f), ENV))
    return 'c04.batch ' + ' '.join(enc_str(f) for _, f in forms) + ' ' + ENV


def impl(c):
    tp = tree_parser()
    rp = real_parser()
    res = []
    for lab, f in _forms(c):
        res.append((f, tp.tree(f), rp.parse(f)))
    return res


def fragile(t):
    """does the tree hold a comparison whose two sides are (nearly) equal while their values are not all doubles?
    Binary floating point may then decide the comparison either way (79/67*79*67 is not 6241): the VALUE of such a
    tree is not judged - its shape still is"""
    for s in subtrees(t):
        if s[0] == 'bin' and s[1] in ('=', '<>', '<', '>', '<=', '>='):
            try:
                a, b = exact(s[2]), exact(s[3])
            except ErrVal:
                continue
            if isinstance(a, Fraction) and isinstance(b, Fraction) and not isinstance(a, bool) and not isinstance(b, bool):
                if abs(a - b) <= Fraction(1, 10 ** 9) * max(1, abs(a), abs(b)) and not float_exact(s):
                    return True
    return False


def agree(c, impl_ans, model_ans):
    m = fx.parse_sexp(model_ans)
    if not isinstance(m, list) or len(m) != len(impl_ans):
        return False
    skip_value = c['kind'] == 'tree' and fragile(_fix(c['t']))
    for (f, tree, rec), mm in zip(impl_ans, m):
        mtree, mrec = mm[0], mm[1]
        # (a) tree shape
        if fx.parse_sexp(tree) != mtree:
            return False
        # (b) evaluation
        r = fx.record_matches(mrec, rec, rel=1e-9)
        if r is False and not skip_value:
            return False
    return True


def oracle(c, impl_ans):
    if c['kind'] == 'vtree':
        t = _fix(c['t'])
        try:
            expected = vexact(t)
        except NotJudged:
            return None
        for f, tree, rec in impl_ans:
            if not vsame(rec, expected):
                return 'formula %r evaluates to %r; the usual reading of its tree gives %s (renderings: %r)' % (
                    f, rec, vshow(expected), [x[0] for x in impl_ans])
        return None
    if c['kind'] != 'tree':
        return None
    t = _fix(c['t'])
    if fragile(t):
        return None
    try:
        expected = exact(t)
    except ErrVal as e:
        expected = ('err', e.code)
    # when every intermediate value of the tree is a double, binary floating point computes the tree exactly: no tolerance
    ef = float_exact(t)
    for f, tree, rec in impl_ans:
        if not same(rec, expected, ef):
            return 'formula %r evaluates to %r; the usual reading of its tree gives %r (renderings: %r)' % (
                f, rec, expected if not isinstance(expected, Fraction) else float(expected), [x[0] for x in impl_ans])
    return None


def vshow(v):
    if isinstance(v, tuple):
        return 'the date %s' % (BASE + datetime.timedelta(microseconds=int(v[1] * 1000)))
    if isinstance(v, list):
        return repr([float(x) for x in v])
    return repr(v if isinstance(v, bool) else float(v))


def nontrivial(c, impl_ans):
    if c['kind'] == 'formula':
        return True
    return count_ops(_fix(c['t'])) >= 2


def search(rng, ctx, disagreements):
    c2 = dict(ctx)
    c2['scale'] = 10
    c2['tier'] = 'quick'
    return cases(rng, c2)
